#![no_main]
//! bytes -> the whole content of en.json (and fr.json after a 0xFF byte)
use libfuzzer_sys::fuzz_target;

fuzz_target!(|data: &[u8]| {
    let (a, b) = match data.iter().position(|b| *b == 0xFF) {
        Some(i) => (&data[..i], &data[i + 1..]),
        None => (data, &b"{}"[..]),
    };
    let en = String::from_utf8_lossy(a);
    let fr = String::from_utf8_lossy(b);
    verif_fuzz::exercise(&en, &fr);
});
