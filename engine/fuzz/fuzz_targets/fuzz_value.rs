#![no_main]
//! bytes -> one translation string, placed next to helper keys that `$t(..)` can point at
use libfuzzer_sys::fuzz_target;

fuzz_target!(|data: &[u8]| {
    let s = String::from_utf8_lossy(data);
    // optional second half (after a NUL) becomes the `fr` value
    let (a, b) = match s.split_once('\0') {
        Some((a, b)) => (a.to_string(), Some(b.to_string())),
        None => (s.to_string(), None),
    };
    let helpers = r#""t": "T {{ x }} <b>{{ y }}</b>", "n": 5, "r": [["zero", 0], ["{{ count }} some", "1..5", 7], ["many {{ count }}"]], "f": ["f32", ["low", "..1.5"], ["rest"]], "p_one": "one {{ count }}", "p_other": "{{ count }} others", "o_ordinal_one": "{{ count }}st", "o_ordinal_other": "{{ count }}th", "s": {"a": "A", "b": {"c": "C {{ z }}"}}"#;
    let en = format!("{{{helpers}, \"k\": {}}}", verif_fuzz::json_string(&a));
    let fr = match &b {
        Some(b) => format!("{{{helpers}, \"k\": {}}}", verif_fuzz::json_string(b)),
        None => format!("{{{helpers}}}"),
    };
    verif_fuzz::exercise(&en, &fr);
});
