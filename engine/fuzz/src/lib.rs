//! Shared body of the libFuzzer targets (C09): write the fuzz input as translation files of a tiny
//! project on tmpfs and run the three loaders (parser, build-script API, in-process code generator).
//! A panic anywhere aborts the process (libFuzzer reports it as a crash = violation of C09).
extern crate proc_macro;

#[path = "/repo/leptos_i18n_macro/src/data_provider.rs"]
#[allow(dead_code, unused_imports)]
mod data_provider;
#[path = "/repo/leptos_i18n_macro/src/load_locales/mod.rs"]
#[allow(dead_code, unused_imports)]
pub(crate) mod load_locales;
#[path = "/repo/leptos_i18n_macro/src/t_format/mod.rs"]
#[allow(dead_code, unused_imports)]
pub(crate) mod t_format;
#[path = "/repo/leptos_i18n_macro/src/t_macro/mod.rs"]
#[allow(dead_code, unused_imports)]
pub(crate) mod t_macro;
#[path = "/repo/leptos_i18n_macro/src/t_plural/mod.rs"]
#[allow(dead_code, unused_imports)]
pub(crate) mod t_plural;
#[path = "/repo/leptos_i18n_macro/src/utils/mod.rs"]
#[allow(dead_code, unused_imports)]
pub(crate) mod utils;
#[allow(unused_imports)]
use load_locales::plurals::PluralRuleType;

use std::path::PathBuf;

pub fn scratch() -> PathBuf {
    let base = if std::path::Path::new("/dev/shm").is_dir() { "/dev/shm" } else { "/verif/work" };
    let p = PathBuf::from(base).join(format!("verif-fuzz-{}", std::process::id()));
    let _ = std::fs::create_dir_all(p.join("locales"));
    p
}

pub const MANIFEST: &str = "[package]\nname = \"x\"\n[package.metadata.leptos-i18n]\ndefault = \"en\"\nlocales = [\"en\", \"fr\"]\ninherits = { fr = \"en\" }\n";

/// run the loaders on (en.json, fr.json); any panic propagates
pub fn exercise(en: &str, fr: &str) {
    let dir = scratch();
    let _ = std::fs::write(dir.join("Cargo.toml"), MANIFEST);
    let _ = std::fs::write(dir.join("locales/en.json"), en);
    let _ = std::fs::write(dir.join("locales/fr.json"), fr);
    match leptos_i18n_parser::parse_locales::parse_locales(false, Some(dir.clone())) {
        Ok(_) => {}
        Err(e) => assert!(!e.to_string().trim().is_empty(), "empty error message"),
    }
    if let Ok(infos) = leptos_i18n_build::TranslationsInfos::parse_at_dir(dir.clone()) {
        let _ = infos.get_icu_keys().count();
        let _ = infos.get_translations().write_to_dir(dir.join("out"));
    }
    std::env::set_var("CARGO_MANIFEST_DIR", &dir);
    match load_locales::load_locales() {
        Ok(ts) => {
            let _ = ts.to_string().len();
        }
        Err(e) => assert!(!e.to_string().trim().is_empty(), "empty error message"),
    }
}

pub fn json_string(s: &str) -> String {
    serde_json::to_string(s).unwrap()
}
