//! The fixed small translation set used by C15 and C16: three locales of equal specificity, plain
//! keys, an interpolated key, and two levels of subkeys (for `scope_i18n!` / `use_i18n_scoped!`).
//! Declared inline with the library's own `declare_locales!` (no files involved).

leptos_i18n::declare_locales! {
    path: leptos_i18n,
    default: "en",
    locales: ["en", "fr", "de"],
    en: {
        hello: "hello [en]",
        greet: "hi {{ name }} [en]",
        grp: {
            title: "title [en]",
            deep: {
                leaf: "leaf [en]",
                leafv: "leaf {{ x }} [en]",
            },
        },
        other: {
            a: "a [en]",
        },
    },
    fr: {
        hello: "bonjour [fr]",
        greet: "salut {{ name }} [fr]",
        grp: {
            title: "titre [fr]",
            deep: {
                leaf: "feuille [fr]",
                leafv: "feuille {{ x }} [fr]",
            },
        },
        other: {
            a: "a [fr]",
        },
    },
    de: {
        hello: "hallo [de]",
        greet: "servus {{ name }} [de]",
        grp: {
            title: "titel [de]",
            deep: {
                leaf: "blatt [de]",
                leafv: "blatt {{ x }} [de]",
            },
        },
        other: {
            a: "a [de]",
        },
    },
}

pub use i18n::Locale;

pub const LOCALES: [Locale; 3] = [Locale::en, Locale::fr, Locale::de];

pub fn loc_name(l: Locale) -> &'static str {
    leptos_i18n::Locale::as_str(l)
}

/// the text each key must show in a locale (the model's copy of the table above)
pub fn expected_text(l: Locale, key: Key) -> String {
    let tag = loc_name(l);
    let word = |en: &str, fr: &str, de: &str| -> String {
        match l {
            Locale::en => en.to_string(),
            Locale::fr => fr.to_string(),
            Locale::de => de.to_string(),
        }
    };
    match key {
        Key::Hello => format!("{} [{tag}]", word("hello", "bonjour", "hallo")),
        Key::Greet => format!("{} Bob [{tag}]", word("hi", "salut", "servus")),
        Key::GrpTitle => format!("{} [{tag}]", word("title", "titre", "titel")),
        Key::GrpDeepLeaf => format!("{} [{tag}]", word("leaf", "feuille", "blatt")),
        Key::GrpDeepLeafv => format!("{} 42 [{tag}]", word("leaf", "feuille", "blatt")),
        Key::OtherA => format!("a [{tag}]"),
    }
}

#[derive(Clone, Copy, Debug, PartialEq, Eq)]
pub enum Key {
    Hello,
    Greet,
    GrpTitle,
    GrpDeepLeaf,
    GrpDeepLeafv,
    OtherA,
}

/// A second, independent locale enum living in the same process (an embedded component with its own
/// translations): the same languages in another order plus one more, so that anything the library
/// shares between locale enums maps to other positions here.
pub mod second {
    leptos_i18n::declare_locales! {
        path: leptos_i18n,
        default: "en",
        locales: ["en", "de", "it", "fr"],
        en: { k: "k [en]" },
        de: { k: "k [de]" },
        it: { k: "k [it]" },
        fr: { k: "k [fr]" },
    }
}
