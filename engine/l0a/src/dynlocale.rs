//! `DynLocale`: a harness implementation of the public `leptos_i18n::Locale` trait whose
//! supported set (`get_all()`) and default are those of the *current case* (thread local), so
//! that the real negotiation code (`langid.rs`, `Locale::find_locale`, `Locale::find_matchs`) can be
//! driven over arbitrary supported sets without generating one enum per set.

use std::cell::{Cell, RefCell};
use std::collections::BTreeMap;
use std::fmt;
use std::hash::{Hash, Hasher};
use std::str::FromStr;

use icu_locid::{LanguageIdentifier, Locale as IcuLocale};
use leptos_i18n::{Direction, Locale, LocaleKeys};

pub struct TagInfo {
    /// canonical spelling (icu `Display`)
    pub name: String,
    pub icu: IcuLocale,
}

/// handle on an interned tag; two handles are equal iff they designate the same canonical tag
#[derive(Clone, Copy)]
pub struct DynLocale(&'static TagInfo);

thread_local! {
    static INTERN: RefCell<BTreeMap<String, &'static TagInfo>> = const { RefCell::new(BTreeMap::new()) };
    static SETS: RefCell<BTreeMap<Vec<String>, &'static [DynLocale]>> = const { RefCell::new(BTreeMap::new()) };
    static CURRENT: Cell<Option<(&'static [DynLocale], DynLocale)>> = const { Cell::new(None) };
}

impl DynLocale {
    /// intern a language identifier (canonicalised by icu)
    pub fn intern(id: &LanguageIdentifier) -> DynLocale {
        let name = id.to_string();
        INTERN.with(|m| {
            let mut m = m.borrow_mut();
            if let Some(t) = m.get(&name) {
                return DynLocale(t);
            }
            let info: &'static TagInfo = Box::leak(Box::new(TagInfo {
                name: name.clone(),
                icu: IcuLocale::from(id.clone()),
            }));
            m.insert(name, info);
            DynLocale(info)
        })
    }

    pub fn parse(s: &str) -> Option<DynLocale> {
        LanguageIdentifier::try_from_bytes(s.as_bytes())
            .ok()
            .map(|id| DynLocale::intern(&id))
    }

    pub fn name(self) -> &'static str {
        &self.0.name
    }

    pub fn langid(self) -> &'static LanguageIdentifier {
        &self.0.icu.id
    }

    /// install the supported set (in `get_all()` order) and the default locale of the current case
    pub fn install(all: &[DynLocale], default: DynLocale) {
        let key: Vec<String> = all.iter().map(|l| l.name().to_string()).collect();
        let slice = SETS.with(|m| {
            let mut m = m.borrow_mut();
            if let Some(s) = m.get(&key) {
                return *s;
            }
            let s: &'static [DynLocale] = Box::leak(all.to_vec().into_boxed_slice());
            m.insert(key, s);
            s
        });
        CURRENT.with(|c| c.set(Some((slice, default))));
    }

    fn current() -> (&'static [DynLocale], DynLocale) {
        CURRENT
            .with(|c| c.get())
            .expect("harness error: DynLocale used without an installed supported set")
    }
}

impl PartialEq for DynLocale {
    fn eq(&self, other: &Self) -> bool {
        std::ptr::eq(self.0, other.0)
    }
}
impl Eq for DynLocale {}
impl Hash for DynLocale {
    fn hash<H: Hasher>(&self, state: &mut H) {
        self.0.name.hash(state)
    }
}
impl fmt::Debug for DynLocale {
    fn fmt(&self, f: &mut fmt::Formatter<'_>) -> fmt::Result {
        f.write_str(&self.0.name)
    }
}
impl fmt::Display for DynLocale {
    fn fmt(&self, f: &mut fmt::Formatter<'_>) -> fmt::Result {
        f.write_str(&self.0.name)
    }
}
impl Default for DynLocale {
    fn default() -> Self {
        DynLocale::current().1
    }
}
impl FromStr for DynLocale {
    type Err = ();
    fn from_str(s: &str) -> Result<Self, ()> {
        DynLocale::current()
            .0
            .iter()
            .copied()
            .find(|l| l.name() == s)
            .ok_or(())
    }
}
impl AsRef<LanguageIdentifier> for DynLocale {
    fn as_ref(&self) -> &LanguageIdentifier {
        &self.0.icu.id
    }
}
impl AsRef<IcuLocale> for DynLocale {
    fn as_ref(&self) -> &IcuLocale {
        &self.0.icu
    }
}
impl AsRef<str> for DynLocale {
    fn as_ref(&self) -> &str {
        &self.0.name
    }
}
impl AsRef<DynLocale> for DynLocale {
    fn as_ref(&self) -> &DynLocale {
        self
    }
}
impl serde::Serialize for DynLocale {
    fn serialize<S: serde::Serializer>(&self, s: S) -> Result<S::Ok, S::Error> {
        s.serialize_str(&self.0.name)
    }
}
impl<'de> serde::Deserialize<'de> for DynLocale {
    fn deserialize<D: serde::Deserializer<'de>>(d: D) -> Result<Self, D::Error> {
        let s = <String as serde::Deserialize>::deserialize(d)?;
        Ok(DynLocale::from_str(&s).unwrap_or_default())
    }
}

#[derive(Clone, Copy)]
pub struct DynKeys;

impl LocaleKeys for DynKeys {
    type Locale = DynLocale;
    fn from_locale(_: DynLocale) -> Self {
        DynKeys
    }
}

impl Locale for DynLocale {
    type Keys = DynKeys;
    type TranslationUnitId = ();

    fn as_str(self) -> &'static str {
        &self.0.name
    }
    fn as_icu_locale(self) -> &'static IcuLocale {
        &self.0.icu
    }
    fn direction(self) -> Direction {
        Direction::Auto
    }
    fn get_all() -> &'static [DynLocale] {
        DynLocale::current().0
    }
    fn to_base_locale(self) -> DynLocale {
        self
    }
    fn from_base_locale(locale: DynLocale) -> Self {
        locale
    }
}
