//! C16 — a context always shows the last locale set; sub-contexts are isolated.
//!
//! A history of operations is interpreted on real contexts (feature `ssr`, native) and on a model
//! that holds one locale cell per context. After every step every live view (`get_locale`,
//! `get_locale_untracked`) must read its context's cell and every accessor made so far (`t!`, `tu!`,
//! `t_string!`, `t_display!`, plain and interpolated keys, through root and scoped views) must render
//! that locale's text.

use std::any::Any;
use std::borrow::Cow;
use std::sync::{Arc, Mutex};

use leptos::prelude::*;
use leptos_i18n::context::{
    init_i18n_context_with_options, init_i18n_subcontext_with_options, CookieOptions, I18nContextOptions,
    UseLocalesOptions,
};
use leptos_i18n::{scope_i18n, t, t_display, t_string, tu, use_i18n_scoped, I18nContext};
use serde_json::{json, Value};
use vcommon::ctx::{hash_str, CaseInfo, CaseResult, Ctx, Failure};
use vcommon::tape::Tape;

use crate::fixture::i18n::{use_i18n, I18nSubContextProvider};
use crate::fixture::{expected_text, loc_name, Key, Locale, LOCALES};

// ------------------------------------------------------------------------------------------------
// operations
// ------------------------------------------------------------------------------------------------

#[derive(Clone, Copy, Debug, PartialEq, Eq)]
enum Flavour {
    T,
    Tu,
    TString,
    TDisplay,
    /// `t_format!(ctx, value, formatter: number)` kept as a view (its text does not depend on the key)
    TFormat,
    TuFormat,
    /// the closure returned by `t_plural!{ ctx, count = || 0, one => .., _ => .. }`
    TPlural,
}
const FLAVOURS: [Flavour; 7] = [Flavour::T, Flavour::Tu, Flavour::TString, Flavour::TDisplay, Flavour::TFormat, Flavour::TuFormat, Flavour::TPlural];

/// what the key-independent accessor flavours show for a locale (explicit-locale variants of the same macros)
fn flavour_expected(l: Locale, fl: Flavour) -> Option<String> {
    match fl {
        Flavour::TFormat | Flavour::TuFormat => Some(leptos_i18n::formatting::td_format_string!(l, 1234567.5f64, formatter: number)),
        Flavour::TPlural => Some(leptos_i18n::td_plural! { l, count = || 0u64, one => "one", _ => "other" }.to_string()),
        _ => None,
    }
}

#[derive(Clone, Copy, Debug, PartialEq, Eq)]
enum SubHow {
    /// `init_i18n_subcontext_with_options(None, None, ..)` + `provide_context` in a child owner
    Plain,
    /// same with a cookie name (the request carries no cookie)
    CookieName,
    /// constant `initial_locale`
    Initial(usize),
    /// the generated `<I18nSubContextProvider>` component (run_as_children)
    Provider,
}

#[derive(Clone, Debug)]
enum Op {
    /// indices are resolved against the live views / contexts (see `resolve`)
    Set { view: usize, loc: usize },
    SetUntracked { view: usize, loc: usize },
    Scope { view: usize, path: usize },
    /// `use_i18n_scoped!` inside the owner of a context
    UseScoped { ctx: usize, path: usize },
    SubContext { parent: usize, how: SubHow },
    MakeAccessor { view: usize, flavour: Flavour, key: usize },
    /// let the queued isomorphic effects run
    Tick,
}

/// resolve a generated index against `n` live things: even indices count from the oldest, odd ones
/// from the newest (index 0 = the initial view / root context)
fn resolve(idx: usize, n: usize) -> usize {
    let k = (idx / 2) % n;
    if idx % 2 == 0 {
        k
    } else {
        n - 1 - k
    }
}

/// Every operation takes exactly four tape words (kind + three operands), whatever its kind, so
/// that shrinking one word never shifts the meaning of the words behind it. Kind 0 is "no
/// operation" and is not recorded: a zeroed stretch of the tape disappears from the history.
fn gen_history(t: &mut Tape, max_len: usize) -> Vec<Op> {
    let n = t.range(0, max_len);
    let mut ops = vec![];
    for _ in 0..n {
        let w = [t.word(), t.word(), t.word(), t.word()];
        let pick = |i: usize, n: usize| ((w[i] as u64 * n as u64) >> 32) as usize;
        const WEIGHTS: [u64; 8] = [1, 6, 3, 3, 1, 2, 4, 1];
        let total: u64 = WEIGHTS.iter().sum();
        let x = (w[0] as u64 * total) >> 32;
        let mut acc = 0;
        let mut kind = WEIGHTS.len() - 1;
        for (i, wt) in WEIGHTS.iter().enumerate() {
            acc += wt;
            if x < acc {
                kind = i;
                break;
            }
        }
        let op = match kind {
            0 => continue,
            1 => Op::Set { view: pick(1, 12), loc: pick(2, 3) },
            2 => Op::SetUntracked { view: pick(1, 12), loc: pick(2, 3) },
            3 => Op::Scope { view: pick(1, 12), path: pick(2, 3) },
            4 => Op::UseScoped { ctx: pick(1, 6), path: pick(2, 3) },
            5 => Op::SubContext {
                parent: pick(1, 6),
                how: match pick(2, 4) {
                    0 => SubHow::Plain,
                    1 => SubHow::CookieName,
                    2 => SubHow::Initial(pick(3, 3)),
                    _ => SubHow::Provider,
                },
            },
            6 => Op::MakeAccessor { view: pick(1, 12), flavour: FLAVOURS[pick(2, 7)], key: pick(3, 6) },
            _ => Op::Tick,
        };
        ops.push(op);
    }
    ops
}

// ------------------------------------------------------------------------------------------------
// views: closures over the concretely typed (possibly scoped) contexts
// ------------------------------------------------------------------------------------------------

type Render = Box<dyn Fn() -> String>;

struct ViewFns {
    kind: &'static str,
    get: Box<dyn Fn() -> Locale>,
    get_untracked: Box<dyn Fn() -> Locale>,
    set: Box<dyn Fn(Locale)>,
    set_untracked: Box<dyn Fn(Locale)>,
    /// a memo over `get_locale()` created with the view and read untracked: it only follows the
    /// context through the signal's notifications
    memo: Box<dyn Fn() -> Locale>,
    /// (flavour, key choice) -> which key it is and a closure that renders it now
    accessor: Box<dyn Fn(Flavour, usize) -> (Key, Render)>,
    /// scope further (None when the view has no such subkeys)
    scope: Box<dyn Fn(usize) -> Option<ViewFns>>,
}

/// the four accessor flavours for one key path (with optional interpolation arguments)
macro_rules! flavours {
    ($fl:expr, $i18n:ident, $key:expr, [$($path:tt)*] $(, $arg:ident = $val:expr)*) => {{
        let r: Render = match $fl {
            Flavour::T => {
                let a = t!($i18n, $($path)* $(, $arg = $val)*);
                Box::new(move || a.clone().to_html())
            }
            Flavour::Tu => {
                let a = tu!($i18n, $($path)* $(, $arg = $val)*);
                Box::new(move || a.clone().to_html())
            }
            Flavour::TString => Box::new(move || t_string!($i18n, $($path)* $(, $arg = $val)*).to_string()),
            Flavour::TDisplay => Box::new(move || t_display!($i18n, $($path)* $(, $arg = $val)*).to_string()),
            Flavour::TFormat => {
                let a = leptos_i18n::formatting::t_format!($i18n, || 1234567.5f64, formatter: number);
                Box::new(move || a.clone().to_html())
            }
            Flavour::TuFormat => {
                let a = leptos_i18n::formatting::tu_format!($i18n, || 1234567.5f64, formatter: number);
                Box::new(move || a.clone().to_html())
            }
            Flavour::TPlural => {
                let f = leptos_i18n::t_plural! { $i18n, count = || 0u64, one => "one", _ => "other" };
                Box::new(move || f().to_string())
            }
        };
        ($key, r)
    }};
}

macro_rules! common_fns {
    ($i18n:ident) => {
        (
            Box::new(move || $i18n.get_locale()) as Box<dyn Fn() -> Locale>,
            Box::new(move || $i18n.get_locale_untracked()) as Box<dyn Fn() -> Locale>,
            Box::new(move |l| $i18n.set_locale(l)) as Box<dyn Fn(Locale)>,
            Box::new(move |l| $i18n.set_locale_untracked(l)) as Box<dyn Fn(Locale)>,
            {
                // a subscribed, caching consumer: recomputed only when the locale signal notifies
                let m = ArcMemo::new(move |_| $i18n.get_locale());
                Box::new(move || m.get_untracked()) as Box<dyn Fn() -> Locale>
            },
        )
    };
}

macro_rules! deep_view {
    ($e:expr) => {{
        let i18n = $e;
        let (get, get_untracked, set, set_untracked, memo) = common_fns!(i18n);
        ViewFns {
            kind: "scope grp.deep",
            get,
            get_untracked,
            set,
            set_untracked,
            memo,
            accessor: Box::new(move |fl, k| match k % 2 {
                0 => flavours!(fl, i18n, Key::GrpDeepLeaf, [leaf]),
                _ => flavours!(fl, i18n, Key::GrpDeepLeafv, [leafv], x = 42),
            }),
            scope: Box::new(|_| None),
        }
    }};
}

macro_rules! other_view {
    ($e:expr) => {{
        let i18n = $e;
        let (get, get_untracked, set, set_untracked, memo) = common_fns!(i18n);
        ViewFns {
            kind: "scope other",
            get,
            get_untracked,
            set,
            set_untracked,
            memo,
            accessor: Box::new(move |fl, _| flavours!(fl, i18n, Key::OtherA, [a])),
            scope: Box::new(|_| None),
        }
    }};
}

macro_rules! grp_view {
    ($e:expr) => {{
        let i18n = $e;
        let (get, get_untracked, set, set_untracked, memo) = common_fns!(i18n);
        ViewFns {
            kind: "scope grp",
            get,
            get_untracked,
            set,
            set_untracked,
            memo,
            accessor: Box::new(move |fl, k| match k % 3 {
                0 => flavours!(fl, i18n, Key::GrpTitle, [title]),
                1 => flavours!(fl, i18n, Key::GrpDeepLeaf, [deep.leaf]),
                _ => flavours!(fl, i18n, Key::GrpDeepLeafv, [deep.leafv], x = 42),
            }),
            scope: Box::new(move |_| Some(deep_view!(scope_i18n!(i18n, deep)))),
        }
    }};
}

fn root_view(i18n: I18nContext<Locale>) -> ViewFns {
    let (get, get_untracked, set, set_untracked, memo) = common_fns!(i18n);
    ViewFns {
        kind: "context",
        get,
        get_untracked,
        set,
        set_untracked,
        memo,
        accessor: Box::new(move |fl, k| match k % 6 {
            0 => flavours!(fl, i18n, Key::Hello, [hello]),
            1 => flavours!(fl, i18n, Key::Greet, [greet], name = "Bob"),
            2 => flavours!(fl, i18n, Key::GrpTitle, [grp.title]),
            3 => flavours!(fl, i18n, Key::GrpDeepLeaf, [grp.deep.leaf]),
            4 => flavours!(fl, i18n, Key::GrpDeepLeafv, [grp.deep.leafv], x = 42),
            _ => flavours!(fl, i18n, Key::OtherA, [other.a]),
        }),
        scope: Box::new(move |p| {
            Some(match p % 3 {
                0 => grp_view!(scope_i18n!(i18n, grp)),
                1 => deep_view!(scope_i18n!(i18n, grp.deep)),
                _ => other_view!(scope_i18n!(i18n, other)),
            })
        }),
    }
}

/// `use_i18n_scoped!` resolves the context of the current owner itself
fn use_scoped_view(path: usize) -> ViewFns {
    match path % 3 {
        0 => grp_view!(use_i18n_scoped!(grp)),
        1 => deep_view!(use_i18n_scoped!(grp.deep)),
        _ => other_view!(use_i18n_scoped!(other)),
    }
}

// ------------------------------------------------------------------------------------------------
// interpreter + model
// ------------------------------------------------------------------------------------------------

struct Node {
    owner: Owner,
    /// model: the locale cell of this context
    cell: Locale,
    /// the last write of the cell was a notifying one (`set_locale`) or the cell was never written:
    /// subscribed consumers must then show `cell` (after `set_locale_untracked` they may lag)
    notified: bool,
    parent: Option<usize>,
    how: &'static str,
    /// keeps the provider's view (and with it its owner) alive
    _keep: Option<Box<dyn Any>>,
}

struct View {
    ctx: usize,
    fns: ViewFns,
    /// index of the operation that made it (-1: initial state)
    made_at: i64,
}

struct Accessor {
    ctx: usize,
    view: usize,
    flavour: Flavour,
    key: Key,
    render: Render,
    made_at: i64,
}

struct World {
    nodes: Vec<Node>,
    views: Vec<View>,
    accessors: Vec<Accessor>,
}

fn cookie_options() -> CookieOptions<Locale> {
    CookieOptions::<Locale>::default()
        .ssr_cookies_header_getter(|| None)
        .ssr_set_cookie(|_: &_| {})
        .on_error(Arc::new(|_| {}))
}

fn lang_options() -> UseLocalesOptions {
    UseLocalesOptions::default().ssr_lang_header_getter(|| None)
}

/// comment markers that the html renderer puts between adjacent text nodes
fn normalise(html: &str) -> String {
    html.replace("<!>", "").replace("<!---->", "")
}

fn describe(op: &Op) -> Value {
    json!(format!("{op:?}"))
}

struct StepCtx<'a> {
    history: &'a [Op],
    /// number of operations executed so far
    done: usize,
    /// what the step did, resolved (for the failure report and the signature)
    what: String,
    /// context whose cell the step wrote, if any
    wrote: Option<usize>,
    kind: &'static str,
}

fn check_world(w: &World, s: &StepCtx) -> Result<u64, Failure> {
    let mut obs = 0u64;
    let fail = |thing: &str, ctx: usize, who: String, expected: String, actual: String| -> Failure {
        // stable signature: what kind of step, and what kind of observer disagreed, on which side
        let relation = match s.wrote {
            Some(c) if c == ctx => "same-context",
            Some(c) if w.nodes[ctx].parent == Some(c) => "child-of-written-context",
            Some(c) if w.nodes[c].parent == Some(ctx) => "parent-of-written-context",
            Some(_) => "unrelated-context",
            None => "no-write",
        };
        Failure {
            signature: format!("{}:{}:{}", s.kind, thing, relation),
            detail: json!({
                "history": s.history.iter().take(s.done).map(describe).collect::<Vec<_>>(),
                "failing_op_index": s.done as i64 - 1,
                "step_did": s.what,
                "observer": who,
                "expected": expected,
                "actual": actual,
                "model_contexts": w.nodes.iter().map(|n| json!({"made_by": n.how, "parent": n.parent, "locale": loc_name(n.cell)})).collect::<Vec<_>>(),
            }),
        }
    };
    for (vi, v) in w.views.iter().enumerate() {
        let want = w.nodes[v.ctx].cell;
        let who = |m: &str| format!("view #{vi} ({}, of context #{}, made by op {}) {m}", v.fns.kind, v.ctx, v.made_at);
        let got = (v.fns.get)();
        obs += 1;
        if got != want {
            return Err(fail("get_locale", v.ctx, who("get_locale()"), loc_name(want).into(), loc_name(got).into()));
        }
        let got = (v.fns.get_untracked)();
        obs += 1;
        if got != want {
            return Err(fail("get_locale_untracked", v.ctx, who("get_locale_untracked()"), loc_name(want).into(), loc_name(got).into()));
        }
        // a subscribed memo follows every notifying write (it is read after every step, so it is always subscribed)
        let got = (v.fns.memo)();
        if w.nodes[v.ctx].notified {
            obs += 1;
            if got != want {
                return Err(fail("subscribed-memo", v.ctx, who("Memo over get_locale(), read untracked"), loc_name(want).into(), loc_name(got).into()));
            }
        }
    }
    for (ai, a) in w.accessors.iter().enumerate() {
        let want = flavour_expected(w.nodes[a.ctx].cell, a.flavour).unwrap_or_else(|| expected_text(w.nodes[a.ctx].cell, a.key));
        let got = normalise(&(a.render)());
        obs += 1;
        if got != want {
            let thing = match a.flavour {
                Flavour::T => "t!",
                Flavour::Tu => "tu!",
                Flavour::TString => "t_string!",
                Flavour::TDisplay => "t_display!",
                Flavour::TFormat => "t_format!",
                Flavour::TuFormat => "tu_format!",
                Flavour::TPlural => "t_plural!",
            };
            return Err(fail(
                thing,
                a.ctx,
                format!("accessor #{ai} ({thing} {:?} through view #{} of context #{}, made by op {})", a.key, a.view, a.ctx, a.made_at),
                want,
                got,
            ));
        }
    }
    Ok(obs)
}

#[derive(Default)]
struct Stats {
    sets: u32,
    set_with_scope_and_sub_other_view: bool,
    scoped_views: u32,
    subcontexts: u32,
    accessors: u32,
    accessor_before_set: bool,
    ticks: u32,
    set_on_parent_with_child: bool,
    set_on_child: bool,
    provider: bool,
}

fn run_history(ops: &[Op]) -> Result<(u64, Stats), Failure> {
    let mut stats = Stats::default();
    let root_owner = Owner::new();
    let root_ctx = root_owner.with(|| {
        let opts = I18nContextOptions::<Locale>::default()
            .cookie_options(cookie_options())
            .ssr_lang_header_getter(lang_options());
        let c = init_i18n_context_with_options(opts);
        provide_context(c);
        c
    });
    let mut w = World {
        nodes: vec![Node { owner: root_owner, cell: Locale::default(), notified: true, parent: None, how: "root", _keep: None }],
        views: vec![View { ctx: 0, fns: root_view(root_ctx), made_at: -1 }],
        accessors: vec![],
    };
    let mut obs = 0u64;
    // step 0 is the creation of the root context
    let result = (|| -> Result<(), Failure> {
        obs += check_world(&w, &StepCtx { history: ops, done: 0, what: "root context created".into(), wrote: None, kind: "create-root" })?;
        for (i, op) in ops.iter().enumerate() {
            let (what, wrote, kind): (String, Option<usize>, &'static str) = match op {
                Op::Set { view, loc } | Op::SetUntracked { view, loc } => {
                    let vi = resolve(*view, w.views.len());
                    let l = LOCALES[*loc];
                    let c = w.views[vi].ctx;
                    let untracked = matches!(op, Op::SetUntracked { .. });
                    if untracked {
                        (w.views[vi].fns.set_untracked)(l);
                    } else {
                        (w.views[vi].fns.set)(l);
                    }
                    w.nodes[c].cell = l;
                    w.nodes[c].notified = !untracked;
                    stats.sets += 1;
                    let views_of_c = w.views.iter().filter(|v| v.ctx == c).count();
                    let scoped_of_c = w.views.iter().filter(|v| v.ctx == c && v.fns.kind != "context").count();
                    if views_of_c >= 2 && scoped_of_c >= 1 && w.nodes.len() >= 2 {
                        stats.set_with_scope_and_sub_other_view = true;
                    }
                    if w.accessors.iter().any(|a| a.ctx == c) {
                        stats.accessor_before_set = true;
                    }
                    if w.nodes.iter().any(|n| n.parent == Some(c)) {
                        stats.set_on_parent_with_child = true;
                    }
                    if w.nodes[c].parent.is_some() {
                        stats.set_on_child = true;
                    }
                    (
                        format!(
                            "{}({}) through view #{vi} ({}) of context #{c}",
                            if untracked { "set_locale_untracked" } else { "set_locale" },
                            loc_name(l),
                            w.views[vi].fns.kind
                        ),
                        Some(c),
                        if untracked { "set_locale_untracked" } else { "set_locale" },
                    )
                }
                Op::Scope { view, path } => {
                    let vi = resolve(*view, w.views.len());
                    match (w.views[vi].fns.scope)(*path) {
                        Some(fns) => {
                            let c = w.views[vi].ctx;
                            let kind = fns.kind;
                            w.views.push(View { ctx: c, fns, made_at: i as i64 });
                            stats.scoped_views += 1;
                            (format!("scope_i18n! on view #{vi} -> view #{} ({kind})", w.views.len() - 1), None, "scope_i18n")
                        }
                        None => ("nothing (the view has no subkeys to scope to)".into(), None, "nop"),
                    }
                }
                Op::UseScoped { ctx, path } => {
                    let c = resolve(*ctx, w.nodes.len());
                    let fns = w.nodes[c].owner.with(|| use_scoped_view(*path));
                    let kind = fns.kind;
                    w.views.push(View { ctx: c, fns, made_at: i as i64 });
                    stats.scoped_views += 1;
                    (format!("use_i18n_scoped! in the owner of context #{c} -> view #{} ({kind})", w.views.len() - 1), None, "use_i18n_scoped")
                }
                Op::SubContext { parent, how } => {
                    let p = resolve(*parent, w.nodes.len());
                    let parent_cell = w.nodes[p].cell;
                    let (owner, sub, keep, cell, how_s): (Owner, I18nContext<Locale>, Option<Box<dyn Any>>, Locale, &'static str) = match how {
                        SubHow::Provider => {
                            let slot: Arc<Mutex<Option<(I18nContext<Locale>, Owner)>>> = Arc::new(Mutex::new(None));
                            let slot2 = Arc::clone(&slot);
                            let view = w.nodes[p].owner.with(|| {
                                view! {
                                    <I18nSubContextProvider cookie_options=cookie_options() ssr_lang_header_getter=lang_options()>
                                        {
                                            let i18n = use_i18n();
                                            *slot2.lock().unwrap() = Some((i18n, Owner::current().expect("owner in children")));
                                            "child"
                                        }
                                    </I18nSubContextProvider>
                                }
                                .into_any()
                            });
                            let (sub, owner) = slot.lock().unwrap().take().expect("harness error: provider did not run its children");
                            stats.provider = true;
                            (owner, sub, Some(Box::new(view) as Box<dyn Any>), parent_cell, "<I18nSubContextProvider>")
                        }
                        _ => {
                            let owner = w.nodes[p].owner.with(|| Owner::current().expect("owner").child());
                            let (initial, cookie_name, cell, how_s): (Option<Signal<Locale>>, Option<Cow<'static, str>>, Locale, &'static str) = match how {
                                SubHow::Plain => (None, None, parent_cell, "init_i18n_subcontext_with_options(None, None)"),
                                SubHow::CookieName => (None, Some(Cow::Borrowed("sub_locale")), parent_cell, "init_i18n_subcontext_with_options(None, cookie name)"),
                                SubHow::Initial(l) => {
                                    let l = LOCALES[*l];
                                    (Some(Signal::derive(move || l)), None, l, "init_i18n_subcontext_with_options(constant initial_locale)")
                                }
                                SubHow::Provider => unreachable!(),
                            };
                            let sub = owner.with(|| {
                                let c = init_i18n_subcontext_with_options::<Locale>(initial, cookie_name, Some(cookie_options()), Some(lang_options()));
                                provide_context(c);
                                c
                            });
                            (owner, sub, None, cell, how_s)
                        }
                    };
                    w.nodes.push(Node { owner, cell, notified: true, parent: Some(p), how: how_s, _keep: keep });
                    let c = w.nodes.len() - 1;
                    w.views.push(View { ctx: c, fns: root_view(sub), made_at: i as i64 });
                    stats.subcontexts += 1;
                    (format!("sub-context #{c} of context #{p} via {how_s} -> view #{}", w.views.len() - 1), None, "create-subcontext")
                }
                Op::MakeAccessor { view, flavour, key } => {
                    let vi = resolve(*view, w.views.len());
                    let (k, render) = (w.views[vi].fns.accessor)(*flavour, *key);
                    let c = w.views[vi].ctx;
                    w.accessors.push(Accessor { ctx: c, view: vi, flavour: *flavour, key: k, render, made_at: i as i64 });
                    stats.accessors += 1;
                    (format!("accessor #{} = {flavour:?} {k:?} through view #{vi}", w.accessors.len() - 1), None, "make-accessor")
                }
                Op::Tick => {
                    let polls = crate::exec::tick();
                    stats.ticks += 1;
                    (format!("ran the queued effects ({polls} polls)"), None, "effects-run")
                }
            };
            obs += check_world(&w, &StepCtx { history: ops, done: i + 1, what, wrote, kind })?;
        }
        Ok(())
    })();
    // dispose: queued effects first (never polled after their owner is gone), then views, then owners
    crate::exec::clear();
    let World { nodes, views, accessors } = w;
    drop(accessors);
    drop(views);
    for n in nodes.into_iter().rev() {
        drop(n);
    }
    crate::exec::clear();
    result.map(|_| (obs, stats))
}

fn case(t: &mut Tape, max_len: usize) -> CaseResult {
    let ops = gen_history(t, max_len);
    let (obs, st) = run_history(&ops)?;
    let txt = format!("{ops:?}");
    let mut classes = vec![];
    let mut push = |b: bool, s: &str| {
        if b {
            classes.push(s.to_string())
        }
    };
    push(ops.is_empty(), "empty-history");
    push(st.sets > 0, "has-set");
    push(st.scoped_views > 0, "has-scoped-view");
    push(st.subcontexts > 0, "has-subcontext");
    push(st.subcontexts > 1, "has->=2-subcontexts");
    push(st.provider, "subcontext-via-provider-component");
    push(st.accessors > 0, "has-accessor");
    push(st.accessor_before_set, "set-after-accessor-created");
    push(st.set_on_parent_with_child, "set-on-parent-that-has-a-subcontext");
    push(st.set_on_child, "set-on-subcontext");
    push(st.ticks > 0, "effects-run-in-between");
    push(st.set_with_scope_and_sub_other_view, "set-after-scope-and-subcontext-read-through-other-view");
    push(ops.len() >= 20, "len>=20");
    Ok(CaseInfo {
        hash: hash_str(&txt),
        nontrivial: st.set_with_scope_and_sub_other_view,
        classes,
        sample: Some(json!(ops.iter().map(describe).collect::<Vec<_>>())),
        observations: obs,
    })
}

pub fn run(mut ctx: Ctx) -> ! {
    crate::exec::init();
    let max_len = ctx.tier.scale(40, 60) as usize;
    // one word for the length + four per operation
    let tape_len = 1 + 4 * max_len;
    if let Some(path) = ctx.replay.clone() {
        // replay files carry the tier they were found in
        let tier_len = std::fs::read_to_string(&path)
            .ok()
            .and_then(|t| serde_json::from_str::<Value>(&t).ok())
            .map(|v| if v["tier"] == "thorough" { 60 } else { 40 })
            .unwrap_or(max_len);
        ctx.replay_tape("hist", &path, |t| case(t, tier_len));
    } else {
        let cases = ctx.tier.scale(120_000, 2_500_000);
        ctx.run_tapes("hist", cases, tape_len, |t| case(t, max_len));
    }
    ctx.finish(
        "random histories of 0-40 (thorough: 0-60) operations {set_locale, set_locale_untracked (through any live view), \
         scope_i18n! (grp, grp.deep, other; also re-scoping a scoped view), use_i18n_scoped! inside a context's owner, \
         sub-context creation (plain / with cookie name / constant initial_locale / <I18nSubContextProvider>, under any \
         context), accessor creation (t!, tu!, t_string!, t_display! on plain and interpolated keys through any view), \
         run queued effects} interpreted on native ssr contexts of a fixed 3-locale declare_locales! set; after every \
         step all views (get_locale, get_locale_untracked) and all accessors made so far are compared with a model \
         holding one locale per context. non-trivial = the history contains a set on a context that at that moment \
         has a scoped view and at least one other view (so the value is read through a different view) while a \
         sub-context exists; distinct = hash of the operation list",
        &[
            "server side only (feature ssr, no `effects` runtime): RenderEffect-driven re-sync from a wired initial_locale signal is out of scope; initial_locale is only ever a constant",
            "isomorphic effects run only at the history's Tick steps (deterministic executor), never concurrently",
            "the request carries no cookie and no Accept-Language header",
        ],
        300,
    )
}
