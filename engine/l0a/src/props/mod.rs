use vcommon::ctx::Ctx;

pub mod c12;
pub mod c15;
pub mod c16;

pub fn dispatch(prop: &str, ctx: Ctx) -> ! {
    match prop {
        "C12" => c12::run(ctx),
        "C15" => c15::run(ctx),
        "C16" => c16::run(ctx),
        other => {
            eprintln!("harness error: unknown property {other:?}");
            std::process::exit(2)
        }
    }
}
