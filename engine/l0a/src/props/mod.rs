use vcommon::ctx::Ctx;

pub fn dispatch(prop: &str, _ctx: Ctx) -> ! {
    match prop {
        other => {
            eprintln!("harness error: unknown property {other:?}");
            std::process::exit(2)
        }
    }
}
