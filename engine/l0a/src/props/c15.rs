//! C15 — initial locale resolution follows the documented precedence.
//!
//! Contexts are created natively (feature `ssr`) inside a fresh reactive `Owner`; the `Cookie` and
//! `Accept-Language` request headers are injected through the getters of
//! `leptos_use::UseCookieOptions` / `UseLocalesOptions`; the observation is
//! `get_locale_untracked()` right after creation (and `locale::resolve_locale_with_options`).
//!
//! Model (docs/book/src/infos/01_locale_resol.md, doc comments of `resolve_locale`,
//! `init_i18n_subcontext_with_options`):
//!   main context : cookie (enabled, stored under the configured name, value = a configured locale
//!                  name) > best match of Accept-Language > default
//!   sub-context  : cookie (only when a cookie name is given) > `initial_locale` > parent context's
//!                  current locale > Accept-Language > default

use std::borrow::Cow;
use std::cell::RefCell;

use leptos::prelude::*;
use leptos_i18n::context::{
    init_i18n_context_with_options, init_i18n_subcontext_with_options, CookieOptions, I18nContextOptions,
    UseLocalesOptions,
};
use leptos_i18n::locale::resolve_locale_with_options;
use serde_json::{json, Value};
use vcommon::ctx::{hash_str, CaseInfo, CaseResult, Ctx, Failure};
use vcommon::tape::Tape;

use crate::fixture::{loc_name, Locale, LOCALES};

const DEFAULT_COOKIE: &str = "i18n_pref_locale";
const CUSTOM_COOKIE: &str = "my_locale";

#[derive(Clone, Debug)]
pub struct Case {
    /// `Cookie:` request header (None = no such header)
    cookie_header: Option<String>,
    /// `Accept-Language:` request header
    lang_header: Option<String>,
    kind: Kind,
}

#[derive(Clone, Debug)]
enum Kind {
    Main {
        enable_cookie: bool,
        /// None = the library's default name
        cookie_name: Option<String>,
        /// observe through `resolve_locale_with_options` instead of a context
        via_resolve: bool,
    },
    Sub {
        /// `cookie_name` argument of the sub-context (None = no cookie)
        cookie_name: Option<String>,
        parent: Option<Locale>,
        initial: Option<Locale>,
    },
}

impl Case {
    fn to_json(&self) -> Value {
        let kind = match &self.kind {
            Kind::Main { enable_cookie, cookie_name, via_resolve } => json!({
                "context": if *via_resolve { "resolve_locale_with_options" } else { "init_i18n_context_with_options" },
                "enable_cookie": enable_cookie,
                "cookie_name": cookie_name,
            }),
            Kind::Sub { cookie_name, parent, initial } => json!({
                "context": "init_i18n_subcontext_with_options",
                "cookie_name": cookie_name,
                "parent_locale": parent.map(loc_name),
                "initial_locale": initial.map(loc_name),
            }),
        };
        json!({"cookie_header": self.cookie_header, "accept_language": self.lang_header, "config": kind})
    }
}

// ------------------------------------------------------------------------------------------------
// model
// ------------------------------------------------------------------------------------------------

fn locale_named(s: &str) -> Option<Locale> {
    LOCALES.iter().copied().find(|l| loc_name(*l) == s)
}

/// value of cookie `name` in a `Cookie:` header of the form `a=b; c=d` (generated headers never
/// repeat the configured name, never quote, never percent-encode)
fn model_cookie(header: &Option<String>, name: &str) -> Option<Locale> {
    let header = header.as_ref()?;
    for part in header.split("; ") {
        if let Some((n, v)) = part.split_once('=') {
            if n == name {
                return locale_named(v);
            }
        }
    }
    None
}

/// admissible answers of the Accept-Language step: `None` = nothing matches (fall through).
/// Supported locales are bare languages, so "matches" = same language subtag. q-values that are
/// not in descending order make the user's order of preference ambiguous (the header is split by
/// leptos-use without sorting): every listed match is admissible then.
fn model_header(header: &Option<String>) -> Option<Vec<Locale>> {
    model_header_for(header, &LOCALES)
}

fn model_header_for<L: leptos_i18n::Locale>(header: &Option<String>, all: &[L]) -> Option<Vec<L>> {
    let header = header.as_deref().unwrap_or("");
    let mut matches: Vec<L> = vec![];
    let mut last_q = 1000i64;
    let mut descending = true;
    for entry in header.split(',') {
        // optional whitespace around the list elements is part of the header syntax (RFC 9110: `da, en-gb;q=0.8, en;q=0.7`)
        let (tag, q) = match entry.split_once(';') {
            Some((t, q)) => (t.trim(), q.trim().strip_prefix("q=").and_then(|q| q.parse::<f64>().ok()).map_or(1000, |q| (q * 1000.0) as i64)),
            None => (entry.trim(), 1000),
        };
        if q > last_q {
            descending = false;
        }
        last_q = q;
        let Ok(id) = icu_locid::LanguageIdentifier::try_from_bytes(tag.as_bytes()) else {
            continue;
        };
        for l in all.iter().copied() {
            let lid: &icu_locid::LanguageIdentifier = leptos_i18n::Locale::as_langid(l);
            if lid.language == id.language && !matches.contains(&l) {
                matches.push(l);
            }
        }
    }
    if matches.is_empty() {
        None
    } else if descending {
        Some(vec![matches[0]])
    } else {
        Some(matches)
    }
}

struct Expect {
    admissible: Vec<Locale>,
    /// which source decides
    decided_by: &'static str,
    /// the locales proposed by the sources that are present, in precedence order
    sources: Vec<(&'static str, Vec<Locale>)>,
}

fn expect(case: &Case) -> Expect {
    let mut sources: Vec<(&'static str, Vec<Locale>)> = vec![];
    match &case.kind {
        Kind::Main { enable_cookie, cookie_name, .. } => {
            if *enable_cookie {
                let name = cookie_name.as_deref().unwrap_or(DEFAULT_COOKIE);
                if let Some(l) = model_cookie(&case.cookie_header, name) {
                    sources.push(("cookie", vec![l]));
                }
            }
        }
        Kind::Sub { cookie_name, parent, initial } => {
            if let Some(name) = cookie_name {
                if let Some(l) = model_cookie(&case.cookie_header, name) {
                    sources.push(("cookie", vec![l]));
                }
            }
            if let Some(l) = initial {
                sources.push(("initial_locale", vec![*l]));
            }
            if let Some(l) = parent {
                sources.push(("parent", vec![*l]));
            }
        }
    }
    if let Some(m) = model_header(&case.lang_header) {
        sources.push(("accept-language", m));
    }
    let (decided_by, admissible) = match sources.first() {
        Some((s, m)) => (*s, m.clone()),
        None => ("default", vec![Locale::default()]),
    };
    Expect { admissible, decided_by, sources }
}

// ------------------------------------------------------------------------------------------------
// system under test
// ------------------------------------------------------------------------------------------------

fn cookie_options(header: Option<String>) -> CookieOptions<Locale> {
    CookieOptions::<Locale>::default()
        .ssr_cookies_header_getter(move || header.clone())
        .ssr_set_cookie(|_: &_| {})
        // a cookie value that is not a locale name is reported through this callback; the default
        // one prints to stderr
        .on_error(std::sync::Arc::new(|_| {}))
}

fn lang_options(header: Option<String>) -> UseLocalesOptions {
    UseLocalesOptions::default().ssr_lang_header_getter(move || header.clone())
}

fn observe(case: &Case) -> Locale {
    let owner = Owner::new();
    let got = owner.with(|| match &case.kind {
        Kind::Main { enable_cookie, cookie_name, via_resolve } => {
            let mut opts = I18nContextOptions::<Locale>::default()
                .enable_cookie(*enable_cookie)
                .cookie_options(cookie_options(case.cookie_header.clone()))
                .ssr_lang_header_getter(lang_options(case.lang_header.clone()));
            if let Some(n) = cookie_name {
                opts = opts.cookie_name(n.clone());
            }
            if *via_resolve {
                resolve_locale_with_options(opts)
            } else {
                init_i18n_context_with_options(opts).get_locale_untracked()
            }
        }
        Kind::Sub { cookie_name, parent, initial } => {
            if let Some(p) = parent {
                // a parent context that did not start in `p`: no cookie, no header => default, then set
                let popts = I18nContextOptions::<Locale>::default()
                    .enable_cookie(false)
                    .cookie_options(cookie_options(None))
                    .ssr_lang_header_getter(lang_options(None));
                let pctx = init_i18n_context_with_options(popts);
                pctx.set_locale(*p);
                provide_context(pctx);
            }
            let child = Owner::current().expect("owner").child();
            let got = child.with(|| {
                let initial = initial.map(|l| Signal::derive(move || l));
                init_i18n_subcontext_with_options::<Locale>(
                    initial,
                    cookie_name.clone().map(Cow::Owned),
                    Some(cookie_options(case.cookie_header.clone())),
                    Some(lang_options(case.lang_header.clone())),
                )
                .get_locale_untracked()
            });
            // queued effects are dropped unrun before their owner goes away (see exec.rs)
            crate::exec::clear();
            drop(child);
            got
        }
    });
    crate::exec::clear();
    drop(owner);
    got
}

/// the same Accept-Language header resolved for the second locale enum of the process (no cookie)
fn observe_second(header: &Option<String>) -> crate::fixture::second::i18n::Locale {
    use crate::fixture::second::i18n::Locale as L2;
    let owner = Owner::new();
    let h = header.clone();
    let got = owner.with(|| {
        let opts = I18nContextOptions::<L2>::default()
            .enable_cookie(false)
            .cookie_options(CookieOptions::<L2>::default().ssr_cookies_header_getter(|| None).ssr_set_cookie(|_: &_| {}).on_error(std::sync::Arc::new(|_| {})))
            .ssr_lang_header_getter(lang_options(h));
        resolve_locale_with_options(opts)
    });
    crate::exec::clear();
    drop(owner);
    got
}

fn check_second(case: &Case) -> Result<(), Failure> {
    use crate::fixture::second::i18n::Locale as L2;
    let all = <L2 as leptos_i18n::Locale>::get_all();
    let got = observe_second(&case.lang_header);
    let admissible: Vec<L2> = model_header_for(&case.lang_header, all).unwrap_or_else(|| vec![<L2 as Default>::default()]);
    if !admissible.contains(&got) {
        return Err(Failure {
            signature: "second-enum:accept-language-ignored".into(),
            detail: json!({
                "what": "the process has two locale enums; the same Accept-Language header was resolved for both",
                "second_enum_locales": all.iter().map(|l| leptos_i18n::Locale::as_str(*l)).collect::<Vec<_>>(),
                "lang_header": case.lang_header,
                "expected_one_of": admissible.iter().map(|l| leptos_i18n::Locale::as_str(*l)).collect::<Vec<_>>(),
                "actual": leptos_i18n::Locale::as_str(got),
                "case_of_the_first_enum": case.to_json(),
            }),
        });
    }
    Ok(())
}

fn eval(case: &Case) -> CaseResult {
    let e = expect(case);
    // the second enum resolves the same header before or after the first one (both orders occur)
    let second_first = case.lang_header.is_some() && hash_str(&format!("{:?}", case.lang_header)) % 2 == 0;
    if second_first {
        check_second(case)?;
    }
    let got = observe(case);
    if case.lang_header.is_some() && !second_first {
        check_second(case)?;
    }
    let txt = serde_json::to_string(&case.to_json()).unwrap_or_default();
    if !e.admissible.contains(&got) {
        // name the source that was wrongly preferred, if any
        let winner = e.sources.iter().find(|(_, m)| m.contains(&got)).map(|(s, _)| *s);
        // "<lower source>-overrides-<deciding source>", or "<deciding source>-ignored" when the result is
        // proposed by no source at all (default, or a value that should not have been trusted)
        let signature = match winner {
            Some(w) => format!("{w}-overrides-{}", e.decided_by),
            None => format!("{}-ignored", e.decided_by),
        };
        let kind = match &case.kind {
            Kind::Main { .. } => "main",
            Kind::Sub { .. } => "sub",
        };
        return Err(Failure {
            signature: format!("{kind}:{signature}"),
            detail: json!({
                "case": case.to_json(),
                "expected": {"one_of": e.admissible.iter().map(|l| loc_name(*l)).collect::<Vec<_>>(), "decided_by": e.decided_by},
                "actual": loc_name(got),
                "sources_present": e.sources.iter().map(|(s, m)| json!({"source": s, "proposes": m.iter().map(|l| loc_name(*l)).collect::<Vec<_>>()})).collect::<Vec<_>>(),
            }),
        });
    }
    // non-trivial: at least two sources are present and disagree
    let mut disagree = false;
    for a in 0..e.sources.len() {
        for b in a + 1..e.sources.len() {
            if e.sources[a].1 != e.sources[b].1 {
                disagree = true;
            }
        }
    }
    let mut classes = vec![format!("decided-by:{}", e.decided_by)];
    classes.push(
        match &case.kind {
            Kind::Main { via_resolve: false, .. } => "main-context",
            Kind::Main { via_resolve: true, .. } => "resolve_locale_with_options",
            Kind::Sub { .. } => "sub-context",
        }
        .to_string(),
    );
    if disagree {
        classes.push("sources-disagree".to_string());
    }
    if e.admissible.len() > 1 {
        classes.push("ambiguous-q-order".to_string());
    }
    // a cookie header that carries a value under the configured name, which is not a locale name
    let configured = match &case.kind {
        Kind::Main { enable_cookie: true, cookie_name, .. } => Some(cookie_name.clone().unwrap_or(DEFAULT_COOKIE.into())),
        Kind::Sub { cookie_name: Some(n), .. } => Some(n.clone()),
        _ => None,
    };
    if let (Some(n), Some(h)) = (&configured, &case.cookie_header) {
        let present = h.split("; ").any(|p| p.split_once('=').map_or(false, |(k, _)| k == n));
        if present && model_cookie(&case.cookie_header, n).is_none() {
            classes.push("invalid-cookie-value-ignored".to_string());
        }
    }
    if configured.is_none() && case.cookie_header.as_deref().map_or(false, |h| h.contains("_locale=")) {
        classes.push("cookie-present-but-cookies-off".to_string());
    }
    Ok(CaseInfo {
        hash: hash_str(&txt),
        nontrivial: disagree,
        classes,
        sample: Some(case.to_json()),
        observations: 1,
    })
}

// ------------------------------------------------------------------------------------------------
// full factorial
// ------------------------------------------------------------------------------------------------

fn cookie_headers() -> Vec<Option<String>> {
    let mut out: Vec<Option<String>> = vec![None, Some(String::new()), Some("theme=dark; lang=fr".to_string())];
    // valid names, then invalid near-names
    let values = ["en", "fr", "de", "EN", "Fr", "en-US", "fr-FR", "french", "f", "xx", "", "de_DE"];
    for name in [DEFAULT_COOKIE, CUSTOM_COOKIE] {
        for v in values {
            out.push(Some(format!("{name}={v}")));
            out.push(Some(format!("theme=dark; {name}={v}; sid=a1b2c3")));
        }
    }
    // the value sits under a name that merely resembles the configured one
    out.push(Some(format!("{DEFAULT_COOKIE}2=fr; x{DEFAULT_COOKIE}=de")));
    // both names at once, with different values
    out.push(Some(format!("{DEFAULT_COOKIE}=fr; {CUSTOM_COOKIE}=de")));
    out.push(Some(format!("{CUSTOM_COOKIE}=fr; {DEFAULT_COOKIE}=de")));
    out
}

fn lang_headers() -> Vec<Option<String>> {
    [
        None,
        Some(""),
        Some("*"),
        Some("ja,ko;q=0.9"),
        Some("fr"),
        Some("de"),
        Some("fr-FR"),
        Some("fr-fr,ja;q=0.5"),
        Some("de-CH,de;q=0.9,en;q=0.8"),
        Some("en-US,en;q=0.9,fr;q=0.8"),
        Some("de,fr;q=0.8"),
        Some("fr,de;q=0.8"),
        Some("ja,fr;q=0.8,de;q=0.5"),
        Some("ja,de;q=0.8,fr;q=0.5"),
        // ascending q: ambiguous, both admissible
        Some("fr;q=0.5,de"),
        // a blank after the commas (the form RFC 9110 and MDN show)
        Some("ja, fr;q=0.8, de;q=0.5"),
        Some("it-CH, fr;q=0.9, en;q=0.8, de;q=0.7, *;q=0.5"),
        Some(" de"),
        Some("ja , de"),
    ]
    .into_iter()
    .map(|h| h.map(|s| s.to_string()))
    .collect()
}

fn factorial(ctx: &mut Ctx, reported: &RefCell<Vec<String>>) {
    let cookies = cookie_headers();
    let langs = lang_headers();
    let opt_locales: Vec<Option<Locale>> = std::iter::once(None).chain(LOCALES.iter().copied().map(Some)).collect();
    let mut handle = |ctx: &mut Ctx, case: Case| match eval(&case) {
        Ok(info) => ctx.record(info),
        Err(f) => {
            if !reported.borrow().contains(&f.signature) {
                reported.borrow_mut().push(f.signature.clone());
                ctx.fail("factorial", None, &f);
            }
            ctx.add_extra_count(&format!("cases_failing[{}]", f.signature), 1);
        }
    };
    for cookie_header in &cookies {
        for lang_header in &langs {
            for enable_cookie in [true, false] {
                for cookie_name in [None, Some(CUSTOM_COOKIE.to_string())] {
                    for via_resolve in [false, true] {
                        handle(
                            ctx,
                            Case {
                                cookie_header: cookie_header.clone(),
                                lang_header: lang_header.clone(),
                                kind: Kind::Main { enable_cookie, cookie_name: cookie_name.clone(), via_resolve },
                            },
                        );
                    }
                }
            }
            for cookie_name in [None, Some(DEFAULT_COOKIE.to_string()), Some(CUSTOM_COOKIE.to_string())] {
                for parent in &opt_locales {
                    for initial in &opt_locales {
                        handle(
                            ctx,
                            Case {
                                cookie_header: cookie_header.clone(),
                                lang_header: lang_header.clone(),
                                kind: Kind::Sub { cookie_name: cookie_name.clone(), parent: *parent, initial: *initial },
                            },
                        );
                    }
                }
            }
        }
    }
}

// ------------------------------------------------------------------------------------------------
// random headers
// ------------------------------------------------------------------------------------------------

fn gen_case(t: &mut Tape) -> Case {
    let names = [DEFAULT_COOKIE, CUSTOM_COOKIE, "theme", "sid", "i18n_pref_locale2", "I18N_PREF_LOCALE", "my_locale_", "lang"];
    let values = ["en", "fr", "de", "dark", "EN", "fr-FR", "en-US", "deu", "", "a1b2", "d", "DE"];
    let cookie_header = if t.chance(1, 8) {
        None
    } else {
        let n = t.range(0, 4);
        let mut used: Vec<&str> = vec![];
        let mut parts = vec![];
        for _ in 0..n {
            let name = names[t.pick(names.len())];
            if used.contains(&name) {
                continue;
            }
            used.push(name);
            parts.push(format!("{name}={}", values[t.pick(values.len())]));
        }
        Some(parts.join("; "))
    };
    let tags = ["fr", "de", "en", "ja", "fr-FR", "de-CH", "en-GB", "pt-BR", "fr-fr", "zh-Hant-TW", "*", "es-419", "DE"];
    let lang_header = if t.chance(1, 8) {
        None
    } else {
        let n = t.range(0, 4);
        let mut q = 10u32;
        let mut parts = vec![];
        for i in 0..n {
            let tag = tags[t.pick(tags.len())];
            if i > 0 {
                // descending, never below 0.1
                q = q.saturating_sub(t.range(1, 3) as u32).max(1);
            }
            if i == 0 || q == 10 {
                parts.push(tag.to_string());
            } else {
                parts.push(format!("{tag};q=0.{q}"));
            }
        }
        Some(parts.join(if t.chance(1, 3) { ", " } else { "," }))
    };
    let opt_loc = |t: &mut Tape| -> Option<Locale> {
        match t.pick(4) {
            0 => None,
            k => Some(LOCALES[k - 1]),
        }
    };
    let kind = if t.coin() {
        Kind::Sub {
            cookie_name: match t.pick(3) {
                0 => None,
                1 => Some(DEFAULT_COOKIE.to_string()),
                _ => Some(CUSTOM_COOKIE.to_string()),
            },
            parent: opt_loc(t),
            initial: opt_loc(t),
        }
    } else {
        Kind::Main {
            enable_cookie: !t.chance(1, 4),
            cookie_name: if t.coin() { Some(CUSTOM_COOKIE.to_string()) } else { None },
            via_resolve: t.coin(),
        }
    };
    Case { cookie_header, lang_header, kind }
}

fn random_case(t: &mut Tape, reported: &RefCell<Vec<String>>) -> CaseResult {
    let case = gen_case(t);
    match eval(&case) {
        Ok(mut r) => {
            r.classes.push("random-headers".to_string());
            Ok(r)
        }
        // already reported (with a replayable case) by the factorial part: keep exploring
        Err(f) if reported.borrow().contains(&f.signature) => Ok(CaseInfo {
            hash: hash_str(&serde_json::to_string(&case.to_json()).unwrap_or_default()),
            nontrivial: false,
            classes: vec![format!("masked[{}]", f.signature)],
            sample: None,
            observations: 0,
        }),
        Err(f) => Err(f),
    }
}

pub fn run(mut ctx: Ctx) -> ! {
    crate::exec::init();
    let reported: RefCell<Vec<String>> = RefCell::new(vec![]);
    if let Some(path) = ctx.replay.clone() {
        let engine = Ctx::replay_engine(&path).unwrap_or_default();
        if engine == "rand" {
            ctx.replay_tape("rand", &path, |t| random_case(t, &reported));
        } else {
            match std::fs::read_to_string(&path)
                .ok()
                .and_then(|t| serde_json::from_str::<Value>(&t).ok())
                .and_then(|v| case_from_json(&v["detail"]["case"]))
            {
                Some(case) => match eval(&case) {
                    Ok(info) => ctx.record(info),
                    Err(f) => {
                        ctx.fail("factorial", None, &f);
                    }
                },
                None => ctx.harness_error(format!("replay file {path:?} holds no case")),
            }
        }
    } else {
        factorial(&mut ctx, &reported);
        ctx.set_exhaustive(true);
        ctx.set_extra(
            "exhaustive_domain",
            json!("53 Cookie headers x 15 Accept-Language headers x ( {cookies on/off} x {default, custom cookie name} x {context, resolve_locale_with_options}  +  sub-context: {no cookie name, default, custom} x {no parent, parent in en/fr/de} x {no initial_locale, en/fr/de} )"),
        );
        let cases = ctx.tier.scale(300_000, 5_000_000);
        ctx.run_tapes("rand", cases, 48, |t| random_case(t, &reported));
    }
    ctx.finish(
        "(1) full factorial: Cookie header {absent, empty, other cookies only, <name>=<value> alone or between other \
         cookies for name in {i18n_pref_locale, my_locale} and value in {en fr de | EN Fr en-US fr-FR french f xx '' \
         de_DE}, look-alike names, both names with different values} x Accept-Language {absent, '', '*', unsupported \
         only, one supported, region forms, lower-case, browser-style lists, two supported in both orders, \
         unsupported first, ascending q (both admissible)} x main context (enable_cookie x cookie name x \
         init_i18n_context_with_options / resolve_locale_with_options) and sub-context (cookie_name None/default/custom \
         x parent none/en/fr/de (set after creation) x initial_locale none/en/fr/de); (2) random Cookie / \
         Accept-Language headers assembled from pools (look-alike cookie names, several cookies, descending q lists) \
         on random configurations. Every case creates the context natively in a fresh Owner and reads \
         get_locale_untracked(). non-trivial = at least two sources (cookie, initial_locale, parent, Accept-Language) \
         are present and propose different locales; distinct = hash of (headers, configuration)",
        &[
            "server side only (feature ssr): html lang attribute and navigator.languages need a DOM",
            "Accept-Language in the comma-without-space form; q-values are not interpreted by leptos-use, so lists whose q-values are not descending accept every listed match",
            "supported locales en/fr/de have equal specificity, so the C12 ordering defect (D11) cannot leak into this check",
            "a Cookie header never repeats the configured cookie name",
            "with enable_cookie=false (or no cookie_name for a sub-context) the cookie is not consulted",
        ],
        500,
    )
}

fn case_from_json(v: &Value) -> Option<Case> {
    let s = |v: &Value| v.as_str().map(|s| s.to_string());
    let cfg = &v["config"];
    let kind = match cfg["context"].as_str()? {
        "init_i18n_subcontext_with_options" => Kind::Sub {
            cookie_name: s(&cfg["cookie_name"]),
            parent: cfg["parent_locale"].as_str().and_then(locale_named),
            initial: cfg["initial_locale"].as_str().and_then(locale_named),
        },
        c => Kind::Main {
            enable_cookie: cfg["enable_cookie"].as_bool()?,
            cookie_name: s(&cfg["cookie_name"]),
            via_resolve: c == "resolve_locale_with_options",
        },
    };
    Some(Case { cookie_header: s(&v["cookie_header"]), lang_header: s(&v["accept_language"]), kind })
}
