//! C17 (part A) — server-embedded translations survive embedding into the page.
//!
//! Built with `dynamic_load` + `ssr`. The `Locale` enums come from the real macros
//! (`load_locales!` with namespaces => `id` is a namespace name; `declare_locales!` without
//! namespaces => `id` is `null`). The *string tables under test* are served by harness
//! `TranslationUnit` types whose `StringArray::as_slice` returns the current case's table, and they
//! are registered exactly like the generated `get_translations()` does
//! (`<Unit as TranslationUnit>::register()` -> `RegisterCtx::register`), inside the children of
//! `provide_i18n_context_component` (= `<I18nContextProvider>`), rendered natively with `to_html()`.
//!
//! Oracle (three independent engines, one per clause, so that each clause reports on its own):
//!   1. `script-breakout`     : the script element's text contains no `</script` (ASCII
//!                              case-insensitive) and no `<!--`;
//!   2. `script-not-parseable`: the text parses as `window.__LEPTOS_I18N_TRANSLATIONS = [ ... ];`
//!                              with a small JS-literal parser (JSON + JS string escapes);
//!   3. `decoded-mismatch`    : decoded, it is exactly the set of used units keyed by (locale,id),
//!                              each with its strings in table order, nothing for unused units.

use std::collections::BTreeMap;
use std::sync::Mutex;

use leptos::children::{ToChildren, TypedChildren};
use leptos::prelude::*;
use leptos_i18n::__private::fetch_translations::{StringArray, TranslationUnit};
use serde_json::{json, Value};
use vcommon::ctx::{hash_str, CaseInfo, CaseResult, Ctx, Failure};
use vcommon::tape::Tape;

// namespaced configuration: Cargo.toml metadata + locales/<locale>/<ns>.json
leptos_i18n::load_locales!();

// flat configuration (one translation unit per locale, `id` = null)
pub mod flat {
    leptos_i18n::declare_locales! {
        path: leptos_i18n,
        default: "en",
        locales: ["en", "fr", "zh"],
        en: { k: "en" },
        fr: { k: "fr" },
        zh: { k: "zh" },
    }
}

// ------------------------------------------------------------------------------------------------
// harness translation units

const N_SLOTS: usize = 15;

static TABLES: Mutex<[&'static [&'static str]; N_SLOTS]> = Mutex::new([&[]; N_SLOTS]);

#[derive(Debug)]
pub struct DynStrings(usize);

impl StringArray for DynStrings {
    fn cast(_: Vec<Box<str>>) -> Box<Self> {
        unreachable!("server side only")
    }
    fn as_slice(&self) -> &[&'static str] {
        TABLES.lock().unwrap()[self.0]
    }
}

macro_rules! units {
    ($($name:ident, $slot:expr, $loc_ty:ty, $loc:expr, $id:expr;)*) => {
        $(
            #[allow(non_camel_case_types)]
            struct $name;
            impl TranslationUnit for $name {
                type Locale = $loc_ty;
                const ID: <$loc_ty as leptos_i18n::Locale>::TranslationUnitId = $id;
                const LOCALE: $loc_ty = $loc;
                type Strings = DynStrings;
                const STRINGS: &'static DynStrings = &DynStrings($slot);
            }
        )*
        fn register_slot(slot: usize) {
            match slot {
                $( $slot => <$name as TranslationUnit>::register(), )*
                _ => unreachable!(),
            }
        }
    };
}

use i18n::I18nTranslationUnitsId as Ns;
use i18n::Locale as NsLocale;
use flat::i18n::Locale as FlatLocale;

units! {
    U_en_1, 0, NsLocale, NsLocale::en, Ns::ns1;
    U_en_2, 1, NsLocale, NsLocale::en, Ns::ns2;
    U_en_3, 2, NsLocale, NsLocale::en, Ns::ns3;
    U_fr_1, 3, NsLocale, NsLocale::fr, Ns::ns1;
    U_fr_2, 4, NsLocale, NsLocale::fr, Ns::ns2;
    U_fr_3, 5, NsLocale, NsLocale::fr, Ns::ns3;
    U_de_1, 6, NsLocale, NsLocale::de_CH, Ns::ns1;
    U_de_2, 7, NsLocale, NsLocale::de_CH, Ns::ns2;
    U_de_3, 8, NsLocale, NsLocale::de_CH, Ns::ns3;
    U_ja_1, 9, NsLocale, NsLocale::ja, Ns::ns1;
    U_ja_2, 10, NsLocale, NsLocale::ja, Ns::ns2;
    U_ja_3, 11, NsLocale, NsLocale::ja, Ns::ns3;
    F_en, 12, FlatLocale, FlatLocale::en, ();
    F_fr, 13, FlatLocale, FlatLocale::fr, ();
    F_zh, 14, FlatLocale, FlatLocale::zh, ();
}

const NS_LOCALES: [&str; 4] = ["en", "fr", "de-CH", "ja"];
const NS_NAMES: [&str; 3] = ["ns1", "ns2", "ns3"];
const FLAT_LOCALES: [&str; 3] = ["en", "fr", "zh"];

fn slot_key(slot: usize) -> (String, Option<String>) {
    if slot < 12 {
        (NS_LOCALES[slot / 3].to_string(), Some(NS_NAMES[slot % 3].to_string()))
    } else {
        (FLAT_LOCALES[slot - 12].to_string(), None)
    }
}

// ------------------------------------------------------------------------------------------------
// generator

/// pieces of translation text; index 0 is the simplest
const PIECES: &[&str] = &[
    "a",
    "word",
    " ",
    "\"",
    "\\",
    "\n",
    "\r",
    "\u{2028}",
    "\u{2029}",
    "</script>",
    "</SCRIPT",
    "<!--",
    "]]>",
    "\0",
    "😀",
    "𝒳",
    "'",
    "\\n",
    "\\u0041",
    "\\\"",
    "é",
    "日本語",
    "-->",
    "<script>",
    "&amp;",
    "&quot;",
    "\t",
    "{",
    "}",
    "[",
    "]",
    ",",
    ":",
    ";",
    "</ScRiPt >",
    "\\\\",
    "\u{7f}",
    "\u{85}",
    "\u{feff}",
    "`${x}`",
    "\\x41",
    "//",
    "/*",
    "\u{1}",
    "\u{1f}",
    "null",
    "\"]}];alert(1);[{\"",
];

fn gen_string(t: &mut Tape) -> String {
    let n = t.weighted(&[6, 6, 4, 3, 2, 1]); // 0..=5 pieces (0 = empty string)
    let mut s = String::new();
    for _ in 0..n {
        // bias towards the first (plain) pieces but reach all of them
        let idx = if t.chance(2, 5) { t.pick(3) } else { t.pick(PIECES.len()) };
        s.push_str(PIECES[idx]);
    }
    s
}

#[derive(Clone, Debug)]
struct Request {
    /// slots in the order the render touches them (repeats allowed)
    history: Vec<usize>,
}

#[derive(Clone, Debug)]
struct Case {
    flat: bool,
    /// slots that exist in this case (have a table)
    existing: Vec<usize>,
    tables: BTreeMap<usize, Vec<String>>,
    requests: Vec<Request>,
}

fn gen_case(t: &mut Tape) -> Case {
    let flat = t.chance(1, 4);
    let existing: Vec<usize> = if flat {
        let n_loc = t.range(1, 3);
        (0..n_loc).map(|l| 12 + l).collect()
    } else {
        let n_ns = t.range(1, 3);
        let n_loc = t.range(1, 4);
        let mut v = vec![];
        for l in 0..n_loc {
            for n in 0..n_ns {
                v.push(l * 3 + n);
            }
        }
        v
    };
    let mut tables = BTreeMap::new();
    for &s in &existing {
        let n = t.weighted(&[6, 5, 3, 2, 1]) + if t.chance(1, 8) { 0 } else { 1 }; // 0..=5 strings
        let n = n.min(5);
        let strings: Vec<String> = (0..n).map(|_| gen_string(t)).collect();
        tables.insert(s, strings);
    }
    let n_req = 1 + t.weighted(&[5, 2]);
    let mut requests = vec![];
    for _ in 0..n_req {
        let len = t.weighted(&[1, 5, 5, 4, 3, 2, 1, 1, 1]); // 0..=8
        let history = (0..len).map(|_| existing[t.pick(existing.len())]).collect();
        requests.push(Request { history });
    }
    Case { flat, existing, tables, requests }
}

fn must_escape(s: &str) -> bool {
    let lower = s.to_ascii_lowercase();
    s.chars().any(|c| c == '"' || c == '\\' || (c as u32) < 0x20)
        || lower.contains("</script")
        || s.contains("<!--")
}

fn case_json(c: &Case) -> Value {
    json!({
        "config": if c.flat { "flat (id=null)" } else { "namespaced" },
        "existing_units": c.existing.iter().map(|s| { let (l, n) = slot_key(*s); json!([l, n]) }).collect::<Vec<_>>(),
        "tables": c.tables.iter().map(|(s, v)| { let (l, n) = slot_key(*s); json!({"locale": l, "id": n, "strings": v}) }).collect::<Vec<_>>(),
        "requests": c.requests.iter().map(|r| r.history.iter().map(|s| { let (l, n) = slot_key(*s); json!([l, n]) }).collect::<Vec<_>>()).collect::<Vec<_>>(),
    })
}

// ------------------------------------------------------------------------------------------------
// observation: render one request natively

/// interned `&'static str`s (lookups only, never iterated): keeps the leak per case small
static INTERN: Mutex<Option<std::collections::HashMap<String, &'static str>>> = Mutex::new(None);

fn intern(s: &str) -> &'static str {
    let mut g = INTERN.lock().unwrap();
    let map = g.get_or_insert_with(Default::default);
    if let Some(v) = map.get(s) {
        return v;
    }
    let leaked: &'static str = Box::leak(s.to_string().into_boxed_str());
    map.insert(s.to_string(), leaked);
    leaked
}

fn install_tables(c: &Case) {
    let mut guard = TABLES.lock().unwrap();
    for slot in 0..N_SLOTS {
        guard[slot] = &[];
    }
    for (slot, strings) in &c.tables {
        // the register context stores `&'static [&'static str]`: leak this case's table
        let leaked: Vec<&'static str> = strings.iter().map(|s| intern(s)).collect();
        guard[*slot] = Box::leak(leaked.into_boxed_slice());
    }
}

/// no request exists natively: answer the Accept-Language lookup with "absent" (keeps leptos-use quiet)
fn quiet_header_getter() -> leptos_use::UseLocalesOptions {
    leptos_use::UseLocalesOptions::default().ssr_lang_header_getter(|| None)
}

fn render_request(flat: bool, history: Vec<usize>) -> String {
    let owner = Owner::new();
    let html = owner.with(|| {
        let children = move || {
            for slot in &history {
                register_slot(*slot);
            }
        };
        if flat {
            leptos_i18n::context::provide_i18n_context_component::<FlatLocale, _>(
                Some(false),
                Some(false),
                Some(false),
                None,
                None,
                Some(quiet_header_getter()),
                TypedChildren::to_children(children),
            )
            .to_html()
        } else {
            leptos_i18n::context::provide_i18n_context_component::<NsLocale, _>(
                Some(false),
                Some(false),
                Some(false),
                None,
                None,
                Some(quiet_header_getter()),
                TypedChildren::to_children(children),
            )
            .to_html()
        }
    });
    drop(owner);
    html
}

/// the text of the (only) script element the provider emits: from the first `<script>` to the last
/// `</script>` of the rendered HTML (children render nothing, `<Html/>` renders nothing in place)
fn script_text(html: &str) -> Option<&str> {
    let start = html.find("<script>")? + "<script>".len();
    let end = html.rfind("</script>")?;
    if end < start {
        return None;
    }
    Some(&html[start..end])
}

// ------------------------------------------------------------------------------------------------
// a small JS literal parser (JSON + JS string escapes)

#[derive(Clone, Debug, PartialEq)]
enum Js {
    Null,
    Bool(bool),
    Num(String),
    Str(String),
    Arr(Vec<Js>),
    Obj(Vec<(String, Js)>),
}

struct P<'a> {
    s: &'a [char],
    i: usize,
}

impl<'a> P<'a> {
    fn ws(&mut self) {
        while self.i < self.s.len() {
            let c = self.s[self.i];
            if c == ' ' || c == '\t' || c == '\n' || c == '\r' || c == '\u{feff}' || c == '\u{a0}' || c == '\u{2028}' || c == '\u{2029}' {
                self.i += 1;
            } else {
                break;
            }
        }
    }
    fn peek(&self) -> Option<char> {
        self.s.get(self.i).copied()
    }
    fn eat(&mut self, c: char) -> Result<(), String> {
        if self.peek() == Some(c) {
            self.i += 1;
            Ok(())
        } else {
            Err(format!("expected {c:?} at {} found {:?}", self.i, self.peek()))
        }
    }
    fn lit(&mut self, word: &str) -> bool {
        let w: Vec<char> = word.chars().collect();
        if self.s.len() >= self.i + w.len() && self.s[self.i..self.i + w.len()] == w[..] {
            self.i += w.len();
            true
        } else {
            false
        }
    }
    fn hex(&mut self, n: usize) -> Result<u32, String> {
        let mut v = 0u32;
        for _ in 0..n {
            let c = self.peek().ok_or("eof in escape")?;
            let d = c.to_digit(16).ok_or(format!("bad hex digit {c:?}"))?;
            v = v * 16 + d;
            self.i += 1;
        }
        Ok(v)
    }
    fn string(&mut self) -> Result<String, String> {
        let q = self.peek().ok_or("eof")?;
        if q != '"' && q != '\'' {
            return Err(format!("expected a string at {}", self.i));
        }
        self.i += 1;
        let mut units: Vec<u16> = vec![]; // UTF-16 code units, as JS strings are
        loop {
            let c = self.peek().ok_or("unterminated string")?;
            self.i += 1;
            if c == q {
                break;
            }
            match c {
                '\n' | '\r' => return Err("raw line terminator inside a string literal".into()),
                '\\' => {
                    let e = self.peek().ok_or("eof after backslash")?;
                    self.i += 1;
                    let push_char = |units: &mut Vec<u16>, ch: char| {
                        let mut b = [0u16; 2];
                        units.extend_from_slice(ch.encode_utf16(&mut b));
                    };
                    match e {
                        'n' => units.push(0x0a),
                        'r' => units.push(0x0d),
                        't' => units.push(0x09),
                        'b' => units.push(0x08),
                        'f' => units.push(0x0c),
                        'v' => units.push(0x0b),
                        '0' if !self.peek().map(|c| c.is_ascii_digit()).unwrap_or(false) => units.push(0),
                        'x' => {
                            let v = self.hex(2)?;
                            units.push(v as u16);
                        }
                        'u' => {
                            if self.peek() == Some('{') {
                                self.i += 1;
                                let mut v = 0u32;
                                let mut n = 0;
                                while let Some(c) = self.peek() {
                                    if c == '}' {
                                        break;
                                    }
                                    let d = c.to_digit(16).ok_or("bad hex in \\u{}")?;
                                    v = v.checked_mul(16).and_then(|v| v.checked_add(d)).ok_or("overflow in \\u{}")?;
                                    n += 1;
                                    self.i += 1;
                                }
                                self.eat('}')?;
                                if n == 0 || v > 0x10ffff {
                                    return Err("bad \\u{} escape".into());
                                }
                                if v >= 0x10000 {
                                    let v = v - 0x10000;
                                    units.push(0xd800 + (v >> 10) as u16);
                                    units.push(0xdc00 + (v & 0x3ff) as u16);
                                } else {
                                    units.push(v as u16);
                                }
                            } else {
                                let v = self.hex(4)?;
                                units.push(v as u16);
                            }
                        }
                        '\n' | '\u{2028}' | '\u{2029}' => {} // line continuation
                        '\r' => {
                            if self.peek() == Some('\n') {
                                self.i += 1;
                            }
                        }
                        d if d.is_ascii_digit() => return Err("octal / \\8 \\9 escapes are not accepted".into()),
                        other => push_char(&mut units, other), // identity escape (\" \' \\ \/ ...)
                    }
                }
                other => {
                    let mut b = [0u16; 2];
                    units.extend_from_slice(other.encode_utf16(&mut b));
                }
            }
        }
        String::from_utf16(&units).map_err(|_| "lone surrogate in decoded string".to_string())
    }
    fn value(&mut self, depth: usize) -> Result<Js, String> {
        if depth > 16 {
            return Err("too deep".into());
        }
        self.ws();
        match self.peek() {
            Some('[') => {
                self.i += 1;
                let mut v = vec![];
                loop {
                    self.ws();
                    if self.peek() == Some(']') {
                        self.i += 1;
                        break;
                    }
                    v.push(self.value(depth + 1)?);
                    self.ws();
                    match self.peek() {
                        Some(',') => self.i += 1,
                        Some(']') => {
                            self.i += 1;
                            break;
                        }
                        other => return Err(format!("expected , or ] at {} found {other:?}", self.i)),
                    }
                }
                Ok(Js::Arr(v))
            }
            Some('{') => {
                self.i += 1;
                let mut v = vec![];
                loop {
                    self.ws();
                    if self.peek() == Some('}') {
                        self.i += 1;
                        break;
                    }
                    let k = match self.peek() {
                        Some('"') | Some('\'') => self.string()?,
                        Some(c) if c.is_ascii_alphabetic() || c == '_' || c == '$' => {
                            let st = self.i;
                            while self.peek().map(|c| c.is_ascii_alphanumeric() || c == '_' || c == '$').unwrap_or(false) {
                                self.i += 1;
                            }
                            self.s[st..self.i].iter().collect()
                        }
                        other => return Err(format!("expected a property name at {} found {other:?}", self.i)),
                    };
                    self.ws();
                    self.eat(':')?;
                    let val = self.value(depth + 1)?;
                    v.push((k, val));
                    self.ws();
                    match self.peek() {
                        Some(',') => self.i += 1,
                        Some('}') => {
                            self.i += 1;
                            break;
                        }
                        other => return Err(format!("expected , or }} at {} found {other:?}", self.i)),
                    }
                }
                Ok(Js::Obj(v))
            }
            Some('"') | Some('\'') => Ok(Js::Str(self.string()?)),
            Some(c) if c == '-' || c.is_ascii_digit() => {
                let st = self.i;
                while self.peek().map(|c| c.is_ascii_digit() || "+-.eE".contains(c)).unwrap_or(false) {
                    self.i += 1;
                }
                Ok(Js::Num(self.s[st..self.i].iter().collect()))
            }
            _ => {
                if self.lit("null") {
                    Ok(Js::Null)
                } else if self.lit("true") {
                    Ok(Js::Bool(true))
                } else if self.lit("false") {
                    Ok(Js::Bool(false))
                } else {
                    Err(format!("unexpected token at {}: {:?}", self.i, self.peek()))
                }
            }
        }
    }
}

/// parse `window.__LEPTOS_I18N_TRANSLATIONS = <array literal> ;`
fn parse_script(text: &str) -> Result<Js, String> {
    // what the HTML tokenizer hands to the script engine: U+0000 in script data becomes U+FFFD
    let chars: Vec<char> = text.chars().map(|c| if c == '\0' { '\u{fffd}' } else { c }).collect();
    let mut p = P { s: &chars, i: 0 };
    p.ws();
    if !p.lit("window.__LEPTOS_I18N_TRANSLATIONS") {
        return Err("does not start with window.__LEPTOS_I18N_TRANSLATIONS".into());
    }
    p.ws();
    p.eat('=')?;
    let v = p.value(0)?;
    p.ws();
    if p.peek() == Some(';') {
        p.i += 1;
    }
    p.ws();
    if p.i != chars.len() {
        return Err(format!("trailing text after the assignment at char {}", p.i));
    }
    match v {
        Js::Arr(_) => Ok(v),
        _ => Err("assigned value is not an array".into()),
    }
}

type Decoded = BTreeMap<(String, Option<String>), Vec<String>>;

fn decode(v: &Js) -> Result<Decoded, String> {
    let Js::Arr(items) = v else { return Err("not an array".into()) };
    let mut out = Decoded::new();
    for it in items {
        let Js::Obj(fields) = it else { return Err("array item is not an object".into()) };
        let mut locale = None;
        let mut id: Option<Option<String>> = None;
        let mut values = None;
        for (k, v) in fields {
            match (k.as_str(), v) {
                ("locale", Js::Str(s)) => locale = Some(s.clone()),
                ("id", Js::Str(s)) => id = Some(Some(s.clone())),
                ("id", Js::Null) => id = Some(None),
                ("values", Js::Arr(a)) => {
                    let mut vs = vec![];
                    for x in a {
                        let Js::Str(s) = x else { return Err("non-string in values".into()) };
                        vs.push(s.clone());
                    }
                    values = Some(vs);
                }
                (other, _) => return Err(format!("unexpected field {other:?}")),
            }
        }
        let (Some(locale), Some(id), Some(values)) = (locale, id, values) else {
            return Err("object misses locale / id / values".into());
        };
        if out.insert((locale.clone(), id.clone()), values).is_some() {
            return Err(format!("unit ({locale},{id:?}) listed twice"));
        }
    }
    Ok(out)
}

// ------------------------------------------------------------------------------------------------
// the three clause checks

#[derive(Clone, Copy, PartialEq)]
enum Clause {
    Breakout,
    Parse,
    Decode,
}

fn check_case(t: &mut Tape, clause: Clause) -> CaseResult {
    let c = gen_case(t);
    install_tables(&c);
    let cj = case_json(&c);
    let mut observations = 0u64;
    let mut classes: Vec<String> = vec![];
    let mut nontrivial = false;
    let mut skipped_unparseable = 0;
    for (ri, r) in c.requests.iter().enumerate() {
        let html = render_request(c.flat, r.history.clone());
        let Some(text) = script_text(&html) else {
            return Err(Failure {
                signature: "no-script-element".into(),
                detail: json!({"case": cj, "request": ri, "html": html}),
            });
        };
        // expected
        let mut expected = Decoded::new();
        for slot in &r.history {
            expected.insert(slot_key(*slot), c.tables[slot].clone());
        }
        let used_any_escape = expected.values().flatten().any(|s| must_escape(s));
        let strict_subset = !expected.is_empty() && expected.len() < c.existing.len();
        if strict_subset && used_any_escape {
            nontrivial = true;
        }
        let expected_json: Vec<Value> = expected
            .iter()
            .map(|((l, i), v)| json!({"locale": l, "id": i, "values": v}))
            .collect();
        match clause {
            Clause::Breakout => {
                observations += 1;
                let lower = text.to_ascii_lowercase();
                if lower.contains("</script") || text.contains("<!--") {
                    return Err(Failure {
                        signature: "script-breakout".into(),
                        detail: json!({
                            "case": cj, "request": ri,
                            "why": "the text of the emitted <script> element contains `</script` or `<!--`: the HTML parser ends / escapes the script there",
                            "script_text": text, "html": html,
                        }),
                    });
                }
            }
            Clause::Parse => {
                observations += 1;
                if let Err(e) = parse_script(text) {
                    return Err(Failure {
                        signature: "script-not-parseable".into(),
                        detail: json!({
                            "case": cj, "request": ri, "parse_error": e, "script_text": text,
                            "expected_decoded": expected_json,
                        }),
                    });
                }
            }
            Clause::Decode => {
                // only defined for scripts that parse (clause 2 reports the others)
                let Ok(v) = parse_script(text) else {
                    skipped_unparseable += 1;
                    continue;
                };
                observations += 1;
                let actual = decode(&v);
                let ok = matches!(&actual, Ok(a) if *a == expected);
                if !ok {
                    let actual_json = match &actual {
                        Ok(a) => json!(a.iter().map(|((l, i), v)| json!({"locale": l, "id": i, "values": v})).collect::<Vec<_>>()),
                        Err(e) => json!({"shape_error": e}),
                    };
                    return Err(Failure {
                        signature: "decoded-mismatch".into(),
                        detail: json!({
                            "case": cj, "request": ri, "script_text": text,
                            "expected_decoded": expected_json, "actual_decoded": actual_json,
                        }),
                    });
                }
            }
        }
        if expected.is_empty() {
            classes.push("request-uses-no-unit".into());
        } else if strict_subset {
            classes.push("request-uses-strict-subset".into());
        } else {
            classes.push("request-uses-all-units".into());
        }
        if used_any_escape {
            classes.push("used-string-needs-escaping".into());
        }
        if r.history.len() > expected.len() {
            classes.push("unit-touched-twice".into());
        }
        if expected.values().any(|v| v.is_empty()) {
            classes.push("used-unit-with-empty-table".into());
        }
    }
    if skipped_unparseable > 0 {
        classes.push("decode-skipped-not-parseable(reported-by-parse-engine)".into());
    }
    classes.push(if c.flat { "config-flat-id-null".into() } else { "config-namespaced".into() });
    if c.requests.len() > 1 {
        classes.push("two-requests".into());
    }
    classes.sort();
    classes.dedup();
    let txt = serde_json::to_string(&cj).unwrap_or_default();
    Ok(CaseInfo {
        hash: hash_str(&txt),
        nontrivial,
        classes,
        sample: Some(cj),
        observations,
    })
}

struct DropExecutor;

impl any_spawner::CustomExecutor for DropExecutor {
    fn spawn(&self, fut: any_spawner::PinnedFuture<()>) {
        drop(fut)
    }
    fn spawn_local(&self, fut: any_spawner::PinnedLocalFuture<()>) {
        drop(fut)
    }
    fn poll_local(&self) {}
}

const ENGINES: [(&str, Clause); 3] = [
    ("l0dyn-breakout", Clause::Breakout),
    ("l0dyn-parse", Clause::Parse),
    ("l0dyn-decode", Clause::Decode),
];

pub fn run(mut ctx: Ctx) -> ! {
    // effects are never needed for a synchronous `to_html()`: spawned tasks are dropped, so no
    // background thread touches disposed owners and the run stays deterministic
    let _ = any_spawner::Executor::init_custom_executor(DropExecutor);
    // sanity of the harness itself (exit 2, never a violation)
    self_test(&mut ctx);
    if let Some(path) = ctx.replay.clone() {
        let engine = Ctx::replay_engine(&path).unwrap_or_default();
        match ENGINES.iter().find(|(n, _)| *n == engine) {
            Some((name, clause)) => {
                ctx.replay_tape(name, &path, |t| check_case(t, *clause));
            }
            None => ctx.harness_error(format!("replay file names unknown engine {engine:?}")),
        }
    } else {
        let cases = ctx.tier.scale(30_000, 500_000);
        for (name, clause) in ENGINES {
            ctx.run_tapes(name, cases, 400, |t| check_case(t, clause));
        }
    }
    ctx.finish(
        "generated cases: configuration (namespaced load_locales! enum: 1-3 namespaces x 1-4 locales, or flat declare_locales! \
         enum: 1-3 locales, id=null), a string table of 0-5 arbitrary Unicode strings per existing translation unit (pieces drawn \
         from an alphabet rich in \" \\ LF CR U+2028/9 </script> </SCRIPT <!-- ]]> NUL astral characters and literal escape \
         look-alikes), 1-2 requests each with a use history of 0-8 unit touches (repeats allowed). Each request is rendered \
         natively through provide_i18n_context_component (dynamic_load+ssr) with harness TranslationUnit types registering through \
         RegisterCtx::register; the emitted <script> text is checked by three engines (no `</script`/`<!--`; parses as \
         `window.__LEPTOS_I18N_TRANSLATIONS = [..];` with a JS-literal parser; decoded == exactly the used units with their strings \
         in order). non-trivial = a request whose used set is a non-empty strict subset of the existing units and at least one \
         string of a used unit contains a must-escape character (\" \\ control <0x20, `</script`, `<!--`); distinct = hash of the \
         serialised case",
        &[
            "only the server half (SSR emission) is observed; the hydrate-side re-emission (init_translations) is wasm-only",
            "the real generated get_translations() path is covered by the generated-crate tier (C17 part B); here units register through the same public TranslationUnit::register()",
            "U+2028/U+2029 raw inside a JS string literal are accepted (ES2019); a raw NUL is modelled as the HTML tokenizer delivers it (U+FFFD)",
        ],
        20,
    )
}

/// the JS-literal parser and the script extraction are part of the oracle: check them on
/// hand-written inputs before trusting them
fn self_test(ctx: &mut Ctx) {
    let good = [
        ("window.__LEPTOS_I18N_TRANSLATIONS = [];".to_string(), 0usize),
        ("window.__LEPTOS_I18N_TRANSLATIONS = [{\"locale\":\"en\",\"id\":null,\"values\":[]}];".to_string(), 1),
        (
            "window.__LEPTOS_I18N_TRANSLATIONS = [{\"locale\":\"en\",\"id\":\"ns1\",\"values\":[\"a\\\"b\\\\c\\n<\\/script>\u{2028}\u{1F600}\\x41\\u{1F600}\\uD83D\\uDE00\"]}];"
                .to_string(),
            1,
        ),
    ];
    for (src, n) in &good {
        match parse_script(src).and_then(|v| decode(&v)) {
            Ok(d) if d.len() == *n => {}
            other => ctx.harness_error(format!("self-test: {src:?} -> {other:?}")),
        }
    }
    let d = parse_script(&good[2].0).and_then(|v| decode(&v)).unwrap_or_default();
    let want = "a\"b\\c\n</script>\u{2028}\u{1F600}A\u{1F600}\u{1F600}".to_string();
    if d.get(&("en".to_string(), Some("ns1".to_string()))) != Some(&vec![want]) {
        ctx.harness_error(format!("self-test: escapes decoded wrongly: {d:?}"));
    }
    let bad = [
        "window.__LEPTOS_I18N_TRANSLATIONS = [{\"values\":[\"\"\"]}];",
        "window.__LEPTOS_I18N_TRANSLATIONS = [{\"values\":[\"\n\"]}];",
        "window.__LEPTOS_I18N_TRANSLATIONS = [{\"values\":[\"\\\"]}];",
        "window.__LEPTOS_I18N_TRANSLATIONS = [] x",
    ];
    for src in bad {
        if parse_script(src).is_ok() {
            ctx.harness_error(format!("self-test: {src:?} should not parse"));
        }
    }
}
