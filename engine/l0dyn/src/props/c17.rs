//! C17 (part A) — server-embedded translations survive embedding into the page.
//!
//! Built with `dynamic_load` + `ssr`. The `Locale` enums come from the real macros
//! (`load_locales!` with namespaces => `id` is a namespace name; `declare_locales!` without
//! namespaces => `id` is `null`). The *string tables under test* are served by harness
//! `TranslationUnit` types whose `StringArray::as_slice` returns the current case's table, and they
//! are registered exactly like the generated `get_translations()` does
//! (`<Unit as TranslationUnit>::register()` -> `RegisterCtx::register`), inside the children of
//! `provide_i18n_context_component` (= `<I18nContextProvider>`), rendered natively with `to_html()`.
//!
//! Oracle (three independent engines, one per clause, so that each clause reports on its own):
//!   1. `script-breakout`     : the script element's text contains no `</script` (ASCII
//!                              case-insensitive) and no `<!--`;
//!   2. `script-not-parseable`: the text parses as `window.__LEPTOS_I18N_TRANSLATIONS = [ ... ];`
//!                              with a small JS-literal parser (JSON + JS string escapes);
//!   3. `decoded-mismatch`    : decoded, it is exactly the set of used units keyed by (locale,id),
//!                              each with its strings in table order, nothing for unused units.

use std::collections::BTreeMap;
use std::sync::Mutex;

use leptos::children::{ToChildren, TypedChildren};
use leptos::prelude::*;
use leptos_i18n::__private::fetch_translations::{StringArray, TranslationUnit};
use serde_json::{json, Value};
use vcommon::ctx::{hash_str, CaseInfo, CaseResult, Ctx, Failure};
use vcommon::tape::Tape;

// namespaced configuration: Cargo.toml metadata + locales/<locale>/<ns>.json
// (the macro reports unused plural forms of ja / de-CH through `deprecated` warnings: expected here)
#[allow(deprecated)]
mod generated {
    leptos_i18n::load_locales!();
}
use generated::i18n;

// flat configuration (one translation unit per locale, `id` = null)
pub mod flat {
    leptos_i18n::declare_locales! {
        path: leptos_i18n,
        default: "en",
        locales: ["en", "fr", "zh"],
        en: { k: "en" },
        fr: { k: "fr" },
        zh: { k: "zh" },
    }
}

// ------------------------------------------------------------------------------------------------
// harness translation units

const N_SLOTS: usize = 15;

static TABLES: Mutex<[&'static [&'static str]; N_SLOTS]> = Mutex::new([&[]; N_SLOTS]);

#[derive(Debug)]
pub struct DynStrings(usize);

impl StringArray for DynStrings {
    fn cast(_: Vec<Box<str>>) -> Box<Self> {
        unreachable!("server side only")
    }
    fn as_slice(&self) -> &[&'static str] {
        TABLES.lock().unwrap()[self.0]
    }
}

macro_rules! units {
    ($($name:ident, $slot:expr, $loc_ty:ty, $loc:expr, $id:expr;)*) => {
        $(
            #[allow(non_camel_case_types)]
            struct $name;
            impl TranslationUnit for $name {
                type Locale = $loc_ty;
                const ID: <$loc_ty as leptos_i18n::Locale>::TranslationUnitId = $id;
                const LOCALE: $loc_ty = $loc;
                type Strings = DynStrings;
                const STRINGS: &'static DynStrings = &DynStrings($slot);
            }
        )*
        fn register_slot(slot: usize) {
            match slot {
                $( $slot => <$name as TranslationUnit>::register(), )*
                _ => unreachable!(),
            }
        }
    };
}

use i18n::I18nTranslationUnitsId as Ns;
use i18n::Locale as NsLocale;
use flat::i18n::Locale as FlatLocale;

units! {
    U_en_1, 0, NsLocale, NsLocale::en, Ns::ns1;
    U_en_2, 1, NsLocale, NsLocale::en, Ns::ns2;
    U_en_3, 2, NsLocale, NsLocale::en, Ns::ns3;
    U_fr_1, 3, NsLocale, NsLocale::fr, Ns::ns1;
    U_fr_2, 4, NsLocale, NsLocale::fr, Ns::ns2;
    U_fr_3, 5, NsLocale, NsLocale::fr, Ns::ns3;
    U_de_1, 6, NsLocale, NsLocale::de_CH, Ns::ns1;
    U_de_2, 7, NsLocale, NsLocale::de_CH, Ns::ns2;
    U_de_3, 8, NsLocale, NsLocale::de_CH, Ns::ns3;
    U_ja_1, 9, NsLocale, NsLocale::ja, Ns::ns1;
    U_ja_2, 10, NsLocale, NsLocale::ja, Ns::ns2;
    U_ja_3, 11, NsLocale, NsLocale::ja, Ns::ns3;
    F_en, 12, FlatLocale, FlatLocale::en, ();
    F_fr, 13, FlatLocale, FlatLocale::fr, ();
    F_zh, 14, FlatLocale, FlatLocale::zh, ();
}

const NS_LOCALES: [&str; 4] = ["en", "fr", "de-CH", "ja"];
const NS_NAMES: [&str; 3] = ["ns1", "ns2", "ns3"];
const FLAT_LOCALES: [&str; 3] = ["en", "fr", "zh"];

fn slot_key(slot: usize) -> (String, Option<String>) {
    if slot < 12 {
        (NS_LOCALES[slot / 3].to_string(), Some(NS_NAMES[slot % 3].to_string()))
    } else {
        (FLAT_LOCALES[slot - 12].to_string(), None)
    }
}

// ------------------------------------------------------------------------------------------------
// generator

/// pieces of translation text; index 0 is the simplest
const PIECES: &[&str] = &[
    "a",
    "word",
    " ",
    "\"",
    "\\",
    "\n",
    "\r",
    "\u{2028}",
    "\u{2029}",
    "</script>",
    "</SCRIPT",
    "<!--",
    "]]>",
    "\0",
    "\u{b}",
    "\u{c}",
    "\u{8}",
    "\u{1b}",
    "\u{7f}",
    "\u{85}",
    "😀",
    "𝒳",
    "'",
    "\\n",
    "\\u0041",
    "\\\"",
    "é",
    "日本語",
    "-->",
    "<script>",
    "&amp;",
    "&quot;",
    "\t",
    "{",
    "}",
    "[",
    "]",
    ",",
    ":",
    ";",
    "</ScRiPt >",
    "\\\\",
    "\u{7f}",
    "\u{85}",
    "\u{feff}",
    "`${x}`",
    "\\x41",
    "//",
    "/*",
    "\u{1}",
    "\u{1f}",
    "null",
    "\"]}];alert(1);[{\"",
    // NUL immediately followed by digits (a `\\0` escape followed by a digit is a legacy octal escape)
    "\u{0}12",
    "\u{0}7",
    "\u{0}0",
    "\u{0}9",
    "\u{0}377",
    // a backslash followed by escape-looking text: all of it is literal text
    "\\u",
    "\\x",
    "\\x4",
    "\\0",
    "\\12",
    "\\8",
    "\\u2028",
    "\\u{41}",
    "\\'",
    "\\\n",
    "0",
    "7",
    "12",
];

fn gen_string(t: &mut Tape) -> String {
    let n = t.weighted(&[6, 6, 4, 3, 2, 1]); // 0..=5 pieces (0 = empty string)
    let mut s = String::new();
    for _ in 0..n {
        // bias towards the first (plain) pieces but reach all of them
        let idx = if t.chance(2, 5) { t.pick(3) } else { t.pick(PIECES.len()) };
        s.push_str(PIECES[idx]);
    }
    s
}

#[derive(Clone, Debug)]
struct Request {
    /// slots in the order the render touches them (repeats allowed)
    history: Vec<usize>,
}

#[derive(Clone, Debug)]
struct Case {
    flat: bool,
    /// slots that exist in this case (have a table)
    existing: Vec<usize>,
    tables: BTreeMap<usize, Vec<String>>,
    requests: Vec<Request>,
}

fn gen_case(t: &mut Tape) -> Case {
    let flat = t.chance(1, 4);
    let existing: Vec<usize> = if flat {
        let n_loc = t.range(1, 3);
        (0..n_loc).map(|l| 12 + l).collect()
    } else {
        let n_ns = t.range(1, 3);
        let n_loc = t.range(1, 4);
        let mut v = vec![];
        for l in 0..n_loc {
            for n in 0..n_ns {
                v.push(l * 3 + n);
            }
        }
        v
    };
    let mut tables = BTreeMap::new();
    for &s in &existing {
        let n = t.weighted(&[6, 5, 3, 2, 1]) + if t.chance(1, 8) { 0 } else { 1 }; // 0..=5 strings
        let n = n.min(5);
        let strings: Vec<String> = (0..n).map(|_| gen_string(t)).collect();
        tables.insert(s, strings);
    }
    let n_req = 1 + t.weighted(&[5, 2]);
    let mut requests = vec![];
    for _ in 0..n_req {
        let len = t.weighted(&[1, 5, 5, 4, 3, 2, 1, 1, 1]); // 0..=8
        let history = (0..len).map(|_| existing[t.pick(existing.len())]).collect();
        requests.push(Request { history });
    }
    Case { flat, existing, tables, requests }
}

fn must_escape(s: &str) -> bool {
    let lower = s.to_ascii_lowercase();
    s.chars().any(|c| c == '"' || c == '\\' || (c as u32) < 0x20)
        || lower.contains("</script")
        || s.contains("<!--")
}

fn case_json(c: &Case) -> Value {
    json!({
        "config": if c.flat { "flat (id=null)" } else { "namespaced" },
        "existing_units": c.existing.iter().map(|s| { let (l, n) = slot_key(*s); json!([l, n]) }).collect::<Vec<_>>(),
        "tables": c.tables.iter().map(|(s, v)| { let (l, n) = slot_key(*s); json!({"locale": l, "id": n, "strings": v}) }).collect::<Vec<_>>(),
        "requests": c.requests.iter().map(|r| r.history.iter().map(|s| { let (l, n) = slot_key(*s); json!([l, n]) }).collect::<Vec<_>>()).collect::<Vec<_>>(),
    })
}

// ------------------------------------------------------------------------------------------------
// observation: render one request natively

/// interned `&'static str`s (lookups only, never iterated): keeps the leak per case small
static INTERN: Mutex<Option<std::collections::HashMap<String, &'static str>>> = Mutex::new(None);

fn intern(s: &str) -> &'static str {
    let mut g = INTERN.lock().unwrap();
    let map = g.get_or_insert_with(Default::default);
    if let Some(v) = map.get(s) {
        return v;
    }
    let leaked: &'static str = Box::leak(s.to_string().into_boxed_str());
    map.insert(s.to_string(), leaked);
    leaked
}

fn install_tables(c: &Case) {
    let mut guard = TABLES.lock().unwrap();
    for slot in 0..N_SLOTS {
        guard[slot] = &[];
    }
    for (slot, strings) in &c.tables {
        // the register context stores `&'static [&'static str]`: leak this case's table
        let leaked: Vec<&'static str> = strings.iter().map(|s| intern(s)).collect();
        guard[*slot] = Box::leak(leaked.into_boxed_slice());
    }
}

/// no request exists natively: answer the Accept-Language lookup with "absent" (keeps leptos-use quiet)
fn quiet_header_getter() -> leptos_use::UseLocalesOptions {
    leptos_use::UseLocalesOptions::default().ssr_lang_header_getter(|| None)
}

fn render_request(flat: bool, history: Vec<usize>) -> String {
    let owner = Owner::new();
    let html = owner.with(|| {
        let children = move || {
            for slot in &history {
                register_slot(*slot);
            }
        };
        if flat {
            leptos_i18n::context::provide_i18n_context_component::<FlatLocale, _>(
                Some(false),
                Some(false),
                Some(false),
                None,
                None,
                Some(quiet_header_getter()),
                TypedChildren::to_children(children),
            )
            .to_html()
        } else {
            leptos_i18n::context::provide_i18n_context_component::<NsLocale, _>(
                Some(false),
                Some(false),
                Some(false),
                None,
                None,
                Some(quiet_header_getter()),
                TypedChildren::to_children(children),
            )
            .to_html()
        }
    });
    drop(owner);
    html
}

/// the text of the (only) script element the provider emits: from the first `<script>` to the last
/// `</script>` of the rendered HTML (children render nothing, `<Html/>` renders nothing in place)
fn script_text(html: &str) -> Option<&str> {
    let start = html.find("<script>")? + "<script>".len();
    let end = html.rfind("</script>")?;
    if end < start {
        return None;
    }
    Some(&html[start..end])
}

// ------------------------------------------------------------------------------------------------
// a small JS literal parser (JSON + JS string escapes)

#[derive(Clone, Debug, PartialEq)]
enum Js {
    Null,
    Bool(bool),
    Num(String),
    Str(String),
    Arr(Vec<Js>),
    Obj(Vec<(String, Js)>),
}

struct P<'a> {
    s: &'a [char],
    i: usize,
}

impl<'a> P<'a> {
    fn ws(&mut self) {
        while self.i < self.s.len() {
            let c = self.s[self.i];
            if c == ' ' || c == '\t' || c == '\n' || c == '\r' || c == '\u{feff}' || c == '\u{a0}' || c == '\u{2028}' || c == '\u{2029}' {
                self.i += 1;
            } else {
                break;
            }
        }
    }
    fn peek(&self) -> Option<char> {
        self.s.get(self.i).copied()
    }
    fn eat(&mut self, c: char) -> Result<(), String> {
        if self.peek() == Some(c) {
            self.i += 1;
            Ok(())
        } else {
            Err(format!("expected {c:?} at {} found {:?}", self.i, self.peek()))
        }
    }
    fn lit(&mut self, word: &str) -> bool {
        let w: Vec<char> = word.chars().collect();
        if self.s.len() >= self.i + w.len() && self.s[self.i..self.i + w.len()] == w[..] {
            self.i += w.len();
            true
        } else {
            false
        }
    }
    fn hex(&mut self, n: usize) -> Result<u32, String> {
        let mut v = 0u32;
        for _ in 0..n {
            let c = self.peek().ok_or("eof in escape")?;
            let d = c.to_digit(16).ok_or(format!("bad hex digit {c:?}"))?;
            v = v * 16 + d;
            self.i += 1;
        }
        Ok(v)
    }
    fn string(&mut self) -> Result<String, String> {
        let q = self.peek().ok_or("eof")?;
        if q != '"' && q != '\'' {
            return Err(format!("expected a string at {}", self.i));
        }
        self.i += 1;
        let mut units: Vec<u16> = vec![]; // UTF-16 code units, as JS strings are
        loop {
            let c = self.peek().ok_or("unterminated string")?;
            self.i += 1;
            if c == q {
                break;
            }
            match c {
                '\n' | '\r' => return Err("raw line terminator inside a string literal".into()),
                '\\' => {
                    let e = self.peek().ok_or("eof after backslash")?;
                    self.i += 1;
                    let push_char = |units: &mut Vec<u16>, ch: char| {
                        let mut b = [0u16; 2];
                        units.extend_from_slice(ch.encode_utf16(&mut b));
                    };
                    match e {
                        'n' => units.push(0x0a),
                        'r' => units.push(0x0d),
                        't' => units.push(0x09),
                        'b' => units.push(0x08),
                        'f' => units.push(0x0c),
                        'v' => units.push(0x0b),
                        // classic (non strict) script semantics for backslash-digit:
                        // legacy octal escape, up to 3 octal digits with a value <= 0o377
                        // (`\0` alone is NUL, `"\012"` is U+000A, `"\07"` is U+0007, `"\08"` is NUL then '8')
                        d @ '0'..='7' => {
                            let max_digits = if d <= '3' { 3 } else { 2 };
                            let mut v = d.to_digit(8).unwrap();
                            let mut n = 1;
                            while n < max_digits {
                                match self.peek().and_then(|c| c.to_digit(8)) {
                                    Some(x) => {
                                        v = v * 8 + x;
                                        n += 1;
                                        self.i += 1;
                                    }
                                    None => break,
                                }
                            }
                            units.push(v as u16);
                        }
                        // `\8` and `\9` are the digit itself
                        d @ ('8' | '9') => push_char(&mut units, d),
                        'x' => {
                            let v = self.hex(2)?;
                            units.push(v as u16);
                        }
                        'u' => {
                            if self.peek() == Some('{') {
                                self.i += 1;
                                let mut v = 0u32;
                                let mut n = 0;
                                while let Some(c) = self.peek() {
                                    if c == '}' {
                                        break;
                                    }
                                    let d = c.to_digit(16).ok_or("bad hex in \\u{}")?;
                                    v = v.checked_mul(16).and_then(|v| v.checked_add(d)).ok_or("overflow in \\u{}")?;
                                    n += 1;
                                    self.i += 1;
                                }
                                self.eat('}')?;
                                if n == 0 || v > 0x10ffff {
                                    return Err("bad \\u{} escape".into());
                                }
                                if v >= 0x10000 {
                                    let v = v - 0x10000;
                                    units.push(0xd800 + (v >> 10) as u16);
                                    units.push(0xdc00 + (v & 0x3ff) as u16);
                                } else {
                                    units.push(v as u16);
                                }
                            } else {
                                let v = self.hex(4)?;
                                units.push(v as u16);
                            }
                        }
                        '\n' | '\u{2028}' | '\u{2029}' => {} // line continuation
                        '\r' => {
                            if self.peek() == Some('\n') {
                                self.i += 1;
                            }
                        }
                        other => push_char(&mut units, other), // identity escape (\" \' \\ \/ ...)
                    }
                }
                other => {
                    let mut b = [0u16; 2];
                    units.extend_from_slice(other.encode_utf16(&mut b));
                }
            }
        }
        String::from_utf16(&units).map_err(|_| "lone surrogate in decoded string".to_string())
    }
    fn value(&mut self, depth: usize) -> Result<Js, String> {
        if depth > 16 {
            return Err("too deep".into());
        }
        self.ws();
        match self.peek() {
            Some('[') => {
                self.i += 1;
                let mut v = vec![];
                loop {
                    self.ws();
                    if self.peek() == Some(']') {
                        self.i += 1;
                        break;
                    }
                    v.push(self.value(depth + 1)?);
                    self.ws();
                    match self.peek() {
                        Some(',') => self.i += 1,
                        Some(']') => {
                            self.i += 1;
                            break;
                        }
                        other => return Err(format!("expected , or ] at {} found {other:?}", self.i)),
                    }
                }
                Ok(Js::Arr(v))
            }
            Some('{') => {
                self.i += 1;
                let mut v = vec![];
                loop {
                    self.ws();
                    if self.peek() == Some('}') {
                        self.i += 1;
                        break;
                    }
                    let k = match self.peek() {
                        Some('"') | Some('\'') => self.string()?,
                        Some(c) if c.is_ascii_alphabetic() || c == '_' || c == '$' => {
                            let st = self.i;
                            while self.peek().map(|c| c.is_ascii_alphanumeric() || c == '_' || c == '$').unwrap_or(false) {
                                self.i += 1;
                            }
                            self.s[st..self.i].iter().collect()
                        }
                        other => return Err(format!("expected a property name at {} found {other:?}", self.i)),
                    };
                    self.ws();
                    self.eat(':')?;
                    let val = self.value(depth + 1)?;
                    v.push((k, val));
                    self.ws();
                    match self.peek() {
                        Some(',') => self.i += 1,
                        Some('}') => {
                            self.i += 1;
                            break;
                        }
                        other => return Err(format!("expected , or }} at {} found {other:?}", self.i)),
                    }
                }
                Ok(Js::Obj(v))
            }
            Some('"') | Some('\'') => Ok(Js::Str(self.string()?)),
            Some(c) if c == '-' || c.is_ascii_digit() => {
                let st = self.i;
                while self.peek().map(|c| c.is_ascii_digit() || "+-.eE".contains(c)).unwrap_or(false) {
                    self.i += 1;
                }
                Ok(Js::Num(self.s[st..self.i].iter().collect()))
            }
            _ => {
                if self.lit("null") {
                    Ok(Js::Null)
                } else if self.lit("true") {
                    Ok(Js::Bool(true))
                } else if self.lit("false") {
                    Ok(Js::Bool(false))
                } else {
                    Err(format!("unexpected token at {}: {:?}", self.i, self.peek()))
                }
            }
        }
    }
}

/// parse `window.__LEPTOS_I18N_TRANSLATIONS = <array literal> ;`
fn parse_script(text: &str) -> Result<Js, String> {
    // what the HTML tokenizer hands to the script engine: U+0000 in script data becomes U+FFFD
    let chars: Vec<char> = text.chars().map(|c| if c == '\0' { '\u{fffd}' } else { c }).collect();
    let mut p = P { s: &chars, i: 0 };
    p.ws();
    if !p.lit("window.__LEPTOS_I18N_TRANSLATIONS") {
        return Err("does not start with window.__LEPTOS_I18N_TRANSLATIONS".into());
    }
    p.ws();
    p.eat('=')?;
    let v = p.value(0)?;
    p.ws();
    if p.peek() == Some(';') {
        p.i += 1;
    }
    p.ws();
    if p.i != chars.len() {
        return Err(format!("trailing text after the assignment at char {}", p.i));
    }
    match v {
        Js::Arr(_) => Ok(v),
        _ => Err("assigned value is not an array".into()),
    }
}

type Decoded = BTreeMap<(String, Option<String>), Vec<String>>;

fn decode(v: &Js) -> Result<Decoded, String> {
    let Js::Arr(items) = v else { return Err("not an array".into()) };
    let mut out = Decoded::new();
    for it in items {
        let Js::Obj(fields) = it else { return Err("array item is not an object".into()) };
        let mut locale = None;
        let mut id: Option<Option<String>> = None;
        let mut values = None;
        for (k, v) in fields {
            match (k.as_str(), v) {
                ("locale", Js::Str(s)) => locale = Some(s.clone()),
                ("id", Js::Str(s)) => id = Some(Some(s.clone())),
                ("id", Js::Null) => id = Some(None),
                ("values", Js::Arr(a)) => {
                    let mut vs = vec![];
                    for x in a {
                        let Js::Str(s) = x else { return Err("non-string in values".into()) };
                        vs.push(s.clone());
                    }
                    values = Some(vs);
                }
                (other, _) => return Err(format!("unexpected field {other:?}")),
            }
        }
        let (Some(locale), Some(id), Some(values)) = (locale, id, values) else {
            return Err("object misses locale / id / values".into());
        };
        if out.insert((locale.clone(), id.clone()), values).is_some() {
            return Err(format!("unit ({locale},{id:?}) listed twice"));
        }
    }
    Ok(out)
}

// ------------------------------------------------------------------------------------------------
// the three clause checks

#[derive(Clone, Copy, PartialEq)]
enum Clause {
    Breakout,
    Parse,
    Decode,
}

fn check_case(t: &mut Tape, clause: Clause) -> CaseResult {
    let c = gen_case(t);
    install_tables(&c);
    let cj = case_json(&c);
    let mut observations = 0u64;
    let mut classes: Vec<String> = vec![];
    let mut nontrivial = false;
    let mut skipped_unparseable = 0;
    for (ri, r) in c.requests.iter().enumerate() {
        let html = render_request(c.flat, r.history.clone());
        let Some(text) = script_text(&html) else {
            return Err(Failure {
                signature: "no-script-element".into(),
                detail: json!({"case": cj, "request": ri, "html": html}),
            });
        };
        // expected
        let mut expected = Decoded::new();
        for slot in &r.history {
            expected.insert(slot_key(*slot), c.tables[slot].clone());
        }
        let used_any_escape = expected.values().flatten().any(|s| must_escape(s));
        let strict_subset = !expected.is_empty() && expected.len() < c.existing.len();
        if strict_subset && used_any_escape {
            nontrivial = true;
        }
        let expected_json: Vec<Value> = expected
            .iter()
            .map(|((l, i), v)| json!({"locale": l, "id": i, "values": v}))
            .collect();
        match clause {
            Clause::Breakout => {
                observations += 1;
                let lower = text.to_ascii_lowercase();
                if lower.contains("</script") || text.contains("<!--") {
                    return Err(Failure {
                        signature: "script-breakout".into(),
                        detail: json!({
                            "case": cj, "request": ri,
                            "why": "the text of the emitted <script> element contains `</script` or `<!--`: the HTML parser ends / escapes the script there",
                            "script_text": text, "html": html,
                        }),
                    });
                }
            }
            Clause::Parse => {
                observations += 1;
                if let Err(e) = parse_script(text) {
                    return Err(Failure {
                        signature: "script-not-parseable".into(),
                        detail: json!({
                            "case": cj, "request": ri, "parse_error": e, "script_text": text,
                            "expected_decoded": expected_json,
                        }),
                    });
                }
            }
            Clause::Decode => {
                // only defined for scripts that parse (clause 2 reports the others)
                let Ok(v) = parse_script(text) else {
                    skipped_unparseable += 1;
                    continue;
                };
                observations += 1;
                let actual = decode(&v);
                let ok = matches!(&actual, Ok(a) if *a == expected);
                if !ok {
                    let actual_json = match &actual {
                        Ok(a) => json!(a.iter().map(|((l, i), v)| json!({"locale": l, "id": i, "values": v})).collect::<Vec<_>>()),
                        Err(e) => json!({"shape_error": e}),
                    };
                    return Err(Failure {
                        signature: "decoded-mismatch".into(),
                        detail: json!({
                            "case": cj, "request": ri, "script_text": text,
                            "expected_decoded": expected_json, "actual_decoded": actual_json,
                        }),
                    });
                }
            }
        }
        if expected.is_empty() {
            classes.push("request-uses-no-unit".into());
        } else if strict_subset {
            classes.push("request-uses-strict-subset".into());
        } else {
            classes.push("request-uses-all-units".into());
        }
        if used_any_escape {
            classes.push("used-string-needs-escaping".into());
        }
        if r.history.len() > expected.len() {
            classes.push("unit-touched-twice".into());
        }
        if expected.values().any(|v| v.is_empty()) {
            classes.push("used-unit-with-empty-table".into());
        }
    }
    if skipped_unparseable > 0 {
        classes.push("decode-skipped-not-parseable(reported-by-parse-engine)".into());
    }
    classes.push(if c.flat { "config-flat-id-null".into() } else { "config-namespaced".into() });
    if c.requests.len() > 1 {
        classes.push("two-requests".into());
    }
    classes.sort();
    classes.dedup();
    let txt = serde_json::to_string(&cj).unwrap_or_default();
    Ok(CaseInfo {
        hash: hash_str(&txt),
        nontrivial,
        classes,
        sample: Some(cj),
        observations,
    })
}

struct DropExecutor;

impl any_spawner::CustomExecutor for DropExecutor {
    fn spawn(&self, fut: any_spawner::PinnedFuture<()>) {
        drop(fut)
    }
    fn spawn_local(&self, fut: any_spawner::PinnedLocalFuture<()>) {
        drop(fut)
    }
    fn poll_local(&self) {}
}

// ------------------------------------------------------------------------------------------------
// part B, engine `real-units`: the real generated translation units and accessors
//
// The accessors below are the real macros over the `load_locales!()` project of this crate
// (locales/<locale>/<ns>.json: 4 locales x 3 namespaces). Under dynamic_load + ssr every generated
// accessor reaches `<unit>::get_translations()`, which registers the unit in the request's
// `RegisterCtx`. A generated use history touches (locale, accessor) pairs inside the children of
// `provide_i18n_context_component`; the emitted script must list exactly the touched units, each with
// the table the server function hands out (`I18nKeys::__i18n_request_translations__`).

mod real {
    use super::i18n::*;
    use super::NsLocale;
    use leptos::prelude::*;

    /// poll a future that is ready immediately (server side accessors are `async` only for API parity)
    fn block_on<F: std::future::Future>(fut: F) -> F::Output {
        struct Noop;
        impl std::task::Wake for Noop {
            fn wake(self: std::sync::Arc<Self>) {}
        }
        let waker = std::task::Waker::from(std::sync::Arc::new(Noop));
        let mut cx = std::task::Context::from_waker(&waker);
        let mut fut = std::pin::pin!(fut);
        for _ in 0..1000 {
            if let std::task::Poll::Ready(v) = fut.as_mut().poll(&mut cx) {
                return v;
            }
        }
        panic!("harness: accessor future never became ready")
    }

    pub enum Touched {
        /// string flavour: evaluated on the spot
        Text(String),
        /// view flavour: rendered with the children of the provider
        View(AnyView),
    }

    pub struct Accessor {
        pub label: &'static str,
        /// namespace index (0 = ns1 ...)
        pub ns: usize,
        /// which locale's unit the access registers: the given one, or always the default locale's
        /// (key explicitly `null` in the other locales, or `t!` reading the context's locale)
        pub unit_locale: UnitLocale,
        pub run: fn(NsLocale) -> Touched,
    }

    #[derive(Clone, Copy, PartialEq)]
    pub enum UnitLocale {
        Given,
        /// the default locale for every locale but the given one when it *is* the default
        DefaultExceptFor,
        /// the locale of the context (the default locale: no cookie, no header)
        Context,
    }

    pub fn accessors() -> Vec<Accessor> {
        use UnitLocale::*;
        let v = |label, ns, unit_locale, run| Accessor { label, ns, unit_locale, run };
        vec![
            // ---- ns1
            v("td_string!(l, ns1.plain)", 0, Given, |l| Touched::Text(block_on(td_string!(l, ns1.plain)).to_string())),
            v("td!(l, ns1.plain)", 0, Given, |l| Touched::View(td!(l, ns1.plain).into_any())),
            v("td_string!(l, ns1.script)", 0, Given, |l| Touched::Text(block_on(td_string!(l, ns1.script)).to_string())),
            v("td!(l, ns1.script)", 0, Given, |l| Touched::View(td!(l, ns1.script).into_any())),
            v("td!(l, ns1.interp, name, <b>)", 0, Given, |l| {
                Touched::View(td!(l, ns1.interp, name = "Ann", <b> = |c: leptos::children::ChildrenFn| view! { <b>{c()}</b> }).into_any())
            }),
            v("td!(l, ns1.sub.inner)", 0, Given, |l| Touched::View(td!(l, ns1.sub.inner).into_any())),
            v("td_string!(l, ns1.sub.deep.leaf)", 0, Given, |l| Touched::Text(block_on(td_string!(l, ns1.sub.deep.leaf)).to_string())),
            v("td!(l, ns1.sub.deep.leaf_var, x)", 0, Given, |l| Touched::View(td!(l, ns1.sub.deep.leaf_var, x = "X").into_any())),
            v("td_string!(l, ns1.sub.deep.leaf_var, x)", 0, Given, |l| {
                Touched::Text(block_on(td_string!(l, ns1.sub.deep.leaf_var, x = "X")).to_string())
            }),
            v("td_string!(l, ns1.items, count = 1)", 0, Given, |l| Touched::Text(block_on(td_string!(l, ns1.items, count = 1)).to_string())),
            v("td!(l, ns1.items, count = || 3)", 0, Given, |l| Touched::View(td!(l, ns1.items, count = || 3).into_any())),
            v("td!(l, ns1.rng, count = || 3, <i>)", 0, Given, |l| {
                Touched::View(td!(l, ns1.rng, count = || 3, <i> = |c: leptos::children::ChildrenFn| view! { <i>{c()}</i> }).into_any())
            }),
            // ---- ns2
            v("td!(l, ns2.title)", 1, Given, |l| Touched::View(td!(l, ns2.title).into_any())),
            v("td_string!(l, ns2.title)", 1, Given, |l| Touched::Text(block_on(td_string!(l, ns2.title)).to_string())),
            v("td_string!(l, ns2.same)", 1, Given, |l| Touched::Text(block_on(td_string!(l, ns2.same)).to_string())),
            v("td!(l, ns2.greet, who)", 1, Given, |l| Touched::View(td!(l, ns2.greet, who = "you").into_any())),
            v("td_string!(l, ns2.group.a)", 1, Given, |l| Touched::Text(block_on(td_string!(l, ns2.group.a)).to_string())),
            v("td!(l, ns2.group.b, v, <em>)", 1, Given, |l| {
                Touched::View(td!(l, ns2.group.b, v = "V", <em> = |c: leptos::children::ChildrenFn| view! { <em>{c()}</em> }).into_any())
            }),
            v("td_string!(l, ns2.hazard)", 1, Given, |l| Touched::Text(block_on(td_string!(l, ns2.hazard)).to_string())),
            v("td!(l, ns2.hazard)", 1, Given, |l| Touched::View(td!(l, ns2.hazard).into_any())),
            v("t!(use_i18n(), ns2.title)", 1, Context, |_| Touched::View(t!(use_i18n(), ns2.title).into_any())),
            // ---- ns3
            v("td_string!(l, ns3.fkey)", 2, Given, |l| Touched::Text(block_on(td_string!(l, ns3.fkey)).to_string())),
            v("td!(l, ns3.fkey)", 2, Given, |l| Touched::View(td!(l, ns3.fkey).into_any())),
            v("td!(l, ns3.only_en)", 2, DefaultExceptFor, |l| Touched::View(td!(l, ns3.only_en).into_any())),
            v("td_string!(l, ns3.only_en)", 2, DefaultExceptFor, |l| Touched::Text(block_on(td_string!(l, ns3.only_en)).to_string())),
            v("td!(l, ns3.emoji)", 2, Given, |l| Touched::View(td!(l, ns3.emoji).into_any())),
            v("td_string!(l, ns3.ord, count = 2)", 2, Given, |l| Touched::Text(block_on(td_string!(l, ns3.ord, count = 2)).to_string())),
            v("t!(use_i18n(), ns3.emoji)", 2, Context, |_| Touched::View(t!(use_i18n(), ns3.emoji).into_any())),
        ]
    }

    /// the table the generated server function hands out for a unit
    pub fn server_table(l: NsLocale, ns: usize) -> &'static [&'static str] {
        let id = [I18nTranslationUnitsId::ns1, I18nTranslationUnitsId::ns2, I18nTranslationUnitsId::ns3][ns];
        I18nKeys::__i18n_request_translations__(l, id)
    }
}

const NS_LOCALE_VALUES: [NsLocale; 4] = [NsLocale::en, NsLocale::fr, NsLocale::de_CH, NsLocale::ja];

struct RealCtx {
    accessors: Vec<real::Accessor>,
    /// [locale][ns] -> server table, computed once outside of any provider
    tables: Vec<Vec<Vec<String>>>,
}

fn real_ctx() -> RealCtx {
    let tables = NS_LOCALE_VALUES
        .iter()
        .map(|l| (0..3).map(|ns| real::server_table(*l, ns).iter().map(|s| s.to_string()).collect()).collect())
        .collect();
    RealCtx { accessors: real::accessors(), tables }
}

fn real_case(t: &mut Tape, rc: &RealCtx) -> CaseResult {
    let len = t.weighted(&[1, 3, 4, 4, 4, 3, 3, 2, 2, 1, 1, 1, 1]); // 0..=12
    let mut history: Vec<(usize, usize)> = vec![];
    for _ in 0..len {
        // half of the touches revisit an earlier locale or accessor (units touched twice)
        let (l, a) = if !history.is_empty() && t.coin() {
            let (pl, pa) = history[t.pick(history.len())];
            match t.pick(3) {
                0 => (pl, pa),
                1 => (pl, t.pick(rc.accessors.len())),
                _ => (t.pick(4), pa),
            }
        } else {
            (t.pick(4), t.pick(rc.accessors.len()))
        };
        history.push((l, a));
    }
    // model: which unit each touch registers
    let unit_of = |l: usize, a: usize| -> (usize, usize) {
        let acc = &rc.accessors[a];
        let ul = match acc.unit_locale {
            real::UnitLocale::Given => l,
            real::UnitLocale::DefaultExceptFor | real::UnitLocale::Context => 0,
        };
        (ul, acc.ns)
    };
    let mut expected = Decoded::new();
    let mut touches: BTreeMap<(usize, usize), usize> = BTreeMap::new();
    for (l, a) in &history {
        let (ul, ns) = unit_of(*l, *a);
        *touches.entry((ul, ns)).or_insert(0) += 1;
        expected.insert((NS_LOCALES[ul].to_string(), Some(NS_NAMES[ns].to_string())), rc.tables[ul][ns].clone());
    }
    let cj = json!({
        "history": history.iter().map(|(l, a)| json!([NS_LOCALES[*l], rc.accessors[*a].label])).collect::<Vec<_>>(),
        "expected_units": expected.keys().map(|(l, n)| json!([l, n])).collect::<Vec<_>>(),
    });

    // render: the accessors run inside the children of the real provider
    let hist = history.clone();
    let runs: Vec<fn(NsLocale) -> real::Touched> = rc.accessors.iter().map(|a| a.run).collect();
    let owner = Owner::new();
    let html = owner.with(|| {
        let children = move || {
            let mut views: Vec<AnyView> = vec![];
            for (l, a) in &hist {
                match (runs[*a])(NS_LOCALE_VALUES[*l]) {
                    real::Touched::Text(s) => views.push(s.into_any()),
                    real::Touched::View(v) => views.push(v),
                }
            }
            views
        };
        leptos_i18n::context::provide_i18n_context_component::<NsLocale, _>(
            Some(false),
            Some(false),
            Some(false),
            None,
            None,
            Some(quiet_header_getter()),
            TypedChildren::to_children(children),
        )
        .to_html()
    });
    drop(owner);
    let Some(text) = script_text(&html) else {
        return Err(Failure { signature: "real-units:no-script-element".into(), detail: json!({"case": cj, "html": html}) });
    };
    let mut observations = 1u64;
    let lower = text.to_ascii_lowercase();
    if lower.contains("</script") || text.contains("<!--") {
        return Err(Failure {
            signature: "real-units:script-breakout".into(),
            detail: json!({"case": cj, "script_text": text, "why": "the script element's text contains `</script` or `<!--`"}),
        });
    }
    observations += 1;
    let parsed = match parse_script(text) {
        Ok(v) => v,
        Err(e) => {
            return Err(Failure {
                signature: "real-units:not-parseable".into(),
                detail: json!({"case": cj, "parse_error": e, "script_text": text}),
            })
        }
    };
    observations += 1;
    let actual = match decode(&parsed) {
        Ok(a) => a,
        Err(e) => {
            return Err(Failure {
                signature: "real-units:unit-set-mismatch".into(),
                detail: json!({"case": cj, "shape_error": e, "script_text": text}),
            })
        }
    };
    let exp_keys: Vec<_> = expected.keys().cloned().collect();
    let act_keys: Vec<_> = actual.keys().cloned().collect();
    if exp_keys != act_keys {
        return Err(Failure {
            signature: "real-units:unit-set-mismatch".into(),
            detail: json!({
                "case": cj,
                "why": "the embedded script must list exactly the (locale, namespace) units the render touched",
                "expected_units": exp_keys.iter().map(|(l, n)| json!([l, n])).collect::<Vec<_>>(),
                "actual_units": act_keys.iter().map(|(l, n)| json!([l, n])).collect::<Vec<_>>(),
            }),
        });
    }
    for (k, v) in &expected {
        observations += 1;
        if actual.get(k) != Some(v) {
            return Err(Failure {
                signature: "real-units:values-mismatch".into(),
                detail: json!({
                    "case": cj, "unit": [k.0, k.1],
                    "why": "values must equal the table of I18nKeys::__i18n_request_translations__(locale, namespace), in order",
                    "expected_values": v, "actual_values": actual.get(k),
                }),
            });
        }
    }
    // classification
    let twice = touches.values().any(|n| *n >= 2);
    let strict_subset = !expected.is_empty() && expected.len() < 12;
    let mut classes: Vec<String> = vec![];
    classes.push(match expected.len() {
        0 => "real-units:no-unit-touched".to_string(),
        1..=3 => "real-units:1-3-units-touched".to_string(),
        4..=7 => "real-units:4-7-units-touched".to_string(),
        _ => "real-units:8-12-units-touched".to_string(),
    });
    if twice {
        classes.push("real-units:unit-touched-twice".into());
    }
    for (l, a) in &history {
        let acc = &rc.accessors[*a];
        classes.push(format!("real-units:ns{}", acc.ns + 1));
        classes.push(
            if acc.label.starts_with("td_string!") { "real-units:string-flavour" } else if acc.label.starts_with("t!") { "real-units:t!-context-locale" } else { "real-units:view-flavour" }
                .to_string(),
        );
        if acc.unit_locale == real::UnitLocale::DefaultExceptFor && *l != 0 {
            classes.push("real-units:key-defaulted-to-default-locale".into());
        }
    }
    classes.sort();
    classes.dedup();
    let txt = serde_json::to_string(&cj).unwrap_or_default();
    Ok(CaseInfo {
        hash: hash_str(&format!("real-units:{txt}")),
        nontrivial: strict_subset && twice,
        classes,
        sample: Some(cj),
        observations,
    })
}

const ENGINES: [(&str, Clause); 3] = [
    ("l0dyn-breakout", Clause::Breakout),
    ("l0dyn-parse", Clause::Parse),
    ("l0dyn-decode", Clause::Decode),
];

pub fn run(mut ctx: Ctx) -> ! {
    // effects are never needed for a synchronous `to_html()`: spawned tasks are dropped, so no
    // background thread touches disposed owners and the run stays deterministic
    let _ = any_spawner::Executor::init_custom_executor(DropExecutor);
    // sanity of the harness itself (exit 2, never a violation)
    self_test(&mut ctx);
    if let Some(path) = ctx.replay.clone() {
        let engine = Ctx::replay_engine(&path).unwrap_or_default();
        match ENGINES.iter().find(|(n, _)| *n == engine) {
            Some((name, clause)) => {
                ctx.replay_tape(name, &path, |t| check_case(t, *clause));
            }
            None if engine == "real-units" => {
                let rc = real_ctx();
                ctx.replay_tape("real-units", &path, |t| real_case(t, &rc));
            }
            None => ctx.harness_error(format!("replay file names unknown engine {engine:?}")),
        }
    } else {
        let cases = ctx.tier.scale(30_000, 500_000);
        for (name, clause) in ENGINES {
            ctx.run_tapes(name, cases, 400, |t| check_case(t, clause));
        }
        // part B: the real generated units and accessors
        let rc = real_ctx();
        let cases = ctx.tier.scale(20_000, 400_000);
        let nt = std::cell::Cell::new((0u64, 0u64));
        ctx.run_tapes("real-units", cases, 60, |t| {
            let r = real_case(t, &rc);
            if let Ok(info) = &r {
                let (n, all) = nt.get();
                nt.set((n + info.nontrivial as u64, all + 1));
            }
            r
        });
        ctx.set_extra("real_units_histories", json!({"evaluated": nt.get().1, "nontrivial (not deduplicated)": nt.get().0}));
    }
    ctx.finish(
        "generated cases: configuration (namespaced load_locales! enum: 1-3 namespaces x 1-4 locales, or flat declare_locales! \
         enum: 1-3 locales, id=null), a string table of 0-5 arbitrary Unicode strings per existing translation unit (pieces drawn \
         from an alphabet rich in \" \\ LF CR U+2028/9 </script> </SCRIPT <!-- ]]> NUL astral characters and literal escape \
         look-alikes), 1-2 requests each with a use history of 0-8 unit touches (repeats allowed). Each request is rendered \
         natively through provide_i18n_context_component (dynamic_load+ssr) with harness TranslationUnit types registering through \
         RegisterCtx::register; the emitted <script> text is checked by three engines (no `</script`/`<!--`; parses as \
         `window.__LEPTOS_I18N_TRANSLATIONS = [..];` with a JS-literal parser; decoded == exactly the used units with their strings \
         in order). non-trivial = a request whose used set is a non-empty strict subset of the existing units and at least one \
         string of a used unit contains a must-escape character (\" \\ control <0x20, `</script`, `<!--`); distinct = hash of the \
         serialised case. The alphabet also holds NUL followed by digits and backslash followed by u/x/n/digits/quote (classic-script \
         legacy octal semantics are modelled by the parser). Engine real-units (part B): the real generated units of this crate's \
         load_locales!() project (4 locales x 3 namespaces; keys with subkeys, interpolation, components, plurals, a range, a foreign \
         key, a key defaulted through null, strings with quotes / backslashes / < & / newline / NUL+digits / </script>) touched \
         through 28 accessors over the real macros (td_string!, td!, t!; string and view flavours) by a generated use history of \
         0-12 (locale, accessor) touches inside the children of provide_i18n_context_component; the emitted script must not break \
         out, must parse, and must decode to exactly the touched (locale, namespace) units, each with the values of \
         I18nKeys::__i18n_request_translations__(locale, namespace) in order; there non-trivial = a non-empty strict subset of the 12 \
         units is touched and at least one unit is touched twice",
        &[
            "only the server half (SSR emission) is observed; the hydrate-side re-emission (init_translations) is wasm-only",
            "the real generated get_translations() path is covered by the generated-crate tier (C17 part B); here units register through the same public TranslationUnit::register()",
            "U+2028/U+2029 raw inside a JS string literal are accepted (ES2019); a raw NUL is modelled as the HTML tokenizer delivers it (U+FFFD)",
        ],
        20,
    )
}

/// the JS-literal parser and the script extraction are part of the oracle: check them on
/// hand-written inputs before trusting them
fn self_test(ctx: &mut Ctx) {
    let good = [
        ("window.__LEPTOS_I18N_TRANSLATIONS = [];".to_string(), 0usize),
        ("window.__LEPTOS_I18N_TRANSLATIONS = [{\"locale\":\"en\",\"id\":null,\"values\":[]}];".to_string(), 1),
        (
            "window.__LEPTOS_I18N_TRANSLATIONS = [{\"locale\":\"en\",\"id\":\"ns1\",\"values\":[\"a\\\"b\\\\c\\n<\\/script>\u{2028}\u{1F600}\\x41\\u{1F600}\\uD83D\\uDE00\"]}];"
                .to_string(),
            1,
        ),
    ];
    for (src, n) in &good {
        match parse_script(src).and_then(|v| decode(&v)) {
            Ok(d) if d.len() == *n => {}
            other => ctx.harness_error(format!("self-test: {src:?} -> {other:?}")),
        }
    }
    let d = parse_script(&good[2].0).and_then(|v| decode(&v)).unwrap_or_default();
    let want = "a\"b\\c\n</script>\u{2028}\u{1F600}A\u{1F600}\u{1F600}".to_string();
    if d.get(&("en".to_string(), Some("ns1".to_string()))) != Some(&vec![want]) {
        ctx.harness_error(format!("self-test: escapes decoded wrongly: {d:?}"));
    }
    let octal = "window.__LEPTOS_I18N_TRANSLATIONS = [{\"locale\":\"en\",\"id\":null,\"values\":[\"a\\0b\\012c\\07d\\08e\\9f\\377g\\400h\\u00001\"]}];";
    let d = parse_script(octal).and_then(|v| decode(&v)).unwrap_or_default();
    let want = "a\u{0}b\nc\u{7}d\u{0}8e9f\u{ff}g\u{20}0h\u{0}1".to_string();
    if d.get(&("en".to_string(), None)) != Some(&vec![want]) {
        ctx.harness_error(format!("self-test: legacy octal escapes decoded wrongly: {d:?}"));
    }
    let bad = [
        "window.__LEPTOS_I18N_TRANSLATIONS = [{\"values\":[\"\"\"]}];",
        "window.__LEPTOS_I18N_TRANSLATIONS = [{\"values\":[\"\n\"]}];",
        "window.__LEPTOS_I18N_TRANSLATIONS = [{\"values\":[\"\\\"]}];",
        "window.__LEPTOS_I18N_TRANSLATIONS = [] x",
    ];
    for src in bad {
        if parse_script(src).is_ok() {
            ctx.harness_error(format!("self-test: {src:?} should not parse"));
        }
    }
}
