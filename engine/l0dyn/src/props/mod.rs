use vcommon::ctx::Ctx;

pub mod c17;

pub fn dispatch(prop: &str, ctx: Ctx) -> ! {
    match prop {
        "C17" => c17::run(ctx),
        other => {
            eprintln!("harness error: unknown property {other:?}");
            std::process::exit(2)
        }
    }
}
