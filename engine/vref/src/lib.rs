//! Reference formatting: `reference("number|always|fr|i:1234567")` builds a fresh ICU4X formatter for
//! the locale and options named in the descriptor and formats the value named in it.
//!
//! descriptors (fields separated by `|`):
//!   number|<auto|never|always|min2>|<locale>|<num>
//!   currency|<short|narrow>|<CODE>|<locale>|<num>
//!   date|<full|long|medium|short>|<locale>|<y>-<m>-<d>
//!   time|<full|long|medium|short>|<locale>|<h>:<m>:<s>
//!   datetime|<date len>|<time len>|<locale>|<y>-<m>-<d> <h>:<m>:<s>
//!   list|<and|or|unit>|<wide|short|narrow>|<locale>|<item>\u{1f}<item>...
//!   num = i:<i128> | f64:<repr> | f32:<repr> | d:<decimal string>

use fixed_decimal::{FixedDecimal, FloatPrecision};
use icu_calendar::{AnyCalendar, Date, DateTime, Time};
use icu_datetime::options::length;
use icu_datetime::{DateFormatter, DateTimeFormatter, TimeFormatter};
use icu_decimal::options::{FixedDecimalFormatterOptions, GroupingStrategy};
use icu_decimal::FixedDecimalFormatter;
use icu_experimental::dimension::currency::formatter::{CurrencyCode, CurrencyFormatter};
use icu_experimental::dimension::currency::options::{CurrencyFormatterOptions, Width};
use icu_list::{ListFormatter, ListLength};
use icu_provider::DataLocale;
use writeable::Writeable;

fn data_locale(s: &str) -> Result<DataLocale, String> {
    let l: icu_locid::Locale = s.parse().map_err(|e| format!("locale {s:?}: {e:?}"))?;
    Ok(DataLocale::from(l))
}

fn num(s: &str) -> Result<FixedDecimal, String> {
    let (k, v) = s.split_once(':').ok_or_else(|| format!("number {s:?}"))?;
    match k {
        "i" => {
            let n: i128 = v.parse().map_err(|e| format!("{e}"))?;
            Ok(FixedDecimal::from(n))
        }
        "f64" => {
            let f: f64 = v.parse().map_err(|e| format!("{e}"))?;
            FixedDecimal::try_from_f64(f, FloatPrecision::Floating).map_err(|e| format!("{e:?}"))
        }
        "f32" => {
            let f: f32 = v.parse().map_err(|e| format!("{e}"))?;
            FixedDecimal::try_from_f64(f64::from(f), FloatPrecision::Floating).map_err(|e| format!("{e:?}"))
        }
        "d" => v.parse::<FixedDecimal>().map_err(|e| format!("{e:?}")),
        _ => Err(format!("number kind {k:?}")),
    }
}

fn date_len(s: &str) -> Result<length::Date, String> {
    Ok(match s {
        "full" => length::Date::Full,
        "long" => length::Date::Long,
        "medium" => length::Date::Medium,
        "short" => length::Date::Short,
        _ => return Err(format!("date length {s:?}")),
    })
}

fn time_len(s: &str) -> Result<length::Time, String> {
    Ok(match s {
        "full" => length::Time::Full,
        "long" => length::Time::Long,
        "medium" => length::Time::Medium,
        "short" => length::Time::Short,
        _ => return Err(format!("time length {s:?}")),
    })
}

fn date(s: &str) -> Result<Date<AnyCalendar>, String> {
    let p: Vec<&str> = s.split('-').collect();
    if p.len() != 3 {
        return Err(format!("date {s:?}"));
    }
    let y: i32 = p[0].parse().map_err(|e| format!("{e}"))?;
    let m: u8 = p[1].parse().map_err(|e| format!("{e}"))?;
    let d: u8 = p[2].parse().map_err(|e| format!("{e}"))?;
    Ok(Date::try_new_iso_date(y, m, d).map_err(|e| format!("{e:?}"))?.to_any())
}

fn time(s: &str) -> Result<Time, String> {
    let p: Vec<&str> = s.split(':').collect();
    if p.len() != 3 {
        return Err(format!("time {s:?}"));
    }
    let h: u8 = p[0].parse().map_err(|e| format!("{e}"))?;
    let m: u8 = p[1].parse().map_err(|e| format!("{e}"))?;
    let sec: u8 = p[2].parse().map_err(|e| format!("{e}"))?;
    Time::try_new(h, m, sec, 0).map_err(|e| format!("{e:?}"))
}

pub fn reference(desc: &str) -> Result<String, String> {
    let f: Vec<&str> = desc.split('|').collect();
    match f.as_slice() {
        ["number", gs, loc, v] => {
            let gs = match *gs {
                "auto" => GroupingStrategy::Auto,
                "never" => GroupingStrategy::Never,
                "always" => GroupingStrategy::Always,
                "min2" => GroupingStrategy::Min2,
                _ => return Err(format!("grouping strategy {gs:?}")),
            };
            let fm = FixedDecimalFormatter::try_new(&data_locale(loc)?, FixedDecimalFormatterOptions::from(gs)).map_err(|e| e.to_string())?;
            Ok(fm.format_to_string(&num(v)?))
        }
        ["currency", width, code, loc, v] => {
            let w = match *width {
                "short" => Width::Short,
                "narrow" => Width::Narrow,
                _ => return Err(format!("width {width:?}")),
            };
            let code = CurrencyCode(code.parse().map_err(|e| format!("{e:?}"))?);
            let fm = CurrencyFormatter::try_new(&data_locale(loc)?, CurrencyFormatterOptions::from(w)).map_err(|e| e.to_string())?;
            Ok(fm.format_fixed_decimal(&num(v)?, code).write_to_string().into_owned())
        }
        ["date", len, loc, v] => {
            let fm = DateFormatter::try_new_with_length(&data_locale(loc)?, date_len(len)?).map_err(|e| e.to_string())?;
            fm.format_to_string(&date(v)?).map_err(|e| e.to_string())
        }
        ["time", len, loc, v] => {
            let fm = TimeFormatter::try_new_with_length(&data_locale(loc)?, time_len(len)?).map_err(|e| e.to_string())?;
            Ok(fm.format_to_string(&time(v)?))
        }
        ["datetime", dl, tl, loc, v] => {
            let (d, t) = v.split_once(' ').ok_or_else(|| format!("datetime {v:?}"))?;
            let bag = length::Bag::from_date_time_style(date_len(dl)?, time_len(tl)?);
            let fm = DateTimeFormatter::try_new(&data_locale(loc)?, bag.into()).map_err(|e| e.to_string())?;
            fm.format_to_string(&DateTime::new(date(d)?, time(t)?)).map_err(|e| e.to_string())
        }
        ["list", ty, style, loc, items] => {
            let len = match *style {
                "wide" => ListLength::Wide,
                "short" => ListLength::Short,
                "narrow" => ListLength::Narrow,
                _ => return Err(format!("list style {style:?}")),
            };
            let dl = data_locale(loc)?;
            let fm = match *ty {
                "and" => ListFormatter::try_new_and_with_length(&dl, len),
                "or" => ListFormatter::try_new_or_with_length(&dl, len),
                "unit" => ListFormatter::try_new_unit_with_length(&dl, len),
                _ => return Err(format!("list type {ty:?}")),
            }
            .map_err(|e| e.to_string())?;
            let items: Vec<&str> = if items.is_empty() { vec![] } else { items.split('\u{1f}').collect() };
            Ok(fm.format_to_string(items.iter().copied()))
        }
        _ => Err(format!("descriptor {desc:?}")),
    }
}
