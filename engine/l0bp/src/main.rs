//! C18 under the documented "custom ICU data provider" configuration: leptos_i18n is built without
//! `icu_compiled_data` and every formatter / plural rule set is created through the provider registered here
//! (a hand-written `IcuDataProvider` whose constructors use ICU4X's own compiled data, so that the expected
//! output is still what a freshly built ICU4X formatter prints).

#[path = "../../l0b/src/exec.rs"]
mod exec;
mod props {
    #[path = "/verif/engine/l0b/src/props/c18.rs"]
    pub mod c18;
}

use icu_datetime::options::length;
use icu_datetime::{DateFormatter, DateTimeFormatter, TimeFormatter};
use icu_decimal::FixedDecimalFormatter;
use icu_experimental::dimension::currency::formatter::CurrencyFormatter;
use icu_experimental::dimension::currency::options::CurrencyFormatterOptions;
use icu_list::{ListFormatter, ListLength};
use icu_plurals::{PluralRuleType, PluralRules};
use icu_provider::DataLocale;
use leptos_i18n::custom_provider::IcuDataProvider;

struct CompiledDataBackedProvider;

impl IcuDataProvider for CompiledDataBackedProvider {
    fn try_new_num_formatter(&self, locale: &DataLocale, options: icu_decimal::options::FixedDecimalFormatterOptions) -> Result<FixedDecimalFormatter, icu_decimal::DecimalError> {
        FixedDecimalFormatter::try_new(locale, options)
    }
    fn try_new_date_formatter(&self, locale: &DataLocale, length: length::Date) -> Result<DateFormatter, icu_datetime::DateTimeError> {
        DateFormatter::try_new_with_length(locale, length)
    }
    fn try_new_time_formatter(&self, locale: &DataLocale, length: length::Time) -> Result<TimeFormatter, icu_datetime::DateTimeError> {
        TimeFormatter::try_new_with_length(locale, length)
    }
    fn try_new_datetime_formatter(&self, locale: &DataLocale, options: icu_datetime::options::DateTimeFormatterOptions) -> Result<DateTimeFormatter, icu_datetime::DateTimeError> {
        DateTimeFormatter::try_new(locale, options)
    }
    fn try_new_and_list_formatter(&self, locale: &DataLocale, style: ListLength) -> Result<ListFormatter, icu_list::ListError> {
        ListFormatter::try_new_and_with_length(locale, style)
    }
    fn try_new_or_list_formatter(&self, locale: &DataLocale, style: ListLength) -> Result<ListFormatter, icu_list::ListError> {
        ListFormatter::try_new_or_with_length(locale, style)
    }
    fn try_new_unit_list_formatter(&self, locale: &DataLocale, style: ListLength) -> Result<ListFormatter, icu_list::ListError> {
        ListFormatter::try_new_unit_with_length(locale, style)
    }
    fn try_new_plural_rules(&self, locale: &DataLocale, rule_type: PluralRuleType) -> Result<PluralRules, icu_plurals::PluralsError> {
        PluralRules::try_new(locale, rule_type)
    }
    fn try_new_currency_formatter(&self, locale: &DataLocale, options: CurrencyFormatterOptions) -> Result<CurrencyFormatter, icu_provider::DataError> {
        CurrencyFormatter::try_new(locale, options)
    }
}

fn main() {
    // also in the child processes of the `seq` engine (they re-enter through this main)
    leptos_i18n::custom_provider::set_icu_data_provider(CompiledDataBackedProvider);
    // the documented-but-unbuildable options (known finding D23) are decided by the compiled-data stage
    std::env::set_var("VERIF_C18_CUSTOM_PROVIDER", "1");
    std::env::set_var("VERIF_CONFIGURATION", "custom-provider");
    let prop = std::env::args().nth(1).unwrap_or_default();
    if prop != "C18" {
        eprintln!("harness error: l0bp serves C18 only");
        std::process::exit(2);
    }
    let ctx = vcommon::ctx::Ctx::from_env(&prop);
    props::c18::run(ctx)
}
