//! C11 — exported string tables match the indices the generated code reads.

use serde_json::json;
use vcommon::ctx::{hash_str, CaseInfo, CaseResult, Ctx, Failure};
use vcommon::gen::{Gen, GenCfg};
use vcommon::ser;
use vcommon::tape::Tape;

use crate::eval::{self, LoadOutcome, Scratch};
use crate::projcheck::{check_project, CheckOpts};
use crate::props::common::std_classes;

pub fn cfg() -> GenCfg {
    GenCfg {
        locales: (1, 4),
        p_namespaces: 35,
        keys: (1, 9),
        sub_depth: 3,
        w_kinds: [4, 6, 2, 1, 1, 3, 3],
        p_null: 10,
        p_absent: 8,
        p_kind_varies: 10,
        p_inherits: 30,
        max_pieces: 6,
        max_comp_depth: 3,
        fk_to_null: true,
        tags: false, // untagged literals: the same text occurs in several keys (dedup path)
        ..GenCfg::default()
    }
}

fn needs_json_escape(s: &str) -> bool {
    s.chars().any(|c| c == '"' || c == '\\' || (c as u32) < 0x20 || !c.is_ascii())
}

fn fail(sig: &str, detail: serde_json::Value) -> Failure {
    Failure {
        signature: sig.into(),
        detail,
    }
}

pub fn case(t: &mut Tape, scratch: &Scratch) -> CaseResult {
    let style_seed = t.u64();
    let mut c = cfg();
    c.tags = t.chance(1, 3);
    let mut g = Gen::new(t, c);
    let p = g.project();
    let mut opts = CheckOpts::default();
    opts.style.seed = style_seed;
    let dir = scratch.0.join("p");
    let st = check_project(&p, &opts, &dir, t)?;
    let pj = ser::project_to_json(&p);
    let mut classes = std_classes(&p, &st);
    let mut observations = st.observations;
    let mut escaped = false;
    let mut multi = false;
    if !st.expected_error {
        // the build helper's view of the same project, written to disk and read back as JSON
        let LoadOutcome::Ok(loaded) = eval::load(&dir) else {
            return Err(fail("harness-reload", json!({"project": pj})));
        };
        let out = scratch.0.join("out");
        let _ = std::fs::remove_dir_all(&out);
        // half of the exports go into a directory that still holds the files of an earlier, larger export
        // (build scripts write into a directory that is kept between builds)
        let stale_mode = t.pick(3);
        let stale = stale_mode == 1;
        if stale_mode == 2 {
            // an earlier export of almost the same project: same file names, same byte lengths, one letter different
            let d3 = dir.clone();
            let o3 = out.clone();
            let _ = std::panic::catch_unwind(move || {
                if let Ok(infos) = leptos_i18n_build::TranslationsInfos::parse_at_dir(d3) {
                    let _ = infos.get_translations().write_to_dir(o3);
                }
            });
            fn flip(dir: &std::path::Path) {
                let Ok(rd) = std::fs::read_dir(dir) else { return };
                for e in rd.flatten() {
                    let p = e.path();
                    if p.is_dir() {
                        flip(&p);
                    } else if let Ok(txt) = std::fs::read_to_string(&p) {
                        // replace the first ASCII letter by another one (same length, still valid JSON)
                        if let Some(i) = txt.char_indices().find(|(_, c)| c.is_ascii_alphabetic() && *c != 'u' && *c != 'n' && *c != 'r' && *c != 't' && *c != 'b' && *c != 'f').map(|(i, _)| i) {
                            let mut b = txt.into_bytes();
                            b[i] = if b[i] == b'x' { b'y' } else { b'x' };
                            let _ = std::fs::write(&p, b);
                        }
                    }
                }
            }
            flip(&out);
        }
        if stale {
            for ns in p.ns_list() {
                let Some((locales, _)) = loaded.top(ns.as_deref()) else { continue };
                for l in locales {
                    let file = match &ns {
                        Some(ns) => out.join(ns).join(format!("{}.json", l.name.name)),
                        None => out.join(format!("{}.json", l.name.name)),
                    };
                    if let Some(parent) = file.parent() {
                        let _ = std::fs::create_dir_all(parent);
                    }
                    let mut older: Vec<String> = l.strings.iter().map(|s| s.to_string()).collect();
                    older.push("a string of the earlier export that was removed since \u{e9}\u{1f600}".to_string());
                    older.push("\"]".to_string());
                    let _ = std::fs::write(&file, serde_json::to_string(&older).unwrap_or_default());
                }
            }
        }
        let d2 = dir.clone();
        let o2 = out.clone();
        let r = std::panic::catch_unwind(move || -> Result<(), String> {
            let infos = leptos_i18n_build::TranslationsInfos::parse_at_dir(d2).map_err(|e| format!("parse_at_dir: {e}"))?;
            infos.get_translations().write_to_dir(o2).map_err(|e| format!("write_to_dir: {e}"))
        });
        match r {
            Err(pn) => return Err(fail("export-panic", json!({"panic": eval::panic_message(pn), "project": pj}))),
            Ok(Err(e)) => return Err(fail("export-error", json!({"error": e, "project": pj}))),
            Ok(Ok(())) => {}
        }
        for ns in p.ns_list() {
            let Some((locales, _)) = loaded.top(ns.as_deref()) else { continue };
            for l in locales {
                let file = match &ns {
                    Some(ns) => out.join(ns).join(format!("{}.json", l.name.name)),
                    None => out.join(format!("{}.json", l.name.name)),
                };
                let txt = match std::fs::read_to_string(&file) {
                    Ok(t) => t,
                    Err(e) => {
                        return Err(fail("export-file-missing", json!({"file": file.display().to_string(), "error": e.to_string(), "project": pj})))
                    }
                };
                let table: Vec<String> = l.strings.iter().map(|s| s.to_string()).collect();
                observations += 1;
                if table.iter().any(|s| needs_json_escape(s)) {
                    escaped = true;
                }
                if table.len() >= 2 {
                    multi = true;
                }
                match serde_json::from_str::<Vec<String>>(&txt) {
                    Ok(v) if v == table => {}
                    Ok(v) => {
                        return Err(fail(
                            "export-differs-from-table",
                            json!({"file": file.display().to_string(), "exported": v, "table": table, "project": pj}),
                        ))
                    }
                    Err(e) => {
                        let bad: Vec<&String> = table.iter().filter(|s| serde_json::from_str::<String>(&format!("{:?}", s)).is_err()).collect();
                        return Err(fail(
                            "export-not-json",
                            json!({"file": file.display().to_string(), "error": e.to_string(), "content": txt, "strings_that_break": bad, "project": pj}),
                        ));
                    }
                }
            }
        }
    }
    if escaped {
        classes.push("string-needs-json-escape".into());
    }
    let txt = serde_json::to_string(&pj).unwrap_or_default();
    Ok(CaseInfo {
        hash: hash_str(&txt),
        nontrivial: !st.expected_error && multi && (st.defaulted_any > 0 || st.fk_any > 0 || escaped || p.namespaces.is_some()),
        classes,
        sample: Some(json!({"project": pj, "table_entries": st.table_entries})),
        observations,
    })
}

pub fn run(mut ctx: Ctx) -> ! {
    let scratch = Scratch::new("c11");
    if let Some(path) = ctx.replay.clone() {
        ctx.replay_tape("l1", &path, |t| case(t, &scratch));
    } else {
        let cases = ctx.tier.scale(3000, 80000);
        ctx.run_tapes("l1", cases, 1200, |t| case(t, &scratch));
    }
    drop(scratch);
    ctx.finish(
        "generated projects (defaulted locales, nested subkeys, namespaces, `$t` duplicating strings, literals rich in quotes, \
         backslashes, controls, NBSP/NNBSP, ZWJ, combining marks, U+2028/9, astral). oracles: (1) every reachable \
         Literal::String(s,i) of every (sub)locale satisfies strings[i]==s; (2) each table, as a set, equals the literal texts the AST \
         yields for that locale's own keys, without duplicates; (3) every nested Locale carries its top locale's table length; \
         (4) TranslationsInfos::get_translations().write_to_dir() writes <ns>/<locale>.json files that parse as JSON arrays equal to \
         the tables, into a fresh directory, over the files of an earlier, larger export, or over an earlier export of the same byte length that differs in one letter (a third of the cases each). non-trivial = a table with >=2 strings in a project with a defaulted key, a reference, namespaces, or a string \
         needing JSON escapes; distinct = project hash",
        &["the dynamic_load code path that reads the tables at run time is covered by the generated-crate tier"],
        20,
    )
}
