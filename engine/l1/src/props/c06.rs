//! C06 — foreign keys are pure substitution; unresolvable / cyclic references are rejected.

use serde_json::json;
use vcommon::ctx::{hash_str, CaseInfo, CaseResult, Ctx, Failure};
use vcommon::gen::{leaf_paths, GenCfg};
use vcommon::model::*;
use vcommon::tape::Tape;

use crate::eval::Scratch;
use crate::projcheck::{check_project, CheckOpts};
use crate::props::common::{project_case, std_classes};

pub fn cfg() -> GenCfg {
    GenCfg {
        locales: (1, 3),
        p_namespaces: 30,
        keys: (2, 8),
        sub_depth: 2,
        w_kinds: [3, 6, 2, 2, 2, 2, 8],
        p_null: 8,
        p_absent: 3,
        p_kind_varies: 10,
        p_inherits: 40,
        max_pieces: 5,
        max_comp_depth: 3,
        fk_to_null: true,
        hyphen_vars: true,
        hyphen_keys: true,
        ..GenCfg::default()
    }
}

fn all_str_values<'a>(obj: &'a mut Obj, out: &mut Vec<&'a mut Vec<Piece>>) {
    for (_, v) in obj.iter_mut() {
        match v {
            Value::Str(p) => out.push(p),
            Value::Sub(o) => all_str_values(o, out),
            _ => {}
        }
    }
}

fn first_fk_mut(pieces: &mut Vec<Piece>) -> Option<&mut Fk> {
    for p in pieces.iter_mut() {
        match p {
            Piece::Fk(fk) => return Some(fk),
            Piece::Comp { children, .. } => {
                if let Some(f) = first_fk_mut(children) {
                    return Some(f);
                }
            }
            _ => {}
        }
    }
    None
}

/// negative classes: break one reference in one file
fn mutate(p: &mut Project, t: &mut Tape) -> Option<String> {
    if !t.chance(1, 4) {
        return None;
    }
    let kind = t.pick(4);
    let keys: Vec<(Option<String>, String)> = p.files.keys().cloned().collect();
    let fkey = keys[t.pick(keys.len())].clone();
    // candidate group paths (for "points at a subkey group")
    let mut group_paths: Vec<Vec<String>> = vec![];
    fn groups(o: &Obj, prefix: &mut Vec<String>, out: &mut Vec<Vec<String>>) {
        for (k, v) in o {
            if let Value::Sub(inner) = v {
                prefix.push(k.clone());
                out.push(prefix.clone());
                groups(inner, prefix, out);
                prefix.pop();
            }
        }
    }
    if let Some(o) = p.files.get(&fkey) {
        groups(o, &mut vec![], &mut group_paths);
    }
    let mut my_leaves = vec![];
    if let Some(o) = p.files.get(&fkey) {
        leaf_paths(o, &mut vec![], &mut my_leaves);
    }
    let obj = p.files.get_mut(&fkey)?;
    match kind {
        0 => {
            // missing target
            let mut strs = vec![];
            all_str_values(obj, &mut strs);
            for s in strs {
                if let Some(fk) = first_fk_mut(s) {
                    fk.path = vec!["no_such_key".to_string()];
                    fk.args.clear();
                    return Some("missing-target".into());
                }
            }
            None
        }
        1 => {
            // target is a subkey group
            let gp = group_paths.first()?.clone();
            let mut strs = vec![];
            all_str_values(obj, &mut strs);
            for s in strs {
                if let Some(fk) = first_fk_mut(s) {
                    fk.path = gp;
                    fk.ns = fkey.0.clone();
                    fk.args.clear();
                    return Some("target-is-subkey-group".into());
                }
            }
            None
        }
        2 => {
            // self reference / 2-cycle: pick a top-level string key and make it reference itself (maybe through another key)
            let names: Vec<String> = obj.iter().filter(|(_, v)| matches!(v, Value::Str(_))).map(|(k, _)| k.clone()).collect();
            if names.is_empty() {
                return None;
            }
            let a = names[t.pick(names.len())].clone();
            let b = names[t.pick(names.len())].clone();
            let mk = |to: &str, ns: &Option<String>| {
                Piece::Fk(Fk {
                    ns: ns.clone(),
                    path: vec![to.to_string()],
                    args: vec![],
                    ws: Default::default(),
                })
            };
            let ns = fkey.0.clone();
            if let Some(Value::Str(pa)) = obj_get_mut(obj, &a) {
                pa.push(mk(&b, &ns));
            }
            if let Some(Value::Str(pb)) = obj_get_mut(obj, &b) {
                if a != b {
                    pb.insert(0, mk(&a, &ns));
                }
            }
            Some(if a == b { "self-reference".into() } else { "two-cycle".into() })
        }
        _ => {
            // cycle through an argument
            let names: Vec<String> = obj.iter().filter(|(_, v)| matches!(v, Value::Str(_))).map(|(k, _)| k.clone()).collect();
            if names.len() < 2 {
                return None;
            }
            let a = names[0].clone();
            let b = names[1].clone();
            let ns = fkey.0.clone();
            if let Some(Value::Str(pa)) = obj_get_mut(obj, &a) {
                pa.push(Piece::Fk(Fk {
                    ns: ns.clone(),
                    path: vec![b.clone()],
                    args: vec![(
                        "x".to_string(),
                        Arg::Str(vec![Piece::Fk(Fk {
                            ns: ns.clone(),
                            path: vec![a.clone()],
                            args: vec![],
                            ws: Default::default(),
                        })]),
                    )],
                    ws: Default::default(),
                }));
            }
            let _ = my_leaves;
            Some("cycle-through-argument".into())
        }
    }
}

/// one inherits map of the enumerated domain: the C03 project plus reference keys (see `c06_project_for_map`)
fn enum_case(map: [usize; 3], scratch: &Scratch) -> CaseResult {
    let p = vcommon::gen::c06_project_for_map(map);
    let mut t = Tape::new(vec![]);
    let opts = CheckOpts {
        assignments: 1,
        ..CheckOpts::default()
    };
    let st = check_project(&p, &opts, &scratch.0.join("e"), &mut t).map_err(|mut f| {
        f.detail["case"] = json!({"map": map});
        f
    })?;
    if st.expected_error {
        return Err(Failure {
            signature: "harness-model".into(),
            detail: json!({"error": "the enumerated reference project is rejected by the model", "kinds": st.expected_error_kinds, "case": {"map": map}}),
        });
    }
    let mut classes = std_classes(&p, &st);
    classes.push("enumerated-reference-domain".to_string());
    Ok(CaseInfo {
        hash: hash_str(&format!("c06-enum{map:?}")),
        nontrivial: true,
        classes,
        sample: if map == [2, 3, 0] { Some(json!({"enumerated": {"map": map}, "locales": p.locales, "inherits": p.inherits, "reference_keys_per_pattern": ["ra: <$t(p_k0)>", "rb: $t(p_k1, {name: ..})", "rc: $t(gl.leaf)", "rd: $t(p_k2, {count: 0})", "re: $t(p_k2)", "rf: $t(p_k3, {count: 1})", "rr: [$t(ra)]", "rn: $t(p_k0), null in fr and es"]})) } else { None },
        observations: st.observations,
    })
}

pub fn run(mut ctx: Ctx) -> ! {
    let scratch = Scratch::new("c06");
    let case = |t: &mut Tape| {
        project_case(t, cfg(), CheckOpts::default(), &scratch, Some(&mutate), &|_, st| {
            st.fk_depth2 > 0 || (st.fk_any > 0 && st.defaulted_any > 0) || st.expected_error
        })
    };
    if let Some(path) = ctx.replay.clone() {
        if vcommon::ctx::Ctx::replay_engine(&path).as_deref() == Some("l1-enum") {
            let v: serde_json::Value = serde_json::from_str(&std::fs::read_to_string(&path).unwrap_or_default()).unwrap_or_default();
            let m: Vec<usize> = v["detail"]["case"]["map"].as_array().map(|a| a.iter().map(|x| x.as_u64().unwrap_or(0) as usize).collect()).unwrap_or_default();
            if m.len() == 3 {
                match enum_case([m[0], m[1], m[2]], &scratch) {
                    Ok(i) => ctx.record(i),
                    Err(f) => {
                        ctx.fail("l1-enum", None, &f);
                    }
                }
            }
        } else {
            ctx.replay_tape("l1", &path, case);
        }
    } else {
        // references over the enumerated 4-locale domain: every inherits map, every presence pattern of the target
        let mut complete = true;
        for m in 0..125usize {
            match enum_case([m % 5, (m / 5) % 5, m / 25], &scratch) {
                Ok(i) => ctx.record(i),
                Err(f) => {
                    complete = false;
                    if ctx.fail("l1-enum", None, &f) {
                        break;
                    }
                }
            }
        }
        ctx.set_extra("enumerated_domain", json!({"inherits_maps": 125, "presence_patterns_of_the_target": 27, "reference_shapes": 8, "complete": complete}));
        let cases = ctx.tier.scale(4000, 120000);
        ctx.run_tapes("l1", cases, 1500, case);
    }
    drop(scratch);
    ctx.finish(
        "generated projects with acyclic `$t` reference graphs (targets of every kind incl. ranges, plurals, subkey paths, other \
         namespaces; arguments: strings, numbers, bools, interpolated strings, literal and renamed counts; per-locale null / \
         inherited targets), one quarter mutated into a negative class (missing target, target is a subkey group, self / two-key \
         cycle, cycle through an argument). oracle = structural substitution on the AST (reference semantics) compared with the \
         evaluation of the parser's resolved trees for every (locale,key,2 argument assignments); negative classes must be \
         rejected with an error that names the key. non-trivial = reference chain of depth>=2, or a reference in a project with \
         defaulted keys, or a negative class; distinct = hash of the project",
        &[
            "`$t` inside a component body is outside the generated domain (the splitter gives `$t` precedence over tags)",
            "a `null` target resolves in the locale the key itself would fall back to (inherits chain, then default)",
        ],
        20,
    )
}
