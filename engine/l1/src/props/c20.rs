//! C20 — the build helper requests exactly the ICU data the translations use.

use std::collections::BTreeSet;

use serde_json::json;
use vcommon::ctx::{hash_str, CaseInfo, CaseResult, Ctx, Failure};
use vcommon::gen::{Gen, GenCfg};
use vcommon::sem::{needed_icu_options, Sem};
use vcommon::ser;
use vcommon::tape::Tape;

use crate::eval::{self, Scratch};
use crate::projcheck::{check_project, CheckOpts};
use crate::props::common::std_classes;

pub fn cfg(t: &mut Tape) -> GenCfg {
    // most projects use few features so that "needed in exactly one place" is common
    let plural_w = if t.chance(1, 3) { 2 } else { 0 };
    let fmt = t.chance(1, 2);
    GenCfg {
        locales: (1, 4),
        p_namespaces: 40,
        keys: (1, 7),
        sub_depth: 2,
        w_kinds: [4, 5, 1, 1, plural_w, 3, 3],
        p_null: 8,
        p_absent: 8,
        p_kind_varies: 25,
        p_inherits: 25,
        max_pieces: 4,
        max_comp_depth: 2,
        formatters: fmt,
        p_formatter: 10,
        p_surplus: 35,
        fk_to_null: true,
        ..GenCfg::default()
    }
}

fn fail(sig: &str, detail: serde_json::Value) -> Failure {
    Failure {
        signature: sig.into(),
        detail,
    }
}

pub fn case(t: &mut Tape, scratch: &Scratch) -> CaseResult {
    use leptos_i18n_build::Options;
    let style_seed = t.u64();
    let c = cfg(t);
    let mut g = Gen::new(t, c);
    let mut p = g.project();
    // surplus keys may use plurals / formatters too: they must not count
    let opts0 = CheckOpts::default();
    let mut opts = opts0.clone();
    opts.style.seed = style_seed;
    let dir = scratch.0.join("p");
    let st = check_project(&p, &opts, &dir, t)?;
    let pj = ser::project_to_json(&p);
    let mut classes = std_classes(&p, &st);
    let mut observations = st.observations;
    let mut nontrivial = false;
    if !st.expected_error {
        let sem = Sem::new(&p);
        let needed = needed_icu_options(&p, &sem);
        let d2 = dir.clone();
        let r = std::panic::catch_unwind(move || leptos_i18n_build::TranslationsInfos::parse_at_dir(d2).map_err(|e| e.to_string()));
        let infos = match r {
            Err(pn) => return Err(fail("build-helper-panic", json!({"panic": eval::panic_message(pn), "project": pj}))),
            Ok(Err(e)) => return Err(fail("build-helper-rejects-valid-project", json!({"error": e, "project": pj}))),
            Ok(Ok(i)) => i,
        };
        let to_opt = |s: &str| match s {
            "plurals" => Options::Plurals,
            "number" => Options::FormatNums,
            "datetime" => Options::FormatDateTime,
            "list" => Options::FormatList,
            _ => Options::FormatCurrency,
        };
        let expected: BTreeSet<String> = needed.iter().flat_map(|o| to_opt(o).into_data_keys()).map(|k| format!("{:?}", k)).collect();
        let actual: BTreeSet<String> = infos.get_icu_keys().map(|k| format!("{:?}", k)).collect();
        observations += 1;
        if expected != actual {
            let missing: Vec<_> = expected.difference(&actual).cloned().collect();
            let extra: Vec<_> = actual.difference(&expected).cloned().collect();
            return Err(fail(
                if !missing.is_empty() { "icu-keys-missing" } else { "icu-keys-unneeded" },
                json!({"needed_options": needed, "missing": missing, "unneeded": extra, "project": pj}),
            ));
        }
        // independent of the library's own table: the ICU4X 1.5 data markers the constructors used by the generated
        // code are bounded by (FixedDecimalFormatter, CurrencyFormatter, ListFormatter, PluralRules, DateTimeFormatter
        // with the Gregorian calendar), by their registered names. A name the data generator does not know is dropped
        // silently by `icu_datagen::keys`, so a wrong name shows up as a missing key here.
        for fam in &needed {
            let required: &[&str] = match fam.as_str() {
                "plurals" => &["plurals/cardinal@1", "plurals/ordinal@1"],
                "number" => &["decimal/symbols@1"],
                "list" => &["list/and@1", "list/or@1", "list/unit@1"],
                "datetime" => &["datetime/timesymbols@1", "datetime/timelengths@1", "datetime/gregory/datelengths@1", "datetime/gregory/datesymbols@1", "datetime/week_data@1", "decimal/symbols@1"],
                _ => &["currency/essentials@1", "decimal/symbols@1"],
            };
            let missing: Vec<&str> = required.iter().copied().filter(|name| !actual.iter().any(|k| k.contains(&format!("{name}}}")) || k.ends_with(name))).collect();
            observations += 1;
            if !missing.is_empty() {
                return Err(fail(
                    "icu-keys-missing-for-constructor",
                    json!({"family": fam, "missing": missing, "actual": actual, "why": "the formatter constructor of this family needs these data markers (ICU4X 1.5 names)", "project": pj}),
                ));
            }
        }
        // the answer must not depend on what was asked of this instance before: build drivers with every extra
        // option (`t*_format!` users do that), then ask again
        {
            let all = [Options::Plurals, Options::FormatDateTime, Options::FormatList, Options::FormatNums, Options::FormatCurrency];
            let extras: Vec<Options> = all.iter().filter(|o| !needed.iter().any(|n| format!("{:?}", to_opt(n)) == format!("{:?}", o))).cloned().collect();
            let _ = infos.build_datagen_driver_with_options(extras);
            let _ = infos.build_datagen_driver();
            let again: BTreeSet<String> = infos.get_icu_keys().map(|k| format!("{:?}", k)).collect();
            observations += 1;
            if again != expected {
                let extra: Vec<_> = again.difference(&expected).cloned().collect();
                let missing: Vec<_> = expected.difference(&again).cloned().collect();
                return Err(fail(
                    "icu-keys-depend-on-earlier-calls",
                    json!({"sequence": ["get_icu_keys()", "build_datagen_driver_with_options(<every option the project does not need>)", "build_datagen_driver()", "get_icu_keys()"],
                           "needed_options": needed, "unneeded_in_second_answer": extra, "missing_in_second_answer": missing, "project": pj}),
                ));
            }
        }
        let locs: Vec<String> = infos.get_locales().map(|s| s.to_string()).collect();
        observations += 1;
        if locs != p.locales {
            return Err(fail("locales-mismatch", json!({"expected": p.locales, "actual": locs, "project": pj})));
        }
        let langids: Vec<String> = infos.get_locales_langids().map(|l| l.to_string()).collect();
        if langids != p.locales {
            return Err(fail("langids-mismatch", json!({"expected": p.locales, "actual": langids, "project": pj})));
        }
        let nss: Option<Vec<String>> = infos.get_namespaces().map(|i| i.map(|s| s.to_string()).collect());
        observations += 1;
        if nss != p.namespaces {
            return Err(fail("namespaces-mismatch", json!({"expected": p.namespaces, "actual": nss, "project": pj})));
        }
        for o in &needed {
            classes.push(format!("needs:{o}"));
        }
        if needed.is_empty() {
            classes.push("needs:nothing".into());
        }
        // non-trivial: a needed option that the default locale's own top-level, first-namespace values do not show
        let mut shallow = p.clone();
        let first_ns = p.namespaces.as_ref().map(|v| v[0].clone());
        shallow.files.retain(|(ns, loc), _| *ns == first_ns && loc == p.default_locale());
        shallow.locales.truncate(1);
        shallow.inherits.clear();
        if let Some(v) = &mut shallow.namespaces {
            v.truncate(1);
        }
        for (_, obj) in shallow.files.iter_mut() {
            obj.retain(|(_, v)| !matches!(v, vcommon::model::Value::Sub(_)));
        }
        let shallow_sem = Sem::new(&shallow);
        let shallow_needed = needed_icu_options(&shallow, &shallow_sem);
        nontrivial = needed.iter().any(|o| !shallow_needed.contains(o));
        if nontrivial {
            classes.push("needed-only-outside-default-top-level".into());
        }
    }
    let _ = &mut p;
    let txt = serde_json::to_string(&pj).unwrap_or_default();
    Ok(CaseInfo {
        hash: hash_str(&txt),
        nontrivial,
        classes,
        sample: Some(json!({"project": pj})),
        observations,
    })
}

pub fn run(mut ctx: Ctx) -> ! {
    let scratch = Scratch::new("c20");
    if let Some(path) = ctx.replay.clone() {
        ctx.replay_tape("l1", &path, |t| case(t, &scratch));
    } else {
        let cases = ctx.tier.scale(3000, 80000);
        ctx.run_tapes("l1", cases, 1200, |t| case(t, &scratch));
    }
    drop(scratch);
    ctx.finish(
        "generated projects in which plurals and each formatter family (number, date/time/datetime, list, currency) occur rarely \
         and in varied places (default locale, one other locale only, nested subkeys, later namespaces, reachable only through `$t`, \
         surplus keys that are unreachable). oracle: TranslationsInfos::get_icu_keys() as a set equals the union of \
         Options::into_data_keys over the option families the AST needs for accessible keys (both directions), get_locales / \
         get_locales_langids equal the configured locales with the default first, get_namespaces equals the configured namespaces; after building datagen drivers with every option the project does not need, get_icu_keys() gives the same set again. \
         non-trivial = a needed family that the default locale's top-level keys of the first namespace do not show; distinct = project hash",
        &["formatter option values are not part of this property (C18)"],
        20,
    )
}
