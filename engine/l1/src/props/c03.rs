//! C03 — missing keys fall back along the inheritance chain, then to the default locale.

use std::collections::BTreeMap;

use serde_json::json;
use vcommon::ctx::{hash_str, CaseInfo, CaseResult, Ctx};
use vcommon::gen::GenCfg;
use vcommon::model::*;
use vcommon::ser;
use vcommon::tape::Tape;

use crate::eval::Scratch;
use crate::projcheck::{check_project, CheckOpts};
use crate::props::common::{project_case, std_classes};

const LOCS: [&str; 4] = ["en", "fr", "de", "es"];

fn text(s: &str) -> Vec<Piece> {
    vec![Piece::Text(s.to_string())]
}

fn var(name: &str) -> Piece {
    Piece::Var {
        name: name.to_string(),
        ws: [" ".into(), " ".into()],
        fmt: None,
    }
}

/// value of the given kind, tagged with the locale that wrote it
fn value_of(kind: usize, loc: &str) -> Value {
    match kind {
        0 => Value::Str(text(&format!("plain@{loc}"))),
        1 => Value::Str(vec![Piece::Text(format!("hi@{loc} ")), var("name"), Piece::Text("!".into())]),
        2 => Value::Range(RangeDecl {
            ty: RangeTy::I32,
            ty_written: false,
            branches: vec![
                Branch {
                    specs: vec![CountSpec::Exact {
                        v: Num::Int(0),
                        as_number: false,
                    }],
                    body: text(&format!("none@{loc}")),
                    syntax: 0,
                    fallback_spelling: 0,
                    ws: 0,
                },
                Branch {
                    specs: vec![],
                    body: vec![Piece::Text(format!("many@{loc} ")), var("count")],
                    syntax: 0,
                    fallback_spelling: 1,
                    ws: 0,
                },
            ],
        }),
        3 => Value::Plural(PluralDecl {
            ordinal: false,
            forms: vec![
                (Form::One, text(&format!("one@{loc}"))),
                (Form::Other, vec![var("count"), Piece::Text(format!(" others@{loc}"))]),
            ],
        }),
        _ => unreachable!(),
    }
}

/// presence: 0 defined, 1 null, 2 absent
fn build(map: [usize; 3], presence: [usize; 3], kind: usize) -> Project {
    let locales: Vec<String> = LOCS.iter().map(|s| s.to_string()).collect();
    let mut inherits = BTreeMap::new();
    for (i, m) in map.iter().enumerate() {
        if *m > 0 {
            inherits.insert(LOCS[i + 1].to_string(), LOCS[*m - 1].to_string());
        }
    }
    let mut files = BTreeMap::new();
    for (li, loc) in LOCS.iter().enumerate() {
        let pres = if li == 0 { 0 } else { presence[li - 1] };
        let mut obj: Obj = vec![("ctl".to_string(), Value::Str(text(&format!("ctl@{loc}"))))];
        match kind {
            0..=3 => match pres {
                0 => obj.push(("k".into(), value_of(kind, loc))),
                1 => obj.push(("k".into(), Value::Null)),
                _ => {}
            },
            4 => {
                // leaf inside a group that every locale has
                let mut g: Obj = vec![("stay".into(), Value::Str(text(&format!("stay@{loc}"))))];
                match pres {
                    0 => g.push(("leaf".into(), value_of(1, loc))),
                    1 => g.push(("leaf".into(), Value::Null)),
                    _ => {}
                }
                obj.push(("g".into(), Value::Sub(g)));
            }
            _ => {
                // the whole group is defined / null / absent
                match pres {
                    0 => obj.push((
                        "g".into(),
                        Value::Sub(vec![
                            ("leaf".into(), value_of(1, loc)),
                            ("deep".into(), Value::Sub(vec![("x".into(), value_of(0, loc))])),
                        ]),
                    )),
                    1 => obj.push(("g".into(), Value::Null)),
                    _ => {}
                }
            }
        }
        files.insert((None, loc.to_string()), obj);
    }
    Project {
        locales,
        inherits,
        namespaces: None,
        locales_dir: "locales".into(),
        files,
    }
}

fn cfg() -> GenCfg {
    GenCfg {
        locales: (2, 6),
        p_namespaces: 20,
        keys: (1, 6),
        sub_depth: 2,
        w_kinds: [3, 4, 1, 1, 1, 3, 1],
        p_null: 22,
        p_absent: 22,
        p_kind_varies: 5,
        p_inherits: 70,
        max_pieces: 3,
        max_comp_depth: 2,
        fk_to_null: true,
        ..GenCfg::default()
    }
}

pub fn run(mut ctx: Ctx) -> ! {
    let scratch = Scratch::new("c03");
    let case = |t: &mut Tape| project_case(t, cfg(), CheckOpts::default(), &scratch, None, &|_, st| st.defaulted_hops2 > 0);
    if let Some(path) = ctx.replay.clone() {
        if vcommon::ctx::Ctx::replay_engine(&path).as_deref() == Some("l1-enum") {
            // enumerated case: detail carries (map, presence, kind)
            let v: serde_json::Value = serde_json::from_str(&std::fs::read_to_string(&path).unwrap_or_default()).unwrap_or_default();
            let get = |k: &str| -> Vec<usize> {
                v["detail"]["case"][k].as_array().map(|a| a.iter().map(|x| x.as_u64().unwrap_or(0) as usize).collect()).unwrap_or_default()
            };
            let (m, pr, kind) = (get("map"), get("presence"), v["detail"]["case"]["kind"].as_u64().unwrap_or(0) as usize);
            if m.len() == 3 && pr.len() == 3 {
                let r = enum_case([m[0], m[1], m[2]], [pr[0], pr[1], pr[2]], kind, &scratch);
                match r {
                    Ok(i) => ctx.record(i),
                    Err(f) => {
                        ctx.fail("l1-enum", None, &f);
                    }
                }
            }
        } else {
            ctx.replay_tape("l1", &path, case);
        }
    } else {
        // exhaustive: 125 inherits maps x 27 presence patterns x 6 value kinds
        let mut complete = true;
        'outer: for m in 0..125usize {
            let map = [m % 5, (m / 5) % 5, m / 25];
            for pr in 0..27usize {
                let presence = [pr % 3, (pr / 3) % 3, pr / 9];
                for kind in 0..6usize {
                    match enum_case(map, presence, kind, &scratch) {
                        Ok(i) => ctx.record(i),
                        Err(f) => {
                            if ctx.fail("l1-enum", None, &f) {
                                complete = false;
                                break 'outer;
                            }
                        }
                    }
                }
            }
        }
        ctx.set_exhaustive(complete);
        ctx.set_extra("exhaustive_domain", json!("4 locales: all 125 inherits maps {fr,de,es}->{none,en,fr,de,es} x all 27 presence patterns {defined,null,absent}^3 x 6 value kinds (string, interpolation, range, plural, leaf in a subkey group, whole subkey group)"));
        let cases = ctx.tier.scale(3000, 100000);
        ctx.run_tapes("l1", cases, 1000, case);
    }
    drop(scratch);
    ctx.finish(
        "part 1 (exhaustive, parser level): every inherits map x presence pattern x value kind for 4 locales; part 2 (random): \
         generated projects with 2-6 locales, heavy null/absent/inherits weights. For every (locale,key) the text evaluated from \
         the parser output and the DefaultedLocales grouping used by the code generator are compared with the model's visited-set \
         walk along `inherits`, then default. non-trivial = project where some (locale,key) is defaulted but not directly to the \
         default locale (>=2 hops, a cycle, or a chain ending at another locale); distinct = hash of the project",
        &["`exhaustive: true` refers to part 1 only (the enumerated 4-locale domain at parser level)"],
        20,
    )
}

fn enum_case(map: [usize; 3], presence: [usize; 3], kind: usize, scratch: &Scratch) -> CaseResult {
    let p = build(map, presence, kind);
    let mut t = Tape::new(vec![]);
    let opts = CheckOpts {
        assignments: 1,
        ..CheckOpts::default()
    };
    let st = check_project(&p, &opts, &scratch.0.join("e"), &mut t).map_err(|mut f| {
        f.detail["case"] = json!({"map": map, "presence": presence, "kind": kind});
        f
    })?;
    let pj = ser::project_to_json(&p);
    let mut classes = std_classes(&p, &st);
    classes.push(format!("enum-kind-{kind}"));
    Ok(CaseInfo {
        hash: hash_str(&format!("{map:?}{presence:?}{kind}")),
        nontrivial: st.defaulted_hops2 > 0,
        classes,
        sample: if map == [2, 3, 0] && presence == [1, 2, 0] { Some(json!({"enumerated": {"map": map, "presence": presence, "kind": kind}, "project": pj})) } else { None },
        observations: st.observations,
    })
}
