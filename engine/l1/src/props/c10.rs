//! C10 — results depend only on translation content, not on order, run or file format.

use std::path::Path;
use std::process::Command;

use serde_json::json;
use vcommon::ctx::{hash_str, CaseInfo, CaseResult, Ctx, Failure};
use vcommon::gen::{Gen, GenCfg};
use vcommon::model::*;
use vcommon::ser::{self, Format, Style};
use vcommon::tape::Tape;

use crate::eval::{self, Scratch};

pub fn cfg() -> GenCfg {
    GenCfg {
        locales: (1, 4),
        p_namespaces: 30,
        keys: (3, 12),
        sub_depth: 2,
        w_kinds: [3, 5, 2, 2, 2, 2, 3],
        p_null: 8,
        p_absent: 10,
        p_kind_varies: 10,
        p_inherits: 30,
        max_pieces: 5,
        max_comp_depth: 3,
        p_surplus: 40,
        fk_to_null: true,
        hyphen_keys: true,
        hyphen_vars: true,
        ..GenCfg::default()
    }
}

fn fail(sig: &str, detail: serde_json::Value) -> Failure {
    Failure {
        signature: sig.into(),
        detail,
    }
}

/// numbers that the three formats all read with the same text: integers within i64
fn clamp_literals(o: &mut Obj) {
    for (_, v) in o.iter_mut() {
        match v {
            Value::U(u) if *u > i64::MAX as u64 => *u = (*u) >> 2,
            Value::Sub(inner) => clamp_literals(inner),
            Value::Range(r) => {
                // exact counts above i64::MAX are written as strings (json5 has no u64 numbers)
                for b in r.branches.iter_mut() {
                    for s in b.specs.iter_mut() {
                        if let CountSpec::Exact { v: Num::Int(i), as_number } = s {
                            if *i > i64::MAX as i128 {
                                *as_number = false;
                            }
                        }
                    }
                }
            }
            _ => {}
        }
    }
}

fn first_diff(a: &str, b: &str) -> serde_json::Value {
    let la: Vec<&str> = a.lines().collect();
    let lb: Vec<&str> = b.lines().collect();
    for i in 0..la.len().max(lb.len()) {
        let x = la.get(i).copied().unwrap_or("<eof>");
        let y = lb.get(i).copied().unwrap_or("<eof>");
        if x != y {
            let cut = |s: &str| s.chars().take(600).collect::<String>();
            return json!({"line": i + 1, "a": cut(x), "b": cut(y)});
        }
    }
    json!(null)
}

fn spawn_dump(bin: &Path, mode: &str, dir: &Path) -> Result<String, String> {
    let out = Command::new(bin).arg(mode).arg(dir).output().map_err(|e| format!("spawn {bin:?}: {e}"))?;
    if !out.status.success() {
        return Err(format!("{bin:?} {mode} exited with {:?}: {}", out.status, String::from_utf8_lossy(&out.stderr)));
    }
    String::from_utf8(out.stdout).map_err(|e| e.to_string())
}

pub struct Bins {
    pub json: std::path::PathBuf,
    pub yaml: std::path::PathBuf,
    pub json5: std::path::PathBuf,
}

pub fn case(t: &mut Tape, scratch: &Scratch, bins: &Bins) -> CaseResult {
    let style_seed = t.u64();
    let perm_seeds: Vec<u64> = (0..3).map(|_| t.u64() | 1).collect();
    let mut g = Gen::new(t, cfg());
    let mut p = g.project();
    for (_, o) in p.files.iter_mut() {
        clamp_literals(o);
    }
    // one project in six carries two independent reference errors (dangling targets or a cycle) in
    // one file: the reported diagnostic must not depend on where the keys sit in the file
    let mut two_errors = false;
    if t.chance(1, 6) {
        let keys: Vec<(Option<String>, String)> = p.files.keys().cloned().collect();
        let fk = keys[t.pick(keys.len())].clone();
        let ns = fk.0.clone();
        let mk = |to: &str| {
            Piece::Fk(Fk {
                ns: ns.clone(),
                path: vec![to.to_string()],
                args: vec![],
                ws: Default::default(),
            })
        };
        let pair: [(String, Value); 2] = if t.coin() {
            [("zz_bad_ref".to_string(), Value::Str(vec![mk("nope_a")])), ("aa_bad_ref".to_string(), Value::Str(vec![Piece::Text("x".into()), mk("nope_b")]))]
        } else {
            [("zz_cyc".to_string(), Value::Str(vec![mk("aa_cyc")])), ("aa_cyc".to_string(), Value::Str(vec![mk("zz_cyc")]))]
        };
        if let Some(o) = p.files.get_mut(&fk) {
            for e in pair {
                let pos = t.pick(o.len() + 1);
                o.insert(pos, e);
            }
            two_errors = true;
        }
    }
    let pj = ser::project_to_json(&p);
    let manifest = ser::manifest_text(&p, true);
    let dir = scratch.0.join("j");
    let style = Style {
        format: Format::Json,
        seed: style_seed,
        escapes: 1,
    };
    let io = |e: std::io::Error| fail("harness-io", json!({"e": e.to_string()}));
    ser::write_project_with(&p, &dir, &style, &manifest, &|_, _| 0).map_err(io)?;
    let mut observations = 0u64;
    // (i) repeated runs in one process
    let a1 = eval::full_dump(&dir);
    let a2 = eval::full_dump(&dir);
    observations += 1;
    if a1 != a2 {
        return Err(fail("same-process-nondeterminism", json!({"diff": first_diff(&a1, &a2), "project": pj})));
    }
    let loaded_ok = !a1.starts_with("LOAD ERROR") && !a1.starts_with("LOAD PANIC");
    if a1.contains("PANIC") {
        return Err(fail("panic", json!({"dump_head": a1.lines().find(|l| l.contains("PANIC")), "project": pj})));
    }
    // (ii) permuted object-key order in every file
    let mut nonidentity = false;
    for ps in &perm_seeds {
        let psv = *ps;
        ser::write_project_with(&p, &dir, &style, &manifest, &move |ns, loc| {
            vcommon::tape::splitmix(psv ^ vcommon::tape::fnv1a(format!("{ns:?}{loc}").as_bytes())) | 1
        })
        .map_err(io)?;
        let b = eval::full_dump(&dir);
        observations += 1;
        nonidentity = true;
        if b != a1 {
            // a file that does not deserialize reports the first offending key in *file* order (serde
            // streams the file): only there may the message depend on the key order
            let deser = |d: &str| d.starts_with("LOAD ERROR: Parsing of file");
            if !loaded_ok && (deser(&a1) || deser(&b)) && b.starts_with("LOAD ERROR") && a1.starts_with("LOAD ERROR") {
                continue;
            }
            return Err(fail("key-order-dependence", json!({"diff": first_diff(&a1, &b), "project": pj})));
        }
    }
    // (iii) fresh processes (new HashMap seeds)
    for _ in 0..2 {
        let c = spawn_dump(&bins.json, "dump-full", &dir).map_err(|e| fail("harness-spawn", json!({"e": e})))?;
        observations += 1;
        if c != a1 && loaded_ok {
            return Err(fail("fresh-process-nondeterminism", json!({"diff": first_diff(&a1, &c), "project": pj})));
        }
    }
    // (iv) the same data as YAML and JSON5
    let n0 = eval::neutral_dump(&dir);
    let mut formats_ok = 0;
    for (fmt, bin, name) in [(Format::Yaml, &bins.yaml, "yaml"), (Format::Json5, &bins.json5, "json5")] {
        let d = scratch.0.join(name);
        let st = Style {
            format: fmt,
            seed: style_seed ^ 0x5555,
            escapes: 1,
        };
        let psv = perm_seeds[0];
        ser::write_project_with(&p, &d, &st, &manifest, &move |ns, loc| {
            vcommon::tape::splitmix(psv ^ vcommon::tape::fnv1a(format!("{ns:?}{loc}x").as_bytes())) | 1
        })
        .map_err(io)?;
        let n = spawn_dump(bin, "dump-neutral", &d).map_err(|e| fail("harness-spawn", json!({"e": e})))?;
        observations += 1;
        if n != n0 {
            let files: Vec<(String, String)> = p
                .files
                .keys()
                .map(|(ns, loc)| {
                    let path = match ns {
                        None => d.join(&p.locales_dir).join(format!("{loc}.{}", fmt.ext())),
                        Some(ns) => d.join(&p.locales_dir).join(loc).join(format!("{ns}.{}", fmt.ext())),
                    };
                    (path.display().to_string(), std::fs::read_to_string(&path).unwrap_or_default())
                })
                .collect();
            return Err(fail(
                &format!("format-dependence:{name}"),
                json!({"diff_json_vs_format": first_diff(&n0, &n), "format_files": files, "project": pj}),
            ));
        }
        formats_ok += 1;
    }
    let nkeys: usize = p.files.iter().filter(|((_, l), _)| l == p.default_locale()).map(|(_, o)| o.len()).sum();
    let has_fk = n0.len() > 0 && p.files.values().any(|o| o.iter().any(|(_, v)| vcommon::gen::value_contains_fk(v)));
    let has_plural = p.files.values().any(|o| o.iter().any(|(_, v)| matches!(v, Value::Plural(_))));
    let has_warning = n0.lines().skip_while(|l| *l != "warnings:").count() > 1;
    let mut classes = vec![];
    if !loaded_ok {
        classes.push("load-error".to_string());
    }
    if has_fk {
        classes.push("foreign-key".into());
    }
    if has_plural {
        classes.push("plural".into());
    }
    if has_warning {
        classes.push("has-warning".into());
    }
    if two_errors {
        classes.push("two-reference-errors-in-one-file".into());
    }
    if p.namespaces.is_some() {
        classes.push("namespaces".into());
    }
    if formats_ok == 2 {
        classes.push("three-formats-agree".into());
    }
    let txt = serde_json::to_string(&pj).unwrap_or_default();
    Ok(CaseInfo {
        hash: hash_str(&txt),
        nontrivial: loaded_ok && nkeys >= 8 && has_fk && has_plural && has_warning && nonidentity,
        classes,
        sample: Some(json!({"project": pj})),
        observations,
    })
}

/// call-history independence: the macro flavour (`parse_locales(false, ..)`) and the build-script flavour
/// (`parse_locales(true, ..)`) of the loader are called alternately on one thread; the first and the third call
/// must give the same outcome, and so must the second and the fourth. On a harness build whose formatter /
/// plural features are off the two flavours legitimately differ (error vs. Ok), which is what makes state that
/// leaks from one call into the next visible.
fn interleave_case(t: &mut Tape, scratch: &Scratch) -> CaseResult {
    let cfg = GenCfg {
        locales: (1, 3),
        keys: (2, 6),
        formatters: true,
        p_formatter: 40,
        fmt_no_zoned_time: true,
        w_kinds: [2, 6, 1, 1, 2, 1, 2],
        ..GenCfg::default()
    };
    let style_seed = t.u64();
    let p = {
        let mut g = vcommon::gen::Gen::new(t, cfg);
        g.project()
    };
    let dir = scratch.0.join("il");
    let style = Style {
        format: Format::Json,
        seed: style_seed,
        escapes: 1,
    };
    ser::write_project_with(&p, &dir, &style, &ser::manifest_text(&p, true), &|_, _| 0).map_err(|e| fail("harness-io", json!({"e": e.to_string()})))?;
    let outcome = |skip: bool| -> String {
        let d = dir.clone();
        match std::panic::catch_unwind(move || leptos_i18n_parser::parse_locales::parse_locales(skip, Some(d))) {
            Ok(Ok((bk, warnings, tracked))) => format!("OK {}", eval::dump_loaded(&eval::Loaded { bk, warnings: warnings.into_inner(), tracked })),
            Ok(Err(e)) => format!("ERR {e}"),
            Err(pn) => format!("PANIC {}", eval::panic_message(pn)),
        }
    };
    let a = outcome(false);
    let b = outcome(true);
    let c = outcome(false);
    let d = outcome(true);
    let pj = ser::project_to_json(&p);
    // what each flavour must say, whatever ran before: the build flavour accepts the (valid) project; the macro flavour
    // accepts it unless it uses a plural / formatter family whose feature is off in this harness build
    let sem = vcommon::sem::Sem::new(&p);
    let valid = vcommon::sem::expected_errors(&p, &sem).is_empty();
    let needed = vcommon::sem::needed_icu_options(&p, &sem);
    let enabled = |family: &str| match family {
        "plurals" => cfg!(feature = "plurals"),
        "number" => cfg!(feature = "format_nums"),
        "datetime" => cfg!(feature = "format_datetime"),
        "list" => cfg!(feature = "format_list"),
        "currency" => cfg!(feature = "format_currency"),
        _ => true,
    };
    let macro_must_reject = needed.iter().any(|f| !enabled(f));
    if valid {
        for (x, which, must_be_ok) in [(&a, "call 1: parse_locales(false)", !macro_must_reject), (&b, "call 2: parse_locales(true)", true), (&c, "call 3: parse_locales(false)", !macro_must_reject), (&d, "call 4: parse_locales(true)", true)] {
            let is_ok = x.starts_with("OK ");
            if is_ok != must_be_ok {
                return Err(fail(
                    "call-history-dependence",
                    json!({"which": which, "expected": if must_be_ok { "Ok (the project is valid for this flavour)" } else { "an error: the project uses a plural / formatter family whose cargo feature is off" },
                           "actual": x.chars().take(300).collect::<String>(), "families_needed": needed, "sequence": ["parse_locales(false)", "parse_locales(true)", "parse_locales(false)", "parse_locales(true)"], "project": pj}),
                ));
            }
        }
    }
    for (x, y, which) in [(&a, &c, "macro flavour (skip_icu_cfg = false): call 1 vs call 3"), (&b, &d, "build flavour (skip_icu_cfg = true): call 2 vs call 4")] {
        if x != y {
            return Err(fail(
                "call-history-dependence",
                json!({"which": which, "first_difference": first_diff(x, y), "sequence": ["parse_locales(false)", "parse_locales(true)", "parse_locales(false)", "parse_locales(true)"], "project": pj}),
            ));
        }
    }
    let differs = a != b;
    Ok(CaseInfo {
        hash: hash_str(&format!("il{pj}")),
        nontrivial: differs,
        classes: vec![if differs { "interleave: the two flavours give different outcomes (features off)".to_string() } else { "interleave: the two flavours agree".to_string() }],
        sample: None,
        observations: 4,
    })
}

pub fn run(mut ctx: Ctx) -> ! {
    if std::env::var("VERIF_C10_PART").as_deref() == Ok("interleave") {
        // the reduced-feature harness build runs only this part
        let scratch = Scratch::new("c10il");
        if let Some(path) = ctx.replay.clone() {
            ctx.replay_tape("l1-interleave", &path, |t| interleave_case(t, &scratch));
        } else {
            let cases = ctx.tier.scale(600, 20000);
            ctx.run_tapes("l1-interleave", cases, 1200, |t| interleave_case(t, &scratch));
        }
        drop(scratch);
        ctx.finish(
            "call-history independence on a harness build WITHOUT the plural / formatter features: generated projects with formatters and plurals are \
             loaded four times on one thread, alternating the macro flavour parse_locales(false, ..) (rejects what the features do not allow) and the \
             build-script flavour parse_locales(true, ..) (accepts it); call 1 == call 3 and call 2 == call 4 (keys, warnings, or the error text). \
             non-trivial = project on which the two flavours differ; distinct = project hash",
            &[],
            5,
        )
    }
    let scratch = Scratch::new("c10");
    let me = std::env::current_exe().unwrap_or_default();
    let dirp = me.parent().map(|p| p.to_path_buf()).unwrap_or_default();
    let bins = Bins {
        json: dirp.join("l1"),
        yaml: dirp.join("l1y"),
        json5: dirp.join("l1j5"),
    };
    for b in [&bins.json, &bins.yaml, &bins.json5] {
        if !b.exists() {
            eprintln!("harness error: helper binary {b:?} is missing (run through ./check)");
            std::process::exit(2);
        }
    }
    if let Some(path) = ctx.replay.clone() {
        if vcommon::ctx::Ctx::replay_engine(&path).as_deref() == Some("l1-interleave") {
            ctx.replay_tape("l1-interleave", &path, |t| interleave_case(t, &scratch));
        } else {
            ctx.replay_tape("l1", &path, |t| case(t, &scratch, &bins));
        }
    } else {
        ctx.shrink_iters = 300;
        let cases = ctx.tier.scale(700, 20000);
        ctx.run_tapes("l1", cases, 2000, |t| case(t, &scratch, &bins));
        let cases = ctx.tier.scale(200, 5000);
        ctx.run_tapes("l1-interleave", cases, 1200, |t| interleave_case(t, &scratch));
    }
    drop(scratch);
    ctx.finish(
        "generated projects (3-12 keys per file, references, plural groups, ranges, surplus / missing keys producing warnings). \
         metamorphic oracles: (i) two loads + in-process code generations in one process give byte-identical dumps of \
         BuildersKeys, warnings (order included) and token-stream text; (ii) 3 sampled permutations of the object-key order of \
         every file give the same dump; (iii) two fresh processes (new HashMap seeds) give the same dump; (iv) the same AST \
         printed as YAML and as JSON5 and loaded by the yaml / json5 builds gives the same key tree, members, diagnostics and \
         evaluated text under a fixed argument policy (numeric literal types excluded); one project in six carries two \
         independent reference errors in one file, whose reported diagnostic must be the same for every key order. non-trivial = loads, >=8 keys, >=1 `$t`, \
         >=1 plural group, >=1 warning, non-identity permutation; distinct = project hash",
        &[
            "integers above i64::MAX are excluded (json5 reads them as floats: a documented-type difference, not text)",
            "errors raised while deserializing a file name the first offending key in file order (serde streams): only those may depend on key order; across formats only the fact of rejection is compared",
        ],
        10,
    )
}
