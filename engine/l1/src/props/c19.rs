//! C19 — configuration is validated and normalised as documented.

use std::collections::{BTreeMap, BTreeSet};
use std::path::Path;

use serde_json::json;
use vcommon::ctx::{hash_str, CaseInfo, CaseResult, Ctx, Failure};
use vcommon::tape::Tape;

use crate::eval::{self, Scratch};

const LOCS: &[&str] = &["en", "fr", "de", "fr-CA", "en-US", "pt-PT", "ja"];
const NSS: &[&str] = &["common", "home", "ns1", "about"];

#[derive(Debug, Clone)]
struct Case {
    default: Option<String>,
    locales: Option<Vec<String>>,
    namespaces: Option<Vec<String>>,
    inherits: Vec<(String, String)>,
    /// 0 inline table, 1 dotted keys
    inherits_style: u8,
    locales_dir: Option<String>,
    translations_path: Option<String>,
    unknown_fields: Vec<(String, String)>,
    field_order: Vec<usize>,
    preamble: Vec<String>,
    trailer: Vec<String>,
    comments: bool,
    literal_strings: bool,
    multiline_arrays: bool,
    /// files (relative to the locales dir) that exist although they are not needed
    decoys: Vec<String>,
    /// index of a needed file that is deliberately missing
    missing_file: Option<usize>,
}

#[derive(Debug, Clone, PartialEq)]
enum Expect {
    Ok,
    Err(&'static str),
    Either(&'static str),
}

const PREAMBLES: &[&str] = &[
    "[package]\nname = \"app\"\nversion = \"0.1.0\"\nedition = \"2021\"\n",
    "[lib]\ncrate-type = [\"cdylib\", \"rlib\"]\n",
    "[dependencies]\nleptos = { version = \"0.7\", features = [\"csr\"] }\nserde = \"1\"\n",
    "[package.metadata.other-tool]\ndefault = \"zz\"\nlocales = [\"zz\"]\n",
    "# a comment mentioning locales = [\"xx\"] and default = \"xx\"\n",
    "[dependencies.leptos_i18n]\nversion = \"0.5\"\nfeatures = [\"json_files\"]\n",
    // the section header as text: in a commented-out former section, in a comment sentence, in a string
    "# [package.metadata.leptos-i18n]\n# default = \"zz\"\n# locales = [\"zz\"]\n",
    "# the translations are configured in [package.metadata.leptos-i18n] below\n",
    "[package.metadata.docs]\nnote = \"see the [package.metadata.leptos-i18n] table\"\n",
];

const TRAILERS: &[&str] = &[
    "[features]\ndefault = [\"hydrate\"]\nhydrate = []\n",
    "[dev-dependencies]\ntempfile = \"3\"\n",
    "[profile.release]\nopt-level = \"z\"\nlto = true\n",
    "[[bin]]\nname = \"tool\"\npath = \"src/bin/tool.rs\"\n",
    "[package.metadata.leptos]\noutput-name = \"app\"\nsite-root = \"target/site\"\n",
    "[workspace]\nmembers = []\n",
];

fn gen_case(t: &mut Tape) -> Case {
    let nloc = t.range(1, 4);
    let perm = t.permutation(LOCS.len());
    let pool: Vec<String> = perm.iter().take(nloc + 1).map(|i| LOCS[*i].to_string()).collect();
    let default = pool[0].clone();
    // locale list: the others, the default at a random position or left out, maybe a duplicate
    let mut locales: Vec<String> = pool[1..].to_vec();
    let default_listed = !t.chance(1, 3);
    if default_listed {
        let pos = t.pick(locales.len() + 1);
        locales.insert(pos, default.clone());
    }
    if t.chance(1, 10) && !locales.is_empty() {
        let d = locales[t.pick(locales.len())].clone();
        let pos = t.pick(locales.len() + 1);
        locales.insert(pos, d);
    }
    if t.chance(1, 25) {
        // the default named twice (once listed, or listed twice)
        locales.push(default.clone());
    }
    let namespaces = if t.chance(1, 3) {
        let n = t.range(1, 3);
        let perm = t.permutation(NSS.len());
        let mut v: Vec<String> = perm.iter().take(n).map(|i| NSS[*i].to_string()).collect();
        if t.chance(1, 8) {
            let d = v[t.pick(v.len())].clone();
            v.push(d);
        }
        Some(v)
    } else {
        None
    };
    let mut inherits = vec![];
    if t.chance(1, 2) {
        let n = t.range(1, 2);
        for _ in 0..n {
            let universe: Vec<String> = pool.iter().cloned().chain(["zz".to_string()]).collect();
            // mostly valid entries
            let k = if t.chance(1, 8) { universe[t.pick(universe.len())].clone() } else { pool[1 + t.pick(pool.len() - 1)].clone() };
            let v = if t.chance(1, 8) { universe[t.pick(universe.len())].clone() } else { pool[t.pick(pool.len())].clone() };
            if !inherits.iter().any(|(kk, _): &(String, String)| *kk == k) {
                inherits.push((k, v));
            }
        }
    }
    let locales_dir = match t.weighted(&[5, 1, 1, 1, 1]) {
        0 => None,
        1 => Some("./locales".to_string()),
        2 => Some("i18n/data".to_string()),
        3 => Some("./path/to/mylocales".to_string()),
        _ => Some("locales/".to_string()),
    };
    let translations_path = if t.chance(1, 6) { Some("i18n/{locale}.json".to_string()) } else { None };
    let mut unknown_fields = vec![];
    if t.chance(1, 3) {
        unknown_fields.push(("some-unknown".to_string(), "\"value\"".to_string()));
    }
    if t.chance(1, 6) {
        unknown_fields.push(("defaults".to_string(), "[\"en\"]".to_string()));
    }
    if t.chance(1, 8) {
        unknown_fields.push(("locale".to_string(), "{ a = 1 }".to_string()));
    }
    if t.chance(1, 6) {
        // values of unknown fields that span several lines; continuation lines may start with `[`, `"`, `#` or `]`
        let v = [
            "[\n[1, 2],\n[3, 4],\n]",
            "\"\"\"\nfirst line\n[draft] second line\n[package.metadata.leptos-i18n]\ndefault = \\\"zz\\\"\n\"\"\"",
            "'''\n[home](/)\n[[bin]]\n'''",
            "[\n  \"a\",\n# a comment inside the array\n  \"b\",\n]",
            "[\r\n[\"x\"],\r\n]",
        ][t.pick(5)];
        unknown_fields.push((["notes", "matrix", "extra-data"][t.pick(3)].to_string(), v.to_string()));
    }
    let missing_default = t.chance(1, 20);
    let missing_locales = t.chance(1, 20);
    let np = t.range(0, 3);
    let pp = t.permutation(PREAMBLES.len());
    let preamble = pp.iter().take(np).map(|i| PREAMBLES[*i].to_string()).collect();
    let nt = t.range(0, 3);
    let tp = t.permutation(TRAILERS.len());
    let trailer = tp.iter().take(nt).map(|i| TRAILERS[*i].to_string()).collect();
    let mut decoys = vec![];
    if t.chance(1, 2) {
        for d in ["en.yaml", "en.json5", "fr.txt", "zz.json", "en.json.bak", "README.md", "common.json"] {
            if t.chance(1, 3) {
                decoys.push(d.to_string());
            }
        }
    }
    let missing_file = if t.chance(1, 10) { Some(t.pick(8)) } else { None };
    Case {
        default: if missing_default { None } else { Some(default) },
        locales: if missing_locales { None } else { Some(locales) },
        namespaces,
        inherits,
        inherits_style: t.pick(2) as u8,
        locales_dir,
        translations_path,
        unknown_fields,
        field_order: t.permutation(8),
        preamble,
        trailer,
        comments: t.coin(),
        literal_strings: t.chance(1, 4),
        multiline_arrays: t.chance(1, 3),
        decoys,
        missing_file,
    }
}

fn tstr(c: &Case, s: &str) -> String {
    if c.literal_strings {
        format!("'{}'", s)
    } else {
        format!("\"{}\"", s)
    }
}

fn tarr(c: &Case, v: &[String]) -> String {
    let items: Vec<String> = v.iter().map(|s| tstr(c, s)).collect();
    if c.multiline_arrays && !items.is_empty() {
        format!("[\n  {},\n]", items.join(",\n  "))
    } else {
        format!("[{}]", items.join(", "))
    }
}

fn bare_or_quoted(k: &str) -> String {
    if k.chars().all(|c| c.is_ascii_alphanumeric() || c == '-' || c == '_') {
        k.to_string()
    } else {
        format!("\"{}\"", k)
    }
}

fn manifest(c: &Case) -> String {
    let mut s = String::new();
    for p in &c.preamble {
        s.push_str(p);
        s.push('\n');
    }
    s.push_str("[package.metadata.leptos-i18n]\n");
    let mut fields: Vec<String> = vec![];
    if let Some(d) = &c.default {
        fields.push(format!("default = {}", tstr(c, d)));
    }
    if let Some(l) = &c.locales {
        fields.push(format!("locales = {}", tarr(c, l)));
    }
    if let Some(n) = &c.namespaces {
        fields.push(format!("namespaces = {}", tarr(c, n)));
    }
    if let Some(d) = &c.locales_dir {
        fields.push(format!("locales-dir = {}", tstr(c, d)));
    }
    if let Some(d) = &c.translations_path {
        fields.push(format!("translations-path = {}", tstr(c, d)));
    }
    if !c.inherits.is_empty() {
        if c.inherits_style == 0 {
            let v: Vec<String> = c.inherits.iter().map(|(k, v)| format!("{} = {}", bare_or_quoted(k), tstr(c, v))).collect();
            fields.push(format!("inherits = {{ {} }}", v.join(", ")));
        } else {
            let v: Vec<String> = c.inherits.iter().map(|(k, v)| format!("inherits.{} = {}", bare_or_quoted(k), tstr(c, v))).collect();
            fields.push(v.join("\n"));
        }
    }
    for (k, v) in &c.unknown_fields {
        fields.push(format!("{} = {}", k, v));
    }
    // order
    let mut ordered: Vec<(usize, String)> = fields.into_iter().enumerate().map(|(i, f)| (c.field_order.get(i).copied().unwrap_or(i), f)).collect();
    ordered.sort();
    for (_, f) in ordered {
        if c.comments {
            s.push_str("# setting\n");
        }
        s.push_str(&f);
        if c.comments {
            s.push_str(" # trailing comment");
        }
        s.push('\n');
    }
    for p in &c.trailer {
        s.push('\n');
        s.push_str(p);
    }
    s
}

/// normalised view of what the configuration means; Err = must be rejected
struct Meaning {
    default: String,
    others: BTreeSet<String>,
    locales_dir: String,
    namespaces: Option<Vec<String>>,
    inherits: BTreeMap<String, String>,
}

fn expect(c: &Case) -> (Expect, Option<Meaning>) {
    let Some(default) = c.default.clone() else { return (Expect::Err("missing default"), None) };
    let Some(listed) = c.locales.clone() else { return (Expect::Err("missing locales"), None) };
    let mut all = listed.clone();
    if !all.contains(&default) {
        all.push(default.clone());
    }
    let set: BTreeSet<String> = all.iter().cloned().collect();
    if set.len() != all.len() {
        return (Expect::Err("duplicate locales"), None);
    }
    if let Some(ns) = &c.namespaces {
        let s: BTreeSet<&String> = ns.iter().collect();
        if s.len() != ns.len() {
            return (Expect::Err("duplicate namespaces"), None);
        }
    }
    let mut either = None;
    for (k, v) in &c.inherits {
        if *k == default {
            return (Expect::Err("default locale inherits"), None);
        }
        if !set.contains(k) || !set.contains(v) {
            return (Expect::Err("inherits names an unknown locale"), None);
        }
        if !listed.contains(v) {
            // the default locale was not listed but is named as a target: it *is* part of the
            // locale list by the first clause; the code rejects it as unknown -> not asserted
            either = Some("unlisted default named in inherits");
        }
    }
    let m = Meaning {
        default: default.clone(),
        others: set.iter().filter(|l| **l != default).cloned().collect(),
        locales_dir: c.locales_dir.clone().unwrap_or_else(|| "locales".to_string()),
        namespaces: c.namespaces.clone(),
        inherits: c.inherits.iter().cloned().collect(),
    };
    match either {
        Some(e) => (Expect::Either(e), Some(m)),
        None => (Expect::Ok, Some(m)),
    }
}

fn needed_files(m: &Meaning, order: &[String]) -> Vec<String> {
    let mut v = vec![];
    match &m.namespaces {
        None => {
            for l in order {
                v.push(format!("{}.json", l));
            }
        }
        Some(ns) => {
            for n in ns {
                for l in order {
                    v.push(format!("{}/{}.json", l, n));
                }
            }
        }
    }
    v
}

fn fail(sig: &str, detail: serde_json::Value) -> Failure {
    Failure {
        signature: sig.into(),
        detail,
    }
}

fn norm_path(p: &str) -> String {
    // compare paths component-wise ("./x" == "x", "x//y" == "x/y")
    Path::new(p).components().filter(|c| !matches!(c, std::path::Component::CurDir)).map(|c| c.as_os_str().to_string_lossy().to_string()).collect::<Vec<_>>().join("/")
}

pub fn case(t: &mut Tape, scratch: &Scratch) -> CaseResult {
    let c = gen_case(t);
    let (exp, meaning) = expect(&c);
    let man = manifest(&c);
    // the project directory changes from case to case (4 directories in turn), and half of the cases reach it through
    // the CARGO_MANIFEST_DIR environment variable (as the macro and `TranslationsInfos::parse()` do) instead of an
    // explicit path: a later project must not be answered from an earlier one
    let hm = vcommon::ctx::hash_str(&man);
    let dir = scratch.0.join(format!("cfg{}", hm % 4));
    let via_env = (hm / 4) % 2 == 0;
    let _ = std::fs::remove_dir_all(&dir);
    std::fs::create_dir_all(&dir).map_err(|e| fail("harness-io", json!({"e": e.to_string()})))?;
    std::fs::write(dir.join("Cargo.toml"), &man).map_err(|e| fail("harness-io", json!({"e": e.to_string()})))?;
    let mut missing: Option<String> = None;
    let mut needed: Vec<String> = vec![];
    if meaning.is_none() {
        // a configuration that must be rejected still gets every file it could possibly ask for, so
        // that the configuration itself is the only possible reason for the rejection
        let ldir = dir.join(c.locales_dir.clone().unwrap_or_else(|| "locales".to_string()));
        let mut locs: Vec<String> = c.locales.clone().unwrap_or_default();
        locs.extend(c.default.clone());
        locs.extend(LOCS.iter().map(|s| s.to_string()));
        for l in &locs {
            let _ = std::fs::create_dir_all(ldir.join(l));
            let _ = std::fs::write(ldir.join(format!("{l}.json")), "{\"k\": \"v\"}");
            for n in NSS {
                let _ = std::fs::write(ldir.join(l).join(format!("{n}.json")), "{\"k\": \"v\"}");
            }
        }
    }
    let mut symlinked = false;
    if let Some(m) = &meaning {
        let ldir = dir.join(&m.locales_dir);
        let _ = std::fs::create_dir_all(&ldir);
        let mut order = vec![m.default.clone()];
        order.extend(m.others.iter().cloned());
        needed = needed_files(m, &order);
        for (i, f) in needed.iter().enumerate() {
            if c.missing_file.map(|x| x % needed.len()) == Some(i) {
                missing = Some(f.clone());
                continue;
            }
            let p = ldir.join(f);
            if let Some(parent) = p.parent() {
                let _ = std::fs::create_dir_all(parent);
            }
            // one configuration in five: one of the designated files is a symbolic link to a file kept elsewhere
            let h = vcommon::ctx::hash_str(&man);
            if h % 5 == 0 && (h / 5) as usize % needed.len() == i {
                let shared = dir.join(format!("shared_translation_{i}.json"));
                let _ = std::fs::write(&shared, "{\"k\": \"v\"}");
                if std::os::unix::fs::symlink(&shared, &p).is_ok() {
                    symlinked = true;
                    continue;
                }
            }
            let _ = std::fs::write(&p, "{\"k\": \"v\"}");
        }
        for d in &c.decoys {
            let p = ldir.join(d);
            if !needed.contains(d) && !p.exists() {
                let _ = std::fs::write(&p, "this is not a translation file {{{");
            }
        }
    }
    let d2 = dir.clone();
    let r = std::panic::catch_unwind(move || {
        if via_env {
            std::env::set_var("CARGO_MANIFEST_DIR", &d2);
            leptos_i18n_parser::parse_locales::parse_locales_raw(false, None)
        } else {
            leptos_i18n_parser::parse_locales::parse_locales_raw(false, Some(d2))
        }
    });
    let detail = |extra: serde_json::Value| json!({"manifest": man, "case": format!("{:?}", c), "extra": extra});
    let r = match r {
        Err(p) => return Err(fail("panic", detail(json!({"panic": eval::panic_message(p), "at": eval::last_panic_loc()})))),
        Ok(r) => r,
    };
    let exp2 = if missing.is_some() && matches!(exp, Expect::Ok | Expect::Either(_)) {
        if matches!(exp, Expect::Ok) {
            Expect::Err("missing locale file")
        } else {
            Expect::Either("missing file + unlisted default")
        }
    } else {
        exp.clone()
    };
    let mut classes: Vec<String> = vec![];
    match (&r, &exp2) {
        (Err(e), Expect::Err(why)) => {
            let msg = e.to_string();
            if msg.trim().is_empty() {
                return Err(fail("empty-error-message", detail(json!({"expected": why}))));
            }
            if let (Some(mf), true) = (&missing, *why == "missing locale file") {
                let stem = mf.rsplit('/').next().unwrap_or(mf);
                if !msg.contains(stem) {
                    return Err(fail("missing-file-error-does-not-name-file", detail(json!({"error": msg, "file": mf}))));
                }
            }
            classes.push(format!("rejected:{why}"));
        }
        (Ok(_), Expect::Err(why)) => {
            return Err(fail(&format!("accepted-invalid-config:{}", why.replace(' ', "-")), detail(json!({"expected_error": why}))));
        }
        (Err(e), Expect::Ok) => {
            return Err(fail("rejected-valid-config", detail(json!({"error": e.to_string()}))));
        }
        (Err(_), Expect::Either(w)) => classes.push(format!("either-rejected:{w}")),
        (Ok(_), Expect::Either(w)) => classes.push(format!("either-accepted:{w}")),
        (Ok(_), Expect::Ok) => {}
    }
    let mut observations = 1;
    if let (Ok((_, cfg, _, _, tracked)), Some(m)) = (&r, &meaning) {
        // normalisation
        let got_locales: Vec<String> = cfg.locales.iter().map(|k| k.name.to_string()).collect();
        let got_set: BTreeSet<String> = got_locales.iter().skip(1).cloned().collect();
        if &*cfg.default.name != m.default.as_str() || got_locales.first() != Some(&m.default) || got_set != m.others || got_locales.len() != m.others.len() + 1 {
            return Err(fail("locale-list-not-normalised", detail(json!({"locales": got_locales, "default": &*cfg.default.name}))));
        }
        let got_ns: Option<Vec<String>> = cfg.name_spaces.as_ref().map(|v| v.iter().map(|k| k.name.to_string()).collect());
        if got_ns != m.namespaces {
            return Err(fail("namespaces-mismatch", detail(json!({"got": got_ns}))));
        }
        if norm_path(&cfg.locales_dir) != norm_path(&m.locales_dir) {
            return Err(fail("locales-dir-mismatch", detail(json!({"got": &*cfg.locales_dir}))));
        }
        let got_inh: BTreeMap<String, String> = cfg.extensions.iter().map(|(k, v)| (k.name.to_string(), v.name.to_string())).collect();
        if got_inh != m.inherits {
            return Err(fail("inherits-mismatch", detail(json!({"got": got_inh}))));
        }
        if cfg.translations_uri != c.translations_path {
            return Err(fail("translations-path-mismatch", detail(json!({"got": cfg.translations_uri}))));
        }
        // exactly the needed files were read (compare as sets of normalised relative paths)
        let base = dir.join(&m.locales_dir);
        let base_s = norm_path(&base.to_string_lossy());
        let got_files: BTreeSet<String> = tracked
            .iter()
            .map(|p| {
                let n = norm_path(p);
                n.strip_prefix(&format!("{}/", base_s)).map(|s| s.to_string()).unwrap_or(n)
            })
            .collect();
        let exp_files: BTreeSet<String> = needed.iter().cloned().collect();
        if got_files != exp_files || tracked.len() != needed.len() {
            return Err(fail("files-read-mismatch", detail(json!({"read": tracked, "expected": needed}))));
        }
        observations += 6;
    }
    let mut features = 0;
    if let (Some(d), Some(l)) = (&c.default, &c.locales) {
        if !l.contains(d) || l.first() != Some(d) {
            features += 1;
            classes.push("default-unlisted-or-not-first".into());
        }
    }
    if !c.inherits.is_empty() {
        features += 1;
        classes.push("inherits".into());
    }
    if c.namespaces.is_some() {
        features += 1;
        classes.push("namespaces".into());
    }
    if c.locales_dir.is_some() {
        features += 1;
        classes.push("custom-dir".into());
    }
    if !c.preamble.is_empty() || !c.trailer.is_empty() {
        features += 1;
        classes.push("surrounding-sections".into());
    }
    if !c.trailer.is_empty() {
        classes.push("trailing-sections".into());
    }
    if symlinked {
        classes.push("designated-file-is-a-symbolic-link".into());
    }
    if !c.decoys.is_empty() {
        classes.push("decoy-files".into());
    }
    if r.is_ok() {
        classes.push("accepted".into());
    }
    Ok(CaseInfo {
        hash: hash_str(&format!("{:?}", c)),
        nontrivial: features >= 2,
        classes,
        sample: Some(json!({"manifest": man, "expected": format!("{:?}", exp2), "missing_file": missing, "decoys": c.decoys})),
        observations,
    })
}

// ------------------------------------------------------------------------------------------
// which file is read when several candidates exist (every format build)

/// the extensions of the format this harness build was compiled for
fn format_exts() -> &'static [&'static str] {
    if cfg!(feature = "yaml_files") {
        &["yaml", "yml"]
    } else if cfg!(feature = "json5_files") {
        &["json5"]
    } else {
        &["json"]
    }
}

/// endings that must never be read in any build of this format (other formats, case variants, backups)
fn decoy_endings() -> Vec<&'static str> {
    let mut v = vec!["YAML", "Yml", "JSON", "yaml.bak", "yml~", "json.orig", "txt", "toml", "yaml.yml.old"];
    for e in ["json", "json5", "yaml", "yml"] {
        if !format_exts().contains(&e) {
            v.push(e);
        }
    }
    v
}

/// one layout: per unit (namespace, locale) the extensions under which a valid file exists and the decoys next to it
#[derive(Debug, Clone)]
struct Layout {
    dir_name: String,
    locales: Vec<String>,
    namespaces: Option<Vec<String>>,
    units: Vec<(Option<String>, String, Vec<&'static str>, Vec<&'static str>)>,
}

impl Layout {
    fn rel(ns: &Option<String>, loc: &str, ext: &str) -> String {
        match ns {
            Some(n) => format!("{loc}/{n}.{ext}"),
            None => format!("{loc}.{ext}"),
        }
    }

    fn write(&self, dir: &Path) -> std::io::Result<()> {
        let _ = std::fs::remove_dir_all(dir);
        let ldir = dir.join(&self.dir_name);
        std::fs::create_dir_all(&ldir)?;
        let mut man = String::from("[package]\nname = \"app\"\nversion = \"0.1.0\"\nedition = \"2021\"\n\n[package.metadata.leptos-i18n]\n");
        man.push_str(&format!("default = \"{}\"\nlocales = [{}]\n", self.locales[0], self.locales.iter().map(|l| format!("\"{l}\"")).collect::<Vec<_>>().join(", ")));
        if let Some(ns) = &self.namespaces {
            man.push_str(&format!("namespaces = [{}]\n", ns.iter().map(|l| format!("\"{l}\"")).collect::<Vec<_>>().join(", ")));
        }
        if self.dir_name != "locales" {
            man.push_str(&format!("locales-dir = \"./{}\"\n", self.dir_name));
        }
        std::fs::write(dir.join("Cargo.toml"), man)?;
        for (ns, loc, exts, decoys) in &self.units {
            if ns.is_some() {
                std::fs::create_dir_all(ldir.join(loc))?;
            }
            for e in exts {
                let rel = Self::rel(ns, loc, e);
                // the same text is valid JSON, JSON5 and YAML; the value names the file it was written to
                std::fs::write(ldir.join(&rel), format!("{{\"k\": \"{rel}\"}}"))?;
            }
            for e in decoys {
                std::fs::write(ldir.join(Self::rel(ns, loc, e)), "]]] not a translation file {{{ : - \"")?;
            }
        }
        Ok(())
    }
}

/// load a layout; returns per unit the relative path of the file that was read
fn observe_layout(l: &Layout, dir: &Path) -> Result<Vec<String>, Failure> {
    let detail = |extra: serde_json::Value| json!({"layout": format!("{:?}", l), "format_extensions": format_exts(), "extra": extra});
    l.write(dir).map_err(|e| fail("harness-io", json!({"e": e.to_string()})))?;
    let loaded = match eval::load(dir) {
        eval::LoadOutcome::Ok(x) => x,
        eval::LoadOutcome::Err(e) => return Err(fail("ext-rejected-valid-layout", detail(json!({"error": e.to_string()})))),
        eval::LoadOutcome::Panic(m) => return Err(fail("panic", detail(json!({"panic": m})))),
    };
    let base = norm_path(&dir.join(&l.dir_name).to_string_lossy());
    let tracked: Vec<String> = loaded
        .tracked
        .iter()
        .map(|p| {
            let n = norm_path(p);
            n.strip_prefix(&format!("{base}/")).map(|s| s.to_string()).unwrap_or(n)
        })
        .collect();
    let mut chosen = vec![];
    for (ns, loc, exts, _) in &l.units {
        let candidates: Vec<String> = exts.iter().map(|e| Layout::rel(ns, loc, e)).collect();
        let read: Vec<&String> = tracked.iter().filter(|p| candidates.contains(p)).collect();
        if read.len() != 1 {
            return Err(fail("ext-tracked-mismatch", detail(json!({"unit": Layout::rel(ns, loc, "*"), "candidates": candidates, "tracked": tracked}))));
        }
        // the content comes from the file reported as read
        let got = loaded.eval(ns.as_deref(), loc, &["k".to_string()], &Default::default()).map(|t| vcommon::model::tree_to_string(&t));
        if got.as_ref().ok() != Some(read[0]) {
            return Err(fail("ext-content-not-from-tracked-file", detail(json!({"unit": Layout::rel(ns, loc, "*"), "tracked": read[0], "content": format!("{:?}", got)}))));
        }
        chosen.push(read[0].clone());
    }
    if tracked.len() != l.units.len() {
        return Err(fail("ext-tracked-mismatch", detail(json!({"tracked": tracked, "units": l.units.len()}))));
    }
    Ok(chosen)
}

/// layout A, then layout B that differs from A only in the files of ONE unit: every other unit must be read from the
/// same file as before (the extension found for one file says nothing about another one)
pub fn ext_case(t: &mut Tape, scratch: &Scratch) -> CaseResult {
    let exts = format_exts();
    let decoys = decoy_endings();
    let nloc = t.range(2, 4);
    let order = t.permutation(4);
    let locales: Vec<String> = order.iter().take(nloc).map(|i| ["en", "fr", "de", "it"][*i].to_string()).collect();
    let namespaces: Option<Vec<String>> = match t.pick(3) {
        0 => None,
        1 => Some(vec!["home".into()]),
        _ => Some(vec!["home".into(), "common".into()]),
    };
    let subset = |t: &mut Tape| -> Vec<&'static str> {
        if exts.len() == 1 {
            return exts.to_vec();
        }
        match t.pick(3) {
            0 => vec![exts[0]],
            1 => vec![exts[1]],
            _ => exts.to_vec(),
        }
    };
    let mut units = vec![];
    let ns_list: Vec<Option<String>> = match &namespaces {
        None => vec![None],
        Some(v) => v.iter().cloned().map(Some).collect(),
    };
    for ns in &ns_list {
        for loc in &locales {
            let e = subset(t);
            let mut d = vec![];
            for _ in 0..t.weighted(&[3, 2, 1]) {
                let x = decoys[t.pick(decoys.len())];
                if !d.contains(&x) {
                    d.push(x);
                }
            }
            units.push((ns.clone(), loc.clone(), e, d));
        }
    }
    let a = Layout { dir_name: ["locales", "i18n", "assets/tr"][t.pick(3)].to_string(), locales, namespaces, units };
    let chosen_a = observe_layout(&a, &scratch.0.join("extA"))?;
    let mut observations = 2 * a.units.len() as u64 + 1;
    let mut classes: Vec<String> = vec![format!("extensions={}", exts.len())];
    let several = a.units.iter().any(|u| u.2.len() > 1);
    if several {
        classes.push("unit-with-both-extensions".into());
    }
    if a.units.iter().any(|u| !u.3.is_empty()) {
        classes.push("decoy-files".into());
    }
    let mut changed_other = false;
    if exts.len() > 1 {
        let mut b = a.clone();
        let u = t.pick(b.units.len());
        let old = b.units[u].2.clone();
        let mut new = subset(t);
        if new == old {
            new = if old.len() == 1 { exts.to_vec() } else { vec![exts[t.pick(exts.len())]] };
        }
        b.units[u].2 = new;
        let chosen_b = observe_layout(&b, &scratch.0.join("extB"))?;
        observations += 2 * b.units.len() as u64 + 1;
        for i in 0..a.units.len() {
            if i != u && chosen_a[i] != chosen_b[i] {
                return Err(fail(
                    "ext-choice-depends-on-other-files",
                    json!({"layout_a": format!("{:?}", a), "layout_b": format!("{:?}", b), "unit": chosen_a[i], "read_in_b": chosen_b[i], "changed_unit": Layout::rel(&a.units[u].0, &a.units[u].1, "*")}),
                ));
            }
        }
        changed_other = true;
        classes.push("second-layout-differing-in-one-unit".into());
    }
    Ok(CaseInfo {
        hash: hash_str(&format!("{:?}", a)),
        nontrivial: several || changed_other || a.units.iter().any(|u| !u.3.is_empty()),
        classes,
        sample: Some(json!({"layout": format!("{:?}", a), "read": chosen_a})),
        observations,
    })
}

fn run_ext(ctx: &mut Ctx) {
    let scratch = Scratch::new("c19ext");
    let cases = ctx.tier.scale(1500, 40000);
    ctx.run_tapes("l1-ext", cases, 200, |t| ext_case(t, &scratch));
    drop(scratch);
}

const EXT_WHAT: &str = "extension part (run in the JSON, the YAML and the JSON5 build of the harness): 2-4 locales, 0-2 namespaces, three locales-dir \
     spellings; per (namespace, locale) a valid file under a non-empty subset of the format's extensions (YAML: yaml / yml / both) plus \
     0-2 decoy files with the same stem and an ending of another format, another case or a backup suffix, holding text that parses in no \
     format. oracle: the project loads; exactly one candidate per unit is reported as read and nothing else; the value of the key is \
     the one written to the file reported as read; and for a second layout that differs only in the files of ONE unit every other unit \
     is read from the same file as before. Which of `x.yaml` / `x.yml` wins when both exist is not asserted. non-trivial = a unit \
     with both extensions, a decoy, or the second layout; distinct = hash of the layout";

pub fn run(mut ctx: Ctx) -> ! {
    if std::env::var("VERIF_C19_PART").as_deref() == Ok("ext") {
        // the YAML and JSON5 harness builds run only this part
        if let Some(path) = ctx.replay.clone() {
            let scratch = Scratch::new("c19ext");
            ctx.replay_tape("l1-ext", &path, |t| ext_case(t, &scratch));
        } else {
            run_ext(&mut ctx);
        }
        ctx.finish(EXT_WHAT, &[], 20)
    }
    let scratch = Scratch::new("c19");
    if let Some(path) = ctx.replay.clone() {
        if Ctx::replay_engine(&path).as_deref() == Some("l1-ext") {
            let s2 = Scratch::new("c19ext");
            ctx.replay_tape("l1-ext", &path, |t| ext_case(t, &s2));
        } else {
            ctx.replay_tape("l1", &path, |t| case(t, &scratch));
        }
    } else {
        let cases = ctx.tier.scale(6000, 150000);
        ctx.run_tapes("l1", cases, 400, |t| case(t, &scratch));
        run_ext(&mut ctx);
    }
    drop(scratch);
    ctx.finish(
        "generated manifests = random preamble sections + the [package.metadata.leptos-i18n] section (fields in random order, \
         optional fields present/absent, unknown fields, comments, literal/basic strings, multi-line arrays, inherits as inline \
         table or dotted keys) + random trailing sections; locale lists with/without/duplicating the default, duplicate \
         namespaces, inherits naming unknown locales or the default, missing required fields; directory layouts with decoy files \
         and one needed file possibly missing. observation: parse_locales_raw (ConfigFile fields, tracked file list, error), given the project directory explicitly or through CARGO_MANIFEST_DIR, four directories used in turn in one process. \
         oracle: model answering MustOk{default first, rest a permutation, dir, namespaces, inherits, exactly the needed files \
         read} / MustErr(non-empty message, naming a missing file) / Either. non-trivial = configuration exercising >=2 of \
         {default unlisted or not first, inherits, namespaces, custom dir, surrounding sections}; distinct = hash of the case",
        &[
            "Either (not asserted): default locale left out of `locales` but named as an inherits target",
            "the [package.metadata.leptos-i18n.inherits] sub-table spelling and the `[package.metadata]` inline-table spelling are undocumented and not generated",
            "the configuration part runs in the JSON build; the extension part (below) runs in the JSON, YAML and JSON5 builds",
            EXT_WHAT,
        ],
        20,
    )
}
