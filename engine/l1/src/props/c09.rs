//! C09 — loading translations never panics, overflows the stack or hangs, whatever the files contain.
//!
//! (a) grammar-aware adversarial mutations of well-formed projects, run in-process under
//!     catch_unwind through the parser, the build-script API and the code generator;
//! (b) deep / long inputs run in child processes with the default main-thread stack;
//! (c) regression inputs of the panics found so far.
//! The coverage-guided targets live in /verif/fuzz (thorough tier, see the `check` script).

use std::collections::{BTreeMap, BTreeSet};
use std::path::{Path, PathBuf};
use std::process::Command;
use std::time::Instant;

use serde_json::json;
use vcommon::ctx::{hash_str, CaseInfo, CaseResult, Ctx, Failure};
use vcommon::gen::{Gen, GenCfg};
use vcommon::ser::{self, FileVal, Format, Style};
use vcommon::tape::Tape;

use crate::eval::{self, Scratch};

fn fail(sig: &str, detail: serde_json::Value) -> Failure {
    Failure {
        signature: sig.into(),
        detail,
    }
}

pub fn cfg() -> GenCfg {
    GenCfg {
        locales: (1, 3),
        p_namespaces: 20,
        keys: (1, 6),
        sub_depth: 2,
        w_kinds: [2, 5, 1, 3, 3, 1, 4],
        p_null: 8,
        p_absent: 8,
        p_kind_varies: 15,
        p_inherits: 30,
        max_pieces: 5,
        max_comp_depth: 3,
        formatters: true,
        p_formatter: 15,
        p_surplus: 20,
        p_count_conflict: 10,
        fk_to_null: true,
        ..GenCfg::default()
    }
}

const TOKENS: &[&str] = &["{{", "}}", "<", ">", "</", "$t(", ")", ",", "{", "}", "\"", ":", ".", "|", "..", "..=", "_", "$t", "(", ";"];
const ODD_CHARS: &[&str] = &[
    "\u{3000}", "\u{a0}", "\u{2003}", "\u{200b}", "é", "漢", "😀", "\u{301}", "\u{feff}", "\u{2028}", "\u{85}", "\u{0}", "\u{1f}", "\u{7f}", "ß",
    "\u{202e}", "İ",
];
const ODD_STRINGS: &[&str] = &[
    "$t(k,",
    "$t(k, {",
    "$t(k, {\"count\":",
    "$t(",
    "$t()",
    "$t(.)",
    "$t(:)",
    "$t(a:b:c)",
    "$t(k, {}})",
    "$t(k, {\"x\": \"$t(k, {\\\"x\\\": \\\"{{ y }}\\\"})\"})",
    "{{",
    "}}",
    "{{}}",
    "{{ , }}",
    "{{ x, }}",
    "{{ x, number( }}",
    "{{ x, number) }}",
    "{{ x, list(list_type: or; list_style) }}",
    "{{ x, currency(currency_code: \u{20ac}\u{20ac}\u{20ac}) }}",
    "{{ x, currency(currency_code: ) }}",
    "<>",
    "</>",
    "<a>",
    "</a>",
    "<a></a\u{3000}>\u{e9}",
    "<a><a></a>",
    "<é>x</é>",
    "<1>x</1>",
    "<a b>x</a b>",
    "< / a>",
    "<a>{{</a>}}",
    "{{ <a> }}</a>",
    "{{ count }}",
    "<count>x</count>",
];
const RANGE_COUNTS: &[&str] = &[
    "NaN", "inf", "-inf", "inf..", "..inf", "infinity", "1e999", "1e39", "-1e39", "", " ", "..", "_", "...", "..=", "=..", "5..5", "6..5", "..0", "..=-1",
    "999999999999999999999999", "-0", "0x10", "1_000", "1..2..3", "|", "1|", "|1", "1||2", "_|_", "1|_", "a", "1.5", "1e2", "+5", "--5", "5 ..= 5",
    "-129", "256", "-9223372036854775809", "18446744073709551616", "3.4028236e38", "1e-400",
];
const KEY_NAMES: &[&str] = &["1x", "a b", "", "fn", "é", "self", "k-1", "k_1", "k 1", "_", "__", "r#fn", "a.b", "a:b", "count", "var_count", "k_other", "k_one", "k_ordinal_other", "k_ordinal_one", "k_zero", "k_ordinal_few"];

/// ASCII letters become multibyte look-alikes (2, 3 and 4 byte encodings): byte offsets no longer equal char offsets
fn widen(s: &str, t: &mut Tape) -> String {
    const WIDE: &[char] = &['é', 'ß', 'я', '円', '漢', 'ｗ', '😀', '𝒶', 'İ'];
    s.chars().map(|c| if c.is_ascii_alphanumeric() && t.coin() { WIDE[t.pick(WIDE.len())] } else { c }).collect()
}

/// 1-3 whitespace characters after every opener / before every closer
fn pad_delimiters(s: &str, t: &mut Tape) -> String {
    const WS: &[&str] = &[" ", "  ", "   ", "\t", " \t", "\u{3000}", " \u{a0}"];
    let mut out = String::new();
    let mut rest = s;
    'outer: while !rest.is_empty() {
        for (tok, before) in [("{{", false), ("}}", true), ("</", false), ("<", false), (">", true), ("$t(", false), (")", true)] {
            if rest.starts_with(tok) {
                let w = if t.chance(2, 3) { WS[t.pick(WS.len())] } else { "" };
                if before {
                    out.push_str(w);
                    out.push_str(tok);
                } else {
                    out.push_str(tok);
                    out.push_str(w);
                }
                rest = &rest[tok.len()..];
                continue 'outer;
            }
        }
        let c = rest.chars().next().unwrap();
        out.push(c);
        rest = &rest[c.len_utf8()..];
    }
    out
}

/// 1-2 mutation steps (offset bugs usually need a conjunction: padding + multibyte + imbalance)
fn mutate_string(s: &str, t: &mut Tape) -> String {
    let steps = t.weighted(&[3, 1]) + 1;
    let mut cur = s.to_string();
    for _ in 0..steps {
        cur = mutate_once(&cur, t);
    }
    cur
}

fn mutate_once(s: &str, t: &mut Tape) -> String {
    let chars: Vec<char> = s.chars().collect();
    let pos = |t: &mut Tape| t.pick(chars.len() + 1);
    let mut out: Vec<char>;
    match t.pick(12) {
        9 => return widen(s, t),
        10 => return pad_delimiters(s, t),
        11 => {
            // composite: padded, widened, and one closing token removed
            let w = pad_delimiters(&widen(s, t), t);
            let tok = ["</", ">", "}}", ")", "<", "{{"][t.pick(6)];
            let occ: Vec<usize> = w.match_indices(tok).map(|(i, _)| i).collect();
            if occ.is_empty() {
                return w;
            }
            let i = occ[t.pick(occ.len())];
            return format!("{}{}", &w[..i], &w[i + tok.len()..]);
        }
        0 => {
            // insert a delimiter token
            let p = pos(t);
            out = chars[..p].to_vec();
            out.extend(TOKENS[t.pick(TOKENS.len())].chars());
            out.extend(&chars[p..]);
        }
        1 => {
            // delete one occurrence of a token
            let tok = TOKENS[t.pick(TOKENS.len())];
            let occ: Vec<usize> = s.match_indices(tok).map(|(i, _)| i).collect();
            if occ.is_empty() {
                return s.to_string();
            }
            let i = occ[t.pick(occ.len())];
            return format!("{}{}", &s[..i], &s[i + tok.len()..]);
        }
        2 => {
            // duplicate one occurrence of a token
            let tok = TOKENS[t.pick(TOKENS.len())];
            let occ: Vec<usize> = s.match_indices(tok).map(|(i, _)| i).collect();
            if occ.is_empty() {
                return s.to_string();
            }
            let i = occ[t.pick(occ.len())];
            return format!("{}{}{}", &s[..i], tok, &s[i..]);
        }
        3 => {
            // odd character next to / inside a delimiter
            let mut cands: Vec<usize> = vec![];
            for tok in ["{{", "}}", "<", ">", "</", "$t(", ")", ","] {
                for (i, _) in s.match_indices(tok) {
                    cands.push(i);
                    cands.push(i + tok.len());
                }
            }
            let c = ODD_CHARS[t.pick(ODD_CHARS.len())];
            if cands.is_empty() {
                return format!("{s}{c}");
            }
            let i = cands[t.pick(cands.len())];
            return format!("{}{}{}", &s[..i], c, &s[i..]);
        }
        4 => {
            // truncate
            let p = pos(t);
            out = chars[..p].to_vec();
        }
        5 => {
            // transpose two adjacent characters
            out = chars.clone();
            if out.len() >= 2 {
                let p = t.pick(out.len() - 1);
                out.swap(p, p + 1);
            }
        }
        6 => {
            // splice a hostile snippet
            let p = pos(t);
            out = chars[..p].to_vec();
            out.extend(ODD_STRINGS[t.pick(ODD_STRINGS.len())].chars());
            out.extend(&chars[p..]);
        }
        7 => {
            // repeat the whole string a few times
            let n = t.range(2, 6);
            return s.repeat(n);
        }
        _ => {
            // replace by a hostile snippet
            return ODD_STRINGS[t.pick(ODD_STRINGS.len())].to_string();
        }
    }
    out.into_iter().collect()
}

fn hostile_value(t: &mut Tape) -> FileVal {
    let s = |x: &str| FileVal::Str(x.to_string());
    match t.pick(17) {
        0 => FileVal::Seq(vec![s("i32")]),
        1 => FileVal::Seq(vec![]),
        2 => FileVal::Seq(vec![s(["f32", "f64", "i8", "u8", "u64", "i128", "", "I32", " i32 "][t.pick(9)]), FileVal::Seq(vec![s("a"), s(RANGE_COUNTS[t.pick(RANGE_COUNTS.len())])]), FileVal::Seq(vec![s("b")])]),
        3 => FileVal::Seq(vec![FileVal::Seq(vec![s("a"), s(RANGE_COUNTS[t.pick(RANGE_COUNTS.len())]), s(RANGE_COUNTS[t.pick(RANGE_COUNTS.len())])]), FileVal::Seq(vec![s("b"), s("_")])]),
        4 => FileVal::Seq(vec![FileVal::Seq(vec![FileVal::Seq(vec![s("nested")]), s("1")])]),
        5 => FileVal::Seq(vec![FileVal::Map(vec![("count".into(), [FileVal::Bool(true), FileVal::Null, FileVal::Map(vec![]), FileVal::F(1.5), FileVal::I(-1)][t.pick(5)].clone()), ("value".into(), s("v"))])]),
        6 => FileVal::Seq(vec![FileVal::Map(vec![("count".into(), s("1")), ("count".into(), s("2")), ("value".into(), s("v"))])]),
        7 => FileVal::Seq(vec![FileVal::Map(vec![("value".into(), FileVal::Map(vec![("sub".into(), s("x"))]))])]),
        8 => FileVal::Seq(vec![s("u8"), FileVal::Seq(vec![s("a"), FileVal::I(-1)]), FileVal::Seq(vec![s("b"), FileVal::U(256)]), FileVal::Seq(vec![s("c"), FileVal::F(0.5)])]),
        9 => FileVal::Seq(vec![s("f32"), FileVal::Seq(vec![s("a"), FileVal::F(1e300)]), FileVal::Seq(vec![s("b")])]),
        10 => FileVal::Seq(vec![FileVal::Seq(vec![s("only"), s("1")])]), // no fallback
        11 => FileVal::Seq(vec![FileVal::Seq(vec![s("a"), s("_")]), FileVal::Seq(vec![s("b"), s("_")])]),
        12 => FileVal::Seq(vec![FileVal::Seq(vec![s("a")]), FileVal::Seq(vec![s("b"), s("1")])]),
        13 => FileVal::Seq(vec![FileVal::Seq(vec![]), FileVal::Seq(vec![s("b")])]),
        14 => FileVal::Seq(vec![FileVal::Seq(vec![FileVal::Null, s("1")]), FileVal::Map(vec![("value".into(), FileVal::Null)]), FileVal::Seq(vec![FileVal::Null])]),
        15 => {
            // an explicit default where a branch value is expected
            let ty = ["", "", "f32", "u8"][t.pick(4)];
            let mut seq = vec![];
            if !ty.is_empty() {
                seq.push(s(ty));
            }
            match t.pick(3) {
                0 => {
                    seq.push(FileVal::Seq(vec![s("a"), FileVal::I(1)]));
                    seq.push(FileVal::Seq(vec![FileVal::Null]));
                }
                1 => {
                    seq.push(FileVal::Seq(vec![FileVal::Null, FileVal::I(1)]));
                    seq.push(FileVal::Seq(vec![s("b")]));
                }
                _ => {
                    seq.push(FileVal::Map(vec![("count".into(), s("1")), ("value".into(), FileVal::Null)]));
                    seq.push(FileVal::Seq(vec![s("b")]));
                }
            }
            FileVal::Seq(seq)
        }
        _ => [FileVal::Null, FileVal::F(1e308), FileVal::I(i64::MIN), FileVal::U(u64::MAX), FileVal::Bool(false)][t.pick(5)].clone(),
    }
}

fn count_strings(v: &FileVal) -> usize {
    match v {
        FileVal::Str(_) => 1,
        FileVal::Seq(x) => x.iter().map(count_strings).sum(),
        FileVal::Map(x) => x.iter().map(|(_, v)| count_strings(v)).sum(),
        _ => 0,
    }
}

fn mutate_nth_string(v: &mut FileVal, n: &mut usize, t: &mut Tape) -> bool {
    match v {
        FileVal::Str(s) => {
            if *n == 0 {
                *s = mutate_string(s, t);
                return true;
            }
            *n -= 1;
            false
        }
        FileVal::Seq(x) => x.iter_mut().any(|v| mutate_nth_string(v, n, t)),
        FileVal::Map(x) => x.iter_mut().any(|(_, v)| mutate_nth_string(v, n, t)),
        _ => false,
    }
}

/// returns the list of mutation labels applied
fn mutate_file(v: &mut FileVal, t: &mut Tape, all_keys: &[String]) -> Vec<String> {
    let mut labels = vec![];
    let n = t.range(1, 3);
    for _ in 0..n {
        match t.weighted(&[8, 3, 2, 2, 2, 1, 1, 1]) {
            0 => {
                let total = count_strings(v);
                if total > 0 {
                    let mut i = t.pick(total);
                    mutate_nth_string(v, &mut i, t);
                    labels.push("string-mutation".to_string());
                }
            }
            1 => {
                if let FileVal::Map(entries) = v {
                    let hv = hostile_value(t);
                    if !entries.is_empty() && t.coin() {
                        let i = t.pick(entries.len());
                        entries[i].1 = hv;
                    } else {
                        entries.push((format!("hostile{}", entries.len()), hv));
                    }
                    labels.push("hostile-value".into());
                }
            }
            2 => {
                // a reference with a hostile count / argument to some existing key
                if let FileVal::Map(entries) = v {
                    let target = if all_keys.is_empty() { "k0".to_string() } else { all_keys[t.pick(all_keys.len())].clone() };
                    let arg = ["5", "-5", "5.5", "1e30", "true", "null", "\"x\"", "\"{{ a }} {{ b }}\"", "\"{{ a }}\"", "[1]", "{}", "18446744073709551615", "-9223372036854775808", "\"$t(k0)\"", "0", "1000000"][t.pick(16)];
                    let name = ["count", " count ", "x", "", "count\\\"", "var_count"][t.pick(6)];
                    entries.push((format!("ref{}", entries.len()), FileVal::Str(format!("$t({target}, {{\"{name}\": {arg}}})"))));
                    labels.push("hostile-reference".into());
                }
            }
            3 => {
                // rename a key to something odd / plural-shaped
                if let FileVal::Map(entries) = v {
                    if !entries.is_empty() {
                        let i = t.pick(entries.len());
                        entries[i].0 = KEY_NAMES[t.pick(KEY_NAMES.len())].to_string();
                        labels.push("odd-key-name".into());
                    }
                }
            }
            4 => {
                // `$t` inside plural forms / range branches, and cycles
                if let FileVal::Map(entries) = v {
                    let target = if all_keys.is_empty() { "k0".to_string() } else { all_keys[t.pick(all_keys.len())].clone() };
                    // the base name may itself end like a plural suffix (`pl3_ordinal`, `pl3_other`), and the forms may be ordinal
                    let base = format!("pl{}{}", entries.len(), ["", "", "_ordinal", "_other", "_one", "_ordinal_ordinal"][t.pick(6)]);
                    let ord = if t.chance(1, 3) { "_ordinal" } else { "" };
                    entries.push((format!("{base}{ord}_one"), FileVal::Str(format!("one $t({target})"))));
                    // (the self reference makes the project cyclic; without it the project may be valid)
                    let cyc = if t.coin() { format!(" $t({base})") } else { String::new() };
                    let counted = if t.coin() { format!(" $t({target}, {{\"count\": 2}})") } else { String::new() };
                    entries.push((format!("{base}{ord}_other"), FileVal::Str(format!("{{{{ count }}}}{counted}{cyc}"))));
                    if t.coin() {
                        entries.push((format!("{base}_ordinal_other"), FileVal::Str("x".into())));
                    }
                    if t.chance(1, 3) {
                        // a second plural named after a form of the first one (`a_one_one` + `a_one_other` next to `a_one` + `a_other`)
                        entries.push((format!("{base}{ord}_one_one"), FileVal::Str("1".into())));
                        entries.push((format!("{base}{ord}_one_other"), FileVal::Str(format!("2 $t({target})"))));
                    }
                    entries.push((format!("rg{}", entries.len()), FileVal::Seq(vec![FileVal::Seq(vec![FileVal::Str(format!("$t({base}, {{\"count\": 1}})")), FileVal::Str("1".into())]), FileVal::Seq(vec![FileVal::Str(format!("$t({target})"))])])));
                    labels.push("reference-in-plural-or-range".into());
                }
            }
            5 => {
                // duplicate a key
                if let FileVal::Map(entries) = v {
                    if !entries.is_empty() {
                        let i = t.pick(entries.len());
                        let e = entries[i].clone();
                        entries.push(e);
                        labels.push("duplicate-key".into());
                    }
                }
            }
            6 => {
                // plural forms whose base name is empty / not a key on its own
                if let FileVal::Map(entries) = v {
                    let base = ["", "_", "-", "--", "_ordinal", "__ordinal"][t.pick(6)];
                    let ord = if t.chance(1, 3) { "_ordinal" } else { "" };
                    entries.push((format!("{base}{ord}_one"), FileVal::Str("one".into())));
                    entries.push((format!("{base}{ord}_other"), FileVal::Str("other {{ count }}".into())));
                    labels.push("plural-forms-without-base".into());
                }
            }
            _ => {
                // the same key twice with values of different kinds; the first one may hold references
                if let FileVal::Map(entries) = v {
                    let target = if all_keys.is_empty() { "k0".to_string() } else { all_keys[t.pick(all_keys.len())].clone() };
                    let name = if !entries.is_empty() && t.coin() { entries[t.pick(entries.len())].0.clone() } else { format!("dup{}", entries.len()) };
                    let with_ref = |t: &mut Tape| match t.pick(4) {
                        0 => FileVal::Map(vec![("x".into(), FileVal::Str(format!("$t({target})")))]),
                        1 => FileVal::Map(vec![("p_one".into(), FileVal::Str(format!("$t({target})"))), ("p_other".into(), FileVal::Str("o".into()))]),
                        2 => FileVal::Map(vec![("s".into(), FileVal::Map(vec![("y".into(), FileVal::Str(format!("a $t({target}) b")))]))]),
                        _ => FileVal::Str(format!("$t({target})")),
                    };
                    let first = with_ref(t);
                    let second = match t.pick(5) {
                        0 => FileVal::Str("plain".into()),
                        1 => FileVal::Null,
                        2 => FileVal::Map(vec![("p".into(), FileVal::Str("s".into()))]),
                        3 => with_ref(t),
                        _ => hostile_value(t),
                    };
                    entries.push((name.clone(), first));
                    entries.push((name, second));
                    labels.push("duplicate-key-different-kind".into());
                }
            }
        }
    }
    labels
}

/// what ran and how it ended; a panic anywhere is the violation
#[derive(Debug, Default)]
pub struct Outcome {
    pub parse_ok: bool,
    pub parse_err: Option<String>,
    pub codegen: Option<Result<usize, String>>,
    pub build_api: Option<Result<usize, String>>,
}

/// run the three loaders on a project directory; `Err(sig, detail)` on panic / empty error message
pub fn exercise(dir: &Path, out_dir: &Path) -> Result<Outcome, (String, serde_json::Value)> {
    let mut o = Outcome::default();
    let panic_sig = |m: &str| {
        let loc = m.rsplit(" @ ").next().unwrap_or("").to_string();
        let loc = loc.rsplit('/').next().unwrap_or(&loc).to_string();
        format!("panic:{loc}")
    };
    match eval::load(dir) {
        eval::LoadOutcome::Ok(_) => o.parse_ok = true,
        eval::LoadOutcome::Err(e) => {
            let msg = e.to_string();
            if msg.trim().is_empty() {
                return Err(("empty-error-message".into(), json!({"stage": "parse_locales"})));
            }
            o.parse_err = Some(msg);
        }
        eval::LoadOutcome::Panic(m) => return Err((panic_sig(&m), json!({"stage": "parse_locales", "panic": m}))),
    }
    // build-script API
    let d2 = dir.to_path_buf();
    let o2 = out_dir.to_path_buf();
    let r = std::panic::catch_unwind(move || -> Result<usize, String> {
        let infos = leptos_i18n_build::TranslationsInfos::parse_at_dir(d2).map_err(|e| e.to_string())?;
        let _ = std::fs::remove_dir_all(&o2);
        infos.get_translations().write_to_dir(o2).map_err(|e| e.to_string())?;
        let n = infos.get_icu_keys().count();
        let _ = infos.get_locales().count();
        let _ = infos.get_locales_langids().count();
        let _ = infos.build_datagen_driver();
        let _ = infos.get_namespaces().map(|i| i.count());
        let _ = infos.files_paths().len();
        Ok(n)
    });
    match r {
        Ok(r) => {
            if let Err(e) = &r {
                if e.trim().is_empty() {
                    return Err(("empty-error-message".into(), json!({"stage": "build api"})));
                }
            }
            o.build_api = Some(r);
        }
        Err(p) => {
            let m = format!("{} @ {}", eval::panic_message(p), eval::last_panic_loc());
            return Err((panic_sig(&m), json!({"stage": "build api", "panic": m})));
        }
    }
    // code generation on what the parser accepted (and also on what it rejected: must give an error)
    match eval::codegen_text(dir) {
        Ok(ts) => o.codegen = Some(Ok(ts.len())),
        Err(e) if e.starts_with("PANIC") => return Err((panic_sig(&e), json!({"stage": "code generation", "panic": e}))),
        Err(e) => {
            if e.trim_start_matches("error:").trim().is_empty() {
                return Err(("empty-error-message".into(), json!({"stage": "code generation"})));
            }
            o.codegen = Some(Err(e));
        }
    }
    Ok(o)
}

fn write_raw(dir: &Path, manifest: &str, locales_dir: &str, files: &BTreeMap<(Option<String>, String), FileVal>, style: &Style) -> std::io::Result<()> {
    if dir.exists() {
        std::fs::remove_dir_all(dir)?;
    }
    std::fs::create_dir_all(dir)?;
    std::fs::write(dir.join("Cargo.toml"), manifest)?;
    let ldir = dir.join(locales_dir);
    std::fs::create_dir_all(&ldir)?;
    for ((ns, loc), v) in files {
        let text = ser::fileval_to_text(v, style);
        let path = match ns {
            None => ldir.join(format!("{loc}.json")),
            Some(ns) => {
                std::fs::create_dir_all(ldir.join(loc))?;
                ldir.join(loc).join(format!("{ns}.json"))
            }
        };
        std::fs::write(path, text)?;
    }
    Ok(())
}

pub fn case(t: &mut Tape, scratch: &Scratch, budget_ms: u128, slow: &std::cell::Cell<u32>) -> CaseResult {
    let style_seed = t.u64();
    let mut g = Gen::new(t, cfg());
    let p = g.project();
    let mut files: BTreeMap<(Option<String>, String), FileVal> = p.files.iter().map(|(k, o)| (k.clone(), ser::obj_to_fileval(o))).collect();
    let all_keys: Vec<String> = p
        .files
        .iter()
        .flat_map(|((ns, _), o)| {
            let ns = ns.clone();
            o.iter().map(move |(k, _)| match &ns {
                Some(n) => format!("{n}:{k}"),
                None => k.clone(),
            })
        })
        .collect();
    let mut labels = vec![];
    let nfiles = files.len();
    let nmut = t.range(1, 2);
    for _ in 0..nmut {
        let i = t.pick(nfiles);
        let key = files.keys().nth(i).cloned().unwrap();
        let v = files.get_mut(&key).unwrap();
        labels.extend(mutate_file(v, t, &all_keys));
    }
    let mut manifest = ser::manifest_text(&p, true);
    if t.chance(1, 12) {
        manifest = mutate_string(&manifest, t);
        labels.push("manifest-mutation".into());
    } else if t.chance(1, 10) {
        // boundary configurations: empty / single-element / degenerate values of each field
        let section = "[package.metadata.leptos-i18n]\n";
        let def = p.default_locale().to_string();
        let all: Vec<String> = p.locales.iter().map(|l| format!("{l:?}")).collect();
        let body = match t.pick(12) {
            0 => format!("default = {def:?}\nlocales = [{}]\nnamespaces = []\n", all.join(", ")),
            1 => format!("default = {def:?}\nlocales = []\n"),
            2 => format!("default = {def:?}\nlocales = [{def:?}]\n"),
            3 => format!("default = {def:?}\nlocales = [{}]\ninherits = {{}}\n", all.join(", ")),
            4 => format!("default = {def:?}\nlocales = [{}]\nnamespaces = [\"{}\"]\n", all.join(", "), p.namespaces.as_ref().and_then(|n| n.first().cloned()).unwrap_or_else(|| "only".into())),
            5 => format!("default = {def:?}\nlocales = [{}]\nlocales-dir = \"\"\n", all.join(", ")),
            6 => format!("default = \"\"\nlocales = [{}]\n", all.join(", ")),
            7 => format!("locales = [{}]\n", all.join(", ")),
            8 => format!("default = {def:?}\nlocales = [{}]\nnamespaces = [\"\"]\n", all.join(", ")),
            9 => format!("default = {def:?}\nlocales = [{}]\nlocales-dir = \".\"\ntranslations-uri = \"\"\n", all.join(", ")),
            10 => format!("default = {def:?}\nlocales = [\"\", {}]\n", all.join(", ")),
            _ => format!("default = {def:?}\nlocales = [{}]\nnamespaces = []\ninherits = {{ {def:?} = {def:?} }}\n", all.join(", ")),
        };
        manifest = format!("[package]\nname = \"generated\"\nversion = \"0.1.0\"\nedition = \"2021\"\n\n{section}{body}");
        labels.push("boundary-configuration".into());
    }
    if t.chance(1, 10) {
        // one locale gets a name that is odd or not a BCP-47 tag (in the manifest and as file name)
        const ODD_LOCALES: &[&str] = &["e", "toolonglanguage", "en_US", "en--US", "123", "en-", "x", "i-klingon", "en-US-u-ca-buddhist", "EN", "zh-hant-tw", "und", "root", "é", "en-abcdefghi", "a1"];
        let locs: Vec<String> = files.keys().map(|(_, l)| l.clone()).collect::<BTreeSet<_>>().into_iter().collect();
        if !locs.is_empty() {
            let old = locs[t.pick(locs.len())].clone();
            let new = ODD_LOCALES[t.pick(ODD_LOCALES.len())].to_string();
            if !locs.contains(&new) {
                manifest = manifest.replace(&format!("{old:?}"), &format!("{new:?}"));
                let keys: Vec<(Option<String>, String)> = files.keys().filter(|(_, l)| *l == old).cloned().collect();
                for k in keys {
                    if let Some(v) = files.remove(&k) {
                        files.insert((k.0.clone(), new.clone()), v);
                    }
                }
                labels.push("odd-locale-name".into());
            }
        }
    }
    let style = Style {
        format: Format::Json,
        seed: style_seed,
        escapes: 1,
    };
    let dir = scratch.0.join("p");
    write_raw(&dir, &manifest, &p.locales_dir, &files, &style).map_err(|e| fail("harness-io", json!({"e": e.to_string()})))?;
    let start = Instant::now();
    let r = exercise(&dir, &scratch.0.join("out"));
    let el = start.elapsed().as_millis();
    if el > budget_ms {
        slow.set(slow.get() + 1);
    }
    let printable = || {
        let fj: BTreeMap<String, String> = files
            .iter()
            .map(|((ns, loc), v)| (format!("{}{}", loc, ns.as_deref().map(|n| format!("/{n}")).unwrap_or_default()), ser::fileval_to_text(v, &Style::plain(Format::Json))))
            .collect();
        json!({"manifest": manifest, "files": fj, "mutations": labels})
    };
    match r {
        Err((sig, mut d)) => {
            d["input"] = printable();
            Err(fail(&sig, d))
        }
        Ok(o) => {
            let mut classes = labels.clone();
            classes.sort();
            classes.dedup();
            if o.parse_ok {
                classes.push("accepted-by-parser".into());
            } else {
                classes.push("rejected-with-error".into());
            }
            if matches!(o.codegen, Some(Ok(_))) {
                classes.push("code-generated".into());
            }
            // non-trivial: the input got past JSON syntax into the translation grammar
            let deep = o.parse_ok
                || o.parse_err.as_deref().map(|e| !e.contains("EOF while parsing") && !e.contains("expected value") && !e.contains("expected `") && !e.contains("Parsing of cargo manifest")).unwrap_or(false);
            let txt = serde_json::to_string(&printable()).unwrap_or_default();
            Ok(CaseInfo {
                hash: hash_str(&txt),
                nontrivial: deep,
                classes,
                sample: Some(json!({"input": printable(), "parse_error": o.parse_err, "codegen": o.codegen.as_ref().map(|r| r.as_ref().map(|n| *n).map_err(|e| e.chars().take(200).collect::<String>()))})),
                observations: 3,
            })
        }
    }
}

// ------------------------------------------------------------------------------------------
// regression inputs (panics found earlier; all must now end in Ok or an error)

pub const REGRESSIONS: &[(&str, &str)] = &[
    ("D1b-closing-tag-multibyte-ws", r#"{"k": "<b>in</b　>é"}"#),
    ("D2-unterminated-fk-args", r#"{"k": "x", "a": "$t(k,"}"#),
    ("D2-unterminated-fk-args-brace", r#"{"k": "x", "a": "$t(k, {"}"#),
    ("D5-literal-count-no-branch", r#"{"r": [["one", 1]], "a": "$t(r, {\"count\": 5})"}"#),
    ("D7-type-only-range", r#"{"r": ["i32"]}"#),
    ("D8-nan-bound", r#"{"r": ["f32", ["a", "NaN"], ["b"]]}"#),
    ("D8-inf-bound", r#"{"r": ["f64", ["a", "inf.."], ["b"]]}"#),
    ("D8-f32-overflow-number", r#"{"r": ["f32", ["a", 1e300], ["b"]]}"#),
    ("D26-null-range-fallback", r#"{"r": [["a", 1], [null]], "k": "v"}"#),
    ("D26-null-range-branch", r#"{"r": ["f32", [null, 1.5], ["b"]], "k": "v"}"#),
    ("D27-empty-plural-base", r#"{"_one": "a", "_other": "b", "k": "v"}"#),
    ("D27-underscore-plural-base", r#"{"__one": "a", "__other": "b", "-_ordinal_one": "c", "-_ordinal_other": "d"}"#),
    ("D28-duplicate-replaces-subkeys-with-reference", r#"{"g": {"x": "$t(k)"}, "g": "plain", "k": "v"}"#),
    ("D40-reference-in-plural-form-shadowed-by-another-plural", r#"{"x": "X", "a_one": "$t(x)", "a_other": "others", "a_one_one": "1", "a_one_other": "2"}"#),
    ("D40-ordinal", r#"{"x": "X", "a_ordinal_few": "$t(x)", "a_ordinal_other": "o", "a_ordinal_few_one": "1", "a_ordinal_few_other": "2"}"#),
    ("D28-duplicate-replaces-plural-form-reference", r#"{"g": {"p_one": "$t(k)", "p_other": "o"}, "g": {"p": "s"}, "k": "v"}"#),
];

fn run_regressions(ctx: &mut Ctx, scratch: &Scratch) {
    for (name, content) in REGRESSIONS {
        let dir = scratch.0.join("reg");
        let _ = std::fs::remove_dir_all(&dir);
        let _ = std::fs::create_dir_all(dir.join("locales"));
        let _ = std::fs::write(dir.join("Cargo.toml"), "[package]\nname = \"x\"\n[package.metadata.leptos-i18n]\ndefault = \"en\"\nlocales = [\"en\"]\n");
        let _ = std::fs::write(dir.join("locales/en.json"), content);
        match exercise(&dir, &scratch.0.join("out")) {
            Ok(_) => ctx.record(CaseInfo {
                hash: hash_str(name),
                nontrivial: true,
                classes: vec!["regression-input".into()],
                sample: None,
                observations: 3,
            }),
            Err((sig, mut d)) => {
                d["regression"] = json!(name);
                d["content"] = json!(content);
                ctx.fail("regression", None, &fail(&sig, d));
            }
        }
    }
}

/// the seed corpus of the fuzz targets (strings and files of the repository's own locale files) and
/// any saved crash inputs under /verif/regress/C09, run through the same in-process oracle
fn run_corpus(ctx: &mut Ctx, scratch: &Scratch) {
    const HELPERS: &str = r#""t": "T {{ x }} <b>{{ y }}</b>", "n": 5, "r": [["zero", 0], ["{{ count }} some", "1..5", 7], ["many {{ count }}"]], "f": ["f32", ["low", "..1.5"], ["rest"]], "p_one": "one {{ count }}", "p_other": "{{ count }} others", "o_ordinal_one": "{{ count }}st", "o_ordinal_other": "{{ count }}th", "s": {"a": "A", "b": {"c": "C {{ z }}"}}"#;
    let mut inputs: Vec<(String, String, String)> = vec![]; // (name, en.json, fr.json)
    for (dir, kind) in [("/verif/engine/fuzz/seeds/fuzz_value", "value"), ("/verif/engine/fuzz/seeds/fuzz_file", "file"), ("/verif/regress/C09", "regress")] {
        let Ok(rd) = std::fs::read_dir(dir) else { continue };
        let mut names: Vec<_> = rd.flatten().map(|e| e.path()).collect();
        names.sort();
        for path in names {
            let Ok(bytes) = std::fs::read(&path) else { continue };
            let name = path.file_name().map(|n| n.to_string_lossy().to_string()).unwrap_or_default();
            let as_value = kind == "value" || name.starts_with("fuzz_value-");
            if as_value {
                let s = String::from_utf8_lossy(&bytes);
                let (a, b) = match s.split_once('\0') {
                    Some((a, b)) => (a.to_string(), Some(b.to_string())),
                    None => (s.to_string(), None),
                };
                let mut ja = String::new();
                ser::json_string_plain(&a, &mut ja);
                let en = format!("{{{HELPERS}, \"k\": {ja}}}");
                let fr = match b {
                    Some(b) => {
                        let mut jb = String::new();
                        ser::json_string_plain(&b, &mut jb);
                        format!("{{{HELPERS}, \"k\": {jb}}}")
                    }
                    None => format!("{{{HELPERS}}}"),
                };
                inputs.push((name, en, fr));
            } else {
                let (a, b) = match bytes.iter().position(|b| *b == 0xFF) {
                    Some(i) => (&bytes[..i], &bytes[i + 1..]),
                    None => (&bytes[..], &b"{}"[..]),
                };
                inputs.push((name, String::from_utf8_lossy(a).to_string(), String::from_utf8_lossy(b).to_string()));
            }
        }
    }
    for (name, en, fr) in inputs {
        let dir = scratch.0.join("corpus");
        let _ = std::fs::remove_dir_all(&dir);
        let _ = std::fs::create_dir_all(dir.join("locales"));
        let _ = std::fs::write(dir.join("Cargo.toml"), "[package]\nname = \"x\"\n[package.metadata.leptos-i18n]\ndefault = \"en\"\nlocales = [\"en\", \"fr\"]\ninherits = { fr = \"en\" }\n");
        let _ = std::fs::write(dir.join("locales/en.json"), &en);
        let _ = std::fs::write(dir.join("locales/fr.json"), &fr);
        match exercise(&dir, &scratch.0.join("out")) {
            Ok(o) => ctx.record(CaseInfo {
                hash: hash_str(&format!("{en}{fr}")),
                nontrivial: o.parse_ok,
                classes: vec!["corpus-input".into()],
                sample: None,
                observations: 3,
            }),
            Err((sig, mut d)) => {
                d["corpus_input"] = json!(name);
                d["en"] = json!(en);
                ctx.fail("corpus", None, &fail(&sig, d));
            }
        }
    }
}

// ------------------------------------------------------------------------------------------
// deep / long inputs in child processes (a stack overflow kills the process)

pub fn deep_value(shape: &str, n: usize) -> String {
    match shape {
        "seq-vars" => "{{a}}".repeat(n),
        "seq-vars-text" => "x {{ a }} ".repeat(n),
        "seq-comps" => "<b>x</b>".repeat(n),
        "nested-comps" => format!("{}x{}", "<b>".repeat(n), "</b>".repeat(n)),
        "nested-distinct" => {
            let mut s = String::new();
            for i in 0..n {
                s.push_str(&format!("<c{}>", i % 7));
            }
            s.push('x');
            for i in (0..n).rev() {
                s.push_str(&format!("</c{}>", i % 7));
            }
            s
        }
        "seq-fk" => "$t(k)".repeat(n),
        "unclosed-tags" => "<b>".repeat(n),
        "open-braces" => "{{".repeat(n),
        "long-text" => "lorem ipsum ".repeat(n),
        "fk-args-nesting" => format!("$t(k, {}\"x\": 1{})", "{".repeat(n), "}".repeat(n)),
        _ => String::new(),
    }
}

pub const DEEP_SHAPES: &[&str] = &["seq-vars", "seq-vars-text", "seq-comps", "nested-comps", "nested-distinct", "seq-fk", "unclosed-tags", "open-braces", "long-text", "fk-args-nesting"];

/// child mode: `l1 c09-child <shape> <n> <dir>`; exit 0 = terminated with Ok/Err, 101 = panic
pub fn child_main(args: &[String]) -> ! {
    let shape = &args[0];
    let n: usize = args[1].parse().unwrap_or(1);
    let dir = PathBuf::from(&args[2]);
    let _ = std::fs::remove_dir_all(&dir);
    let _ = std::fs::create_dir_all(dir.join("locales"));
    let _ = std::fs::write(dir.join("Cargo.toml"), "[package]\nname = \"x\"\n[package.metadata.leptos-i18n]\ndefault = \"en\"\nlocales = [\"en\"]\n");
    let v = deep_value(shape, n);
    let mut s = String::new();
    ser::json_string_plain(&v, &mut s);
    let _ = std::fs::write(dir.join("locales/en.json"), format!("{{\"k\": \"base\", \"deep\": {s}}}"));
    // a thread with exactly the default main-thread stack (8 MiB), independent of `ulimit -s`
    let d2 = dir.clone();
    let h = std::thread::Builder::new().stack_size(8 << 20).spawn(move || exercise(&d2, &d2.join("out"))).expect("spawn");
    match h.join() {
        Ok(Ok(o)) => {
            println!("ok parse_ok={} codegen={:?}", o.parse_ok, o.codegen.map(|r| r.is_ok()));
            std::process::exit(0)
        }
        Ok(Err((sig, d))) => {
            println!("violation {sig} {d}");
            std::process::exit(101)
        }
        Err(_) => std::process::exit(101),
    }
}

fn run_deep(ctx: &mut Ctx, scratch: &Scratch, sizes: &[usize], timeout_s: u64) {
    let me = std::env::current_exe().unwrap_or_default();
    for shape in DEEP_SHAPES {
        for &n in sizes {
            let dir = scratch.0.join(format!("deep-{shape}-{n}"));
            let start = Instant::now();
            let child = Command::new(&me)
                .arg("c09-child")
                .arg(shape)
                .arg(n.to_string())
                .arg(&dir)
                .stdout(std::process::Stdio::piped())
                .stderr(std::process::Stdio::null())
                .spawn();
            let Ok(mut child) = child else {
                ctx.harness_error("cannot spawn child".into());
                return;
            };
            // wait with a watchdog (a hang is reported as inconclusive, exit 2)
            let status = loop {
                match child.try_wait() {
                    Ok(Some(st)) => break Some(st),
                    Ok(None) => {
                        if start.elapsed().as_secs() > timeout_s {
                            let _ = child.kill();
                            let _ = child.wait();
                            break None;
                        }
                        std::thread::sleep(std::time::Duration::from_millis(5));
                    }
                    Err(_) => break None,
                }
            };
            let _ = std::fs::remove_dir_all(&dir);
            let bytes = deep_value(shape, n).len();
            match status {
                None => {
                    // quadratic behaviour on huge inputs is not a hang in the sense of the property,
                    // but we cannot tell them apart: inconclusive
                    ctx.harness_error(format!("watchdog: shape {shape} n={n} ({bytes} bytes) still running after {timeout_s}s"));
                }
                Some(st) if st.success() => ctx.record(CaseInfo {
                    hash: hash_str(&format!("{shape}{n}")),
                    nontrivial: true,
                    classes: vec![format!("deep:{shape}")],
                    sample: if n == sizes[0] { Some(json!({"deep_shape": shape, "repetitions": n, "bytes": bytes})) } else { None },
                    observations: 3,
                }),
                Some(st) => {
                    use std::os::unix::process::ExitStatusExt;
                    let sig = if let Some(s) = st.signal() {
                        format!("stack-overflow-or-abort:{shape}:{n}:signal{s}")
                    } else {
                        format!("child-panic:{shape}")
                    };
                    ctx.fail(
                        "deep",
                        None,
                        &fail(&sig, json!({"shape": shape, "repetitions": n, "bytes": bytes, "status": format!("{st:?}"), "replay": format!("l1 c09-child {shape} {n} <dir>")})),
                    );
                    break; // larger sizes of the same shape fail the same way
                }
            }
        }
    }
}

// ------------------------------------------------------------------------------------------
// number and scalar spellings only the YAML / JSON5 formats have (the YAML and JSON5 harness builds)

/// scalar tokens JSON cannot spell: non-finite floats, hex / octal / underscored integers, signs, bare dots, tags
const ODD_SCALARS_YAML: &[&str] = &[".inf", "-.inf", "+.inf", ".nan", ".NaN", ".Inf", "0x1F", "0o17", "1_000", "+5", ".5", "5.", "1e999", "-1e999", "~", "!!float 3", "!!str 5", "&a 5", "*a", "2001-12-14", "0b11", "1:30", "y", "No"];
const ODD_SCALARS_JSON5: &[&str] = &["Infinity", "-Infinity", "+Infinity", "NaN", "-NaN", "0x1F", "-0x1F", "+5", ".5", "5.", "1e999", "-1e999", "'single'", "null", "0x", "1_000", "\"a\\\nb\""];

/// one odd scalar in one position of an otherwise plain file: a value, a subkey value, a range count (list and map
/// form), a range bound inside a list, a plural form, a literal next to a reference that fixes its count with it
pub fn fmt_case(t: &mut Tape, scratch: &Scratch) -> CaseResult {
    let yaml = cfg!(feature = "yaml_files");
    let pool = if yaml { ODD_SCALARS_YAML } else { ODD_SCALARS_JSON5 };
    let tok = pool[t.pick(pool.len())];
    let pos = t.pick(8);
    let ty = ["", "\"f32\", ", "\"f64\", ", "\"u8\", ", "\"i64\", "][t.pick(5)];
    // flow syntax is shared by YAML and JSON5 (quoted keys, commas), so one template serves both
    let body = match pos {
        0 => format!("{{\"k\": {tok}, \"o\": \"x\"}}"),
        1 => format!("{{\"g\": {{\"s\": {tok}, \"t\": {{\"u\": {tok}}}}}, \"o\": \"x\"}}"),
        2 => format!("{{\"r\": [{ty}[\"a\", {tok}], [\"b\"]]}}"),
        3 => format!("{{\"r\": [{ty}{{\"count\": {tok}, \"value\": \"a\"}}, [\"b\"]]}}"),
        4 => format!("{{\"r\": [{ty}[\"a\", 1, {tok}, \"2..\"], [\"b\"]]}}"),
        5 => format!("{{\"p_one\": {tok}, \"p_other\": \"o {{{{ count }}}}\"}}"),
        6 => format!("{{\"r\": [{ty}[{tok}, 1], [{tok}]]}}"),
        _ => format!("{{\"k\": [{tok}], \"j\": [[{tok}]], \"l\": {{\"m\": [{ty}[\"a\", [{tok}]], [\"b\"]]}}}}"),
    };
    let dir = scratch.0.join("fmt");
    let _ = std::fs::remove_dir_all(&dir);
    let _ = std::fs::create_dir_all(dir.join("locales"));
    let _ = std::fs::write(dir.join("Cargo.toml"), "[package]\nname = \"x\"\n[package.metadata.leptos-i18n]\ndefault = \"en\"\nlocales = [\"en\"]\n");
    let ext = if yaml { ["yaml", "yml"][t.pick(2)] } else if cfg!(feature = "json5_files") { "json5" } else { "json" };
    let _ = std::fs::write(dir.join(format!("locales/en.{ext}")), &body);
    match exercise(&dir, &scratch.0.join("out")) {
        Ok(o) => Ok(CaseInfo {
            hash: hash_str(&body),
            nontrivial: true,
            classes: vec![format!("position={pos}"), if o.parse_ok { "accepted".into() } else { "rejected-with-error".into() }],
            sample: Some(json!({"file": format!("locales/en.{ext}"), "content": body, "accepted": o.parse_ok, "error": o.parse_err})),
            observations: 3,
        }),
        Err((sig, mut d)) => {
            d["content"] = json!(body);
            d["file"] = json!(format!("locales/en.{ext}"));
            Err(fail(&sig, d))
        }
    }
}

const FMT_WHAT: &str = "format part (YAML and JSON5 harness builds): one scalar token that JSON cannot spell (non-finite floats, hex / octal / \
     underscored integers, explicit signs, bare dots, overflowing exponents, YAML tags / anchors / aliases / timestamps / booleans, JSON5 \
     single quotes) in one of 8 positions (value, nested subkey value, range count in list and map form, range bound inside a list, \
     plural form, range branch value, nested lists) of a one-locale project, with and without a range type; run through parse_locales, \
     the build-script API and the code generator under catch_unwind. oracle: Ok or an error with a message, never a panic. every case \
     is non-trivial (the token reaches the value grammar); distinct = hash of the file";

pub fn run(mut ctx: Ctx) -> ! {
    if std::env::var("VERIF_C09_PART").as_deref() == Ok("formats") {
        let scratch = Scratch::new("c09fmt");
        if let Some(path) = ctx.replay.clone() {
            ctx.replay_tape("l1-formats", &path, |t| fmt_case(t, &scratch));
        } else {
            let cases = ctx.tier.scale(1500, 20000);
            ctx.run_tapes("l1-formats", cases, 16, |t| fmt_case(t, &scratch));
        }
        drop(scratch);
        ctx.finish(FMT_WHAT, &[], 20)
    }
    let scratch = Scratch::new("c09");
    let slow = std::cell::Cell::new(0u32);
    if let Some(path) = ctx.replay.clone() {
        ctx.replay_tape("mutate", &path, |t| case(t, &scratch, 2000, &slow));
    } else {
        // VERIF_C09_GENERATED_ONLY=1: sensitivity runs that ask what the generator finds without the saved inputs
        if std::env::var("VERIF_C09_GENERATED_ONLY").is_err() {
            run_regressions(&mut ctx, &scratch);
            run_corpus(&mut ctx, &scratch);
        }
        let cases = ctx.tier.scale(6000, 200000);
        ctx.run_tapes("mutate", cases, 1500, |t| case(t, &scratch, 2000, &slow));
        let sizes: &[usize] = match ctx.tier {
            vcommon::ctx::Tier::Quick => &[50, 400, 3000, 13000],
            vcommon::ctx::Tier::Thorough => &[50, 400, 3000, 13000, 30000],
        };
        run_deep(&mut ctx, &scratch, sizes, 400);
        if slow.get() > 0 {
            ctx.set_extra("cases_over_2s", json!(slow.get()));
        }
    }
    drop(scratch);
    ctx.finish(
        "(a) well-formed generated projects hit by 1-6 grammar-aware mutations (insert / delete / duplicate / transpose a delimiter \
         token, odd or multi-byte characters next to delimiters, truncation, hostile snippets, hostile range declarations and \
         bounds such as NaN / inf / overflow / type-only / no fallback, hostile `$t` arguments and counts, `$t` inside plural \
         forms and range branches, cycles, odd or plural-shaped key names, plural forms without a base name, duplicate keys of the same and of different kinds (the replaced one holding references), explicit defaults as range branch values, mutated manifests, locale names that are odd or not BCP-47 tags), each run in-process \
         under catch_unwind through parse_locales, TranslationsInfos::parse_at_dir + write_to_dir + get_icu_keys, and the code \
         generator; (b) deep / long single values (10 shapes x 3-4 sizes up to 64 KiB) run in child processes with the default \
         stack, exit status observed; (c) the regression inputs of earlier panics. oracle: outcome is Ok or an error with a non-empty \
         message; never a panic, abort or signal. non-trivial = the input got past JSON / TOML syntax into the translation grammar \
         (accepted, or rejected by a translation-level error); distinct = hash of the files",
        &[
            "a child still running after 400 s is reported as inconclusive (exit 2), never as a violation (unclosed tags are quadratic: 90 kB take ~30 s)",
            "coverage-guided byte-level fuzzing is the thorough tier's second stage (/verif/fuzz)",
        ],
        50,
    )
}
