//! C07 — key sets are checked against the default locale, with exact diagnostics.

use vcommon::ctx::Ctx;
use vcommon::gen::GenCfg;
use vcommon::model::*;
use vcommon::tape::Tape;

use crate::eval::Scratch;
use crate::projcheck::CheckOpts;
use crate::props::common::project_case;

pub fn cfg() -> GenCfg {
    GenCfg {
        locales: (2, 5),
        p_namespaces: 30,
        keys: (2, 8),
        sub_depth: 3,
        w_kinds: [4, 3, 1, 1, 2, 5, 1],
        p_null: 12,
        p_absent: 18,
        p_kind_varies: 8,
        p_inherits: 35,
        max_pieces: 3,
        max_comp_depth: 2,
        p_surplus: 40,
        hyphen_keys: true,
        hyphen_vars: true,
        ..GenCfg::default()
    }
}

/// negative class: flip a group into a value (or a value into a group) in one non-default locale
fn mutate(p: &mut Project, t: &mut Tape) -> Option<String> {
    if !t.chance(1, 8) {
        return None;
    }
    let default = p.default_locale().to_string();
    let keys: Vec<(Option<String>, String)> = p.files.keys().filter(|(_, l)| *l != default).cloned().collect();
    if keys.is_empty() {
        return None;
    }
    let fkey = keys[t.pick(keys.len())].clone();
    let def_obj = p.files.get(&(fkey.0.clone(), default.clone()))?.clone();
    let obj = p.files.get_mut(&fkey)?;
    // only keys that exist in the default locale produce the error (others are surplus)
    let cands: Vec<usize> = obj
        .iter()
        .enumerate()
        .filter(|(_, (k, v))| obj_get(&def_obj, k).is_some() && !matches!(v, Value::Null))
        .map(|(i, _)| i)
        .collect();
    if cands.is_empty() {
        return None;
    }
    let i = cands[t.pick(cands.len())];
    let was_sub = matches!(obj[i].1, Value::Sub(_));
    let def_is_sub = matches!(obj_get(&def_obj, &obj[i].0), Some(Value::Sub(_)));
    if was_sub != def_is_sub {
        return None;
    }
    obj[i].1 = if was_sub {
        Value::Str(vec![Piece::Text("flipped".into())])
    } else {
        Value::Sub(vec![("inner_flip".into(), Value::Str(vec![Piece::Text("flipped".into())]))])
    };
    Some(if was_sub { "group-to-value".into() } else { "value-to-group".into() })
}

pub fn run(mut ctx: Ctx) -> ! {
    if cfg!(feature = "suppress_key_warnings") {
        ctx.class("build:suppress_key_warnings");
    }
    let scratch = Scratch::new("c07");
    let case = |t: &mut Tape| {
        project_case(t, cfg(), CheckOpts::default(), &scratch, Some(&mutate), &|p, st| {
            // >=1 expected warning and >=1 silenced absence (null or inherits) -- or the negative class
            (st.warnings_expected > 0 && (st.defaulted_any > 0) && (!p.inherits.is_empty() || st.defaulted_any > st.warnings_expected))
                || st.expected_error
                // suppress build: nothing may be reported although keys are absent / surplus
                || (cfg!(feature = "suppress_key_warnings") && st.defaulted_any > 0)
        })
    };
    if let Some(path) = ctx.replay.clone() {
        ctx.replay_tape("l1", &path, case);
    } else {
        let cases = ctx.tier.scale(4000, 120000);
        ctx.run_tapes("l1", cases, 1200, case);
    }
    drop(scratch);
    ctx.finish(
        "generated projects (2-5 locales, namespaces, subkeys to depth 3, plural groups) where every default key is independently \
         same / null / absent in each other locale, with surplus keys and surplus groups at every depth and random inherits maps; \
         1/8 mutated into a kind flip (group<->value). oracle: the multiset of MissingKey / SurplusKey diagnostics returned by \
         parse_locales equals the model's (one MissingKey per absent path whose parent exists and whose locale does not inherit, \
         none below an absent group, none for null, one SurplusKey per extra key at a shared level, none for the default locale), \
         the accessible key set equals the default locale's keys, and a kind flip is rejected naming the key. non-trivial = at \
         least one expected diagnostic together with at least one silenced absence, or a kind flip; distinct = project hash",
        &["the same check runs a second time on a harness build with the suppress_key_warnings feature (no missing / surplus diagnostics at all, same key sets and errors)"],
        20,
    )
}
