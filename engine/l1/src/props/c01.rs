//! C01 — rendered text is exactly what the translation source says (parser-level observation).

use vcommon::ctx::Ctx;
use vcommon::gen::GenCfg;

use crate::eval::Scratch;
use crate::projcheck::CheckOpts;
use crate::props::common::project_case;

pub fn cfg() -> GenCfg {
    GenCfg {
        locales: (1, 4),
        p_namespaces: 25,
        keys: (1, 10),
        sub_depth: 3,
        w_kinds: [3, 8, 2, 1, 1, 2, 1],
        p_null: 5,
        p_absent: 5,
        p_kind_varies: 8,
        p_inherits: 25,
        max_pieces: 10,
        max_comp_depth: 5,
        stray_lt: true,
        ..GenCfg::default()
    }
}

pub fn run(mut ctx: Ctx) -> ! {
    let scratch = Scratch::new("c01");
    let case = |t: &mut vcommon::tape::Tape| {
        project_case(t, cfg(), CheckOpts::default(), &scratch, None, &|_, st| {
            st.rendered_with_interp > 0 && !st.expected_error
        })
    };
    if let Some(path) = ctx.replay.clone() {
        ctx.replay_tape("l1", &path, case);
    } else {
        let cases = ctx.tier.scale(4000, 120000);
        ctx.run_tapes("l1", cases, 1200, case);
    }
    drop(scratch);
    ctx.finish(
        "generated well-formed projects (1-4 locales, optional namespaces, subkeys to depth 3, strings of 1-10 pieces with \
         components nested to depth 5, unicode/escape/whitespace variants) printed from an AST, loaded by the real parser and \
         every (locale, key, 2 argument assignments) evaluated through Locale.strings; oracle = rendering of the AST by the \
         reference semantics. non-trivial = project with at least one compared key whose value has >=2 pieces and >=1 \
         variable/component/range/plural; distinct = hash of the project",
        &[
            "literal text never contains { } < > or `$t(` (no escape is documented)",
            "parser-level observation: the code generator is covered by the generated-crate tier (L2)",
        ],
        20,
    )
}
