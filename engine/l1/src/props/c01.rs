//! C01 — rendered text is exactly what the translation source says (parser-level observation).

use serde_json::json;
use vcommon::ctx::{hash_str, CaseInfo, CaseResult, Ctx};
use vcommon::gen::{Gen, GenCfg};
use vcommon::ser;
use vcommon::tape::Tape;

use crate::eval::Scratch;
use crate::projcheck::{check_project, CheckOpts};

pub fn cfg() -> GenCfg {
    GenCfg {
        locales: (1, 4),
        p_namespaces: 25,
        keys: (1, 10),
        sub_depth: 3,
        w_kinds: [3, 8, 2, 1, 1, 2, 1],
        p_null: 5,
        p_absent: 5,
        p_kind_varies: 8,
        p_inherits: 25,
        max_pieces: 10,
        max_comp_depth: 5,
        ..GenCfg::default()
    }
}

pub fn case(t: &mut Tape, scratch: &Scratch) -> CaseResult {
    let style_seed = t.u64();
    let mut g = Gen::new(t, cfg());
    let p = g.project();
    let mut opts = CheckOpts::default();
    opts.style.seed = style_seed;
    let st = check_project(&p, &opts, &scratch.0.join("p"), t)?;
    let txt = serde_json::to_string(&ser::project_to_json(&p)).unwrap_or_default();
    let mut classes = vec![];
    if st.rendered_with_interp > 0 {
        classes.push("interpolated".to_string());
    }
    if st.comp_depth_max >= 2 {
        classes.push("nested-components".to_string());
    }
    if st.comp_depth_max >= 4 {
        classes.push("component-depth>=4".to_string());
    }
    if p.namespaces.is_some() {
        classes.push("namespaces".to_string());
    }
    if st.defaulted_any > 0 {
        classes.push("some-key-defaulted".to_string());
    }
    if st.fk_any > 0 {
        classes.push("foreign-key".to_string());
    }
    if st.expected_error {
        classes.push("expected-error".to_string());
    }
    Ok(CaseInfo {
        hash: hash_str(&txt),
        nontrivial: st.rendered_with_interp > 0 && !st.expected_error,
        classes,
        sample: Some(json!({"project": ser::project_to_json(&p), "observations": st.observations})),
        observations: st.observations,
    })
}

pub fn run(mut ctx: Ctx) -> ! {
    let scratch = Scratch::new("c01");
    if let Some(path) = ctx.replay.clone() {
        ctx.replay_tape("l1", &path, |t| case(t, &scratch));
    } else {
        let cases = ctx.tier.scale(1500, 40000);
        ctx.run_tapes("l1", cases, 1200, |t| case(t, &scratch));
    }
    drop(scratch);
    ctx.finish(
        "generated well-formed projects (1-4 locales, optional namespaces, subkeys to depth 3, strings of 1-10 pieces with \
         components nested to depth 5, unicode/escape/whitespace variants) printed from an AST, loaded by the real parser and \
         every (locale, key, 2 argument assignments) evaluated through Locale.strings; oracle = rendering of the AST by the \
         reference semantics. non-trivial = project with at least one compared key whose value has >=2 pieces and >=1 \
         variable/component/range/plural; distinct = hash of the project",
        &[
            "literal text never contains { } < > or `$t(` (no escape is documented)",
            "parser-level observation: the code generator is covered by the generated-crate tier (L2)",
        ],
        20,
    )
}
