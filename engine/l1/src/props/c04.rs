//! C04 — ranges render the first branch that contains the count (parser-level part).

use vcommon::ctx::Ctx;
use vcommon::gen::GenCfg;
use vcommon::tape::Tape;

use crate::eval::Scratch;
use crate::projcheck::CheckOpts;
use crate::props::common::project_case;

pub fn cfg() -> GenCfg {
    GenCfg {
        locales: (1, 3),
        p_namespaces: 10,
        keys: (2, 8),
        sub_depth: 1,
        w_kinds: [1, 1, 0, 12, 0, 1, 4],
        p_null: 4,
        p_absent: 4,
        p_kind_varies: 10,
        p_inherits: 20,
        max_pieces: 3,
        max_comp_depth: 2,
        ..GenCfg::default()
    }
}

pub fn run(mut ctx: Ctx) -> ! {
    let scratch = Scratch::new("c04");
    let opts = CheckOpts {
        assignments: 6,
        ..CheckOpts::default()
    };
    let case = |t: &mut Tape| project_case(t, cfg(), opts.clone(), &scratch, None, &|_, st| st.range_keys > 0 && !st.expected_error);
    if let Some(path) = ctx.replay.clone() {
        ctx.replay_tape("l1", &path, case);
    } else {
        let cases = ctx.tier.scale(4000, 120000);
        ctx.run_tapes("l1", cases, 1500, case);
    }
    drop(scratch);
    ctx.finish(
        "generated range declarations (10 numeric types + implicit i32; exact / a..b / a..=b / a.. / ..b / ..=b / lists / `|`; \
         sequence and {count,value} syntaxes; overlapping branches; bounds at type extremes) printed from an AST and loaded by the \
         parser; the parsed Range<T> values are matched by an independent matcher for 6 probe counts per key chosen among every \
         bound +-2, type extremes and 0/1/2 (floats: bound +-1 ulp), and `$t(range, {\"count\": n})` keys must resolve to the same \
         branch at parse time; oracle = first branch containing the count on i128 / f64. non-trivial = project with a range key; \
         distinct = project hash",
        &["the run-time match arms generated for ranges are observed by the generated-crate stage"],
        20,
    )
}
