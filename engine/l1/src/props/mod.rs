pub mod c01;
