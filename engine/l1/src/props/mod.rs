pub mod c01;
pub mod c03;
pub mod c06;
pub mod common;
