pub mod c01;
pub mod c03;
pub mod c06;
pub mod c07;
pub mod c08;
pub mod c11;
pub mod c20;
pub mod common;
