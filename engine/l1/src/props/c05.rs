//! C05 — plural forms are selected by the locale's CLDR plural rules (parser-level part).
//!
//! * cross-check of the hand-transcribed CLDR rules against ICU4X (harness validity, exit 2);
//! * generated plural-heavy projects: literal counts through `$t` are resolved at parse time and
//!   compared with the model; UnusedForm diagnostics compared with the model;
//! * raw plural-shaped key sets (negative shapes): mixing cardinal and ordinal, collisions with a
//!   plain key, single forms, forms without `other`, plural-shaped keys holding ranges / subkeys.

use std::collections::{BTreeMap, BTreeSet};

use serde_json::json;
use vcommon::ctx::{hash_str, CaseInfo, CaseResult, Ctx, Failure};
use vcommon::gen::GenCfg;
use vcommon::model::*;
use vcommon::sem::{plural_categories, plural_category_f64, plural_category_int};
use vcommon::ser::{self, FileVal, Format, Style};
use vcommon::tape::Tape;

use leptos_i18n_parser::parse_locales::parsed_value::ParsedValue;
use leptos_i18n_parser::parse_locales::plurals::{PluralForm, PluralRuleType};
use leptos_i18n_parser::parse_locales::warning::Warning;

use crate::eval::{self, LoadOutcome, Scratch};
use crate::projcheck::CheckOpts;
use crate::props::common::project_case;

pub const PLURAL_LOCALES: &[&str] = &["en", "fr", "ru", "pl", "ar", "cy", "ja", "he", "lt", "ga", "sl", "pt-PT", "de", "es", "it", "pt", "zh", "en-US", "fr-CA"];

pub fn cfg() -> GenCfg {
    GenCfg {
        locales: (1, 4),
        locale_pool: PLURAL_LOCALES,
        p_namespaces: 10,
        keys: (2, 7),
        sub_depth: 1,
        w_kinds: [1, 1, 0, 0, 12, 1, 5],
        p_null: 8,
        p_absent: 8,
        p_kind_varies: 5,
        p_inherits: 35,
        max_pieces: 3,
        max_comp_depth: 2,
        ..GenCfg::default()
    }
}

fn fail(sig: &str, detail: serde_json::Value) -> Failure {
    Failure {
        signature: sig.into(),
        detail,
    }
}

fn icu_form(c: icu_plurals::PluralCategory) -> Form {
    use icu_plurals::PluralCategory as C;
    match c {
        C::Zero => Form::Zero,
        C::One => Form::One,
        C::Two => Form::Two,
        C::Few => Form::Few,
        C::Many => Form::Many,
        C::Other => Form::Other,
    }
}

/// the hand rules must agree with ICU4X on a broad sample, otherwise the harness itself is wrong
fn cross_check_cldr() -> Result<u64, String> {
    use fixed_decimal::FixedDecimal;
    use icu_plurals::{PluralRuleType as R, PluralRules};
    let mut n = 0u64;
    for loc in PLURAL_LOCALES {
        let l: icu_locid::Locale = loc.parse().map_err(|e| format!("{loc}: {e}"))?;
        for ordinal in [false, true] {
            let rules = PluralRules::try_new(&(&l).into(), if ordinal { R::Ordinal } else { R::Cardinal }).map_err(|e| format!("{loc}: {e}"))?;
            let mut ints: Vec<u64> = (0..=2500).collect();
            ints.extend([10_000, 100_000, 1_000_000, 1_000_001, 2_000_000, 3_000_003, 10_000_000, 1_000_000_000, 1_000_000_000_000, 11_000_000, 101_000_000]);
            for i in ints {
                let got = icu_form(rules.category_for(i));
                let exp = plural_category_int(loc, ordinal, i as i128).ok_or(format!("no hand rules for {loc}"))?;
                n += 1;
                if got != exp {
                    return Err(format!("hand CLDR rules disagree with ICU4X: locale {loc} ordinal={ordinal} n={i}: hand {exp:?} icu {got:?}"));
                }
            }
            for f in [0.0, 0.5, 1.0, 1.5, 1.1, 2.5, 0.1, 10.5, 1.25, 100.75, 2.0, 3.5, 11.5, 21.5, 0.25, 5.5, 1000000.5] {
                let fd = FixedDecimal::try_from_f64(f, fixed_decimal::FloatPrecision::Floating).map_err(|e| e.to_string())?;
                let got = icu_form(rules.category_for(&fd));
                let exp = plural_category_f64(loc, ordinal, f).ok_or(format!("no operands for {f}"))?;
                n += 1;
                if got != exp {
                    return Err(format!("hand CLDR rules disagree with ICU4X: locale {loc} ordinal={ordinal} n={f}: hand {exp:?} icu {got:?}"));
                }
            }
            let cats: BTreeSet<Form> = rules.categories().map(icu_form).collect();
            let exp = plural_categories(loc, ordinal).ok_or(format!("no categories for {loc}"))?;
            if cats != exp {
                return Err(format!("hand category set disagrees with ICU4X: locale {loc} ordinal={ordinal}: hand {exp:?} icu {cats:?}"));
            }
        }
    }
    Ok(n)
}

fn form_of(f: PluralForm) -> Form {
    match f {
        PluralForm::Zero => Form::Zero,
        PluralForm::One => Form::One,
        PluralForm::Two => Form::Two,
        PluralForm::Few => Form::Few,
        PluralForm::Many => Form::Many,
        PluralForm::Other => Form::Other,
    }
}

/// expected UnusedForm diagnostics of a project: every written plural group, every locale
fn expected_unused(p: &Project) -> Vec<(String, String, Form, bool)> {
    fn walk(o: &Obj, ns: Option<&str>, loc: &str, prefix: &mut Vec<String>, out: &mut Vec<(String, String, Form, bool)>) {
        for (k, v) in o {
            prefix.push(k.clone());
            match v {
                Value::Plural(pl) => {
                    if let Some(cats) = plural_categories(loc, pl.ordinal) {
                        for (f, _) in &pl.forms {
                            if *f != Form::Other && !cats.contains(f) {
                                let path = match ns {
                                    Some(ns) => format!("{}::{}", ns, prefix.join(".")),
                                    None => prefix.join("."),
                                };
                                out.push((loc.to_string(), path, *f, pl.ordinal));
                            }
                        }
                    }
                }
                Value::Sub(inner) => walk(inner, ns, loc, prefix, out),
                _ => {}
            }
            prefix.pop();
        }
    }
    let mut out = vec![];
    for ((ns, loc), obj) in &p.files {
        walk(obj, ns.as_deref(), loc, &mut vec![], &mut out);
    }
    out.sort();
    out
}

fn unused_case(t: &mut Tape, scratch: &Scratch) -> CaseResult {
    // plural-heavy project; then compare the UnusedForm diagnostics
    let style_seed = t.u64();
    let mut g = vcommon::gen::Gen::new(t, cfg());
    let p = g.project();
    let sem = vcommon::sem::Sem::new(&p);
    let pj = ser::project_to_json(&p);
    if !vcommon::sem::expected_errors(&p, &sem).is_empty() {
        return Ok(CaseInfo {
            hash: hash_str(&pj.to_string()),
            nontrivial: false,
            classes: vec!["skipped:expected-error".into()],
            sample: None,
            observations: 0,
        });
    }
    let dir = scratch.0.join("u");
    let style = Style {
        format: Format::Json,
        seed: style_seed,
        escapes: 1,
    };
    ser::write_project(&p, &dir, &style).map_err(|e| fail("harness-io", json!({"e": e.to_string()})))?;
    let loaded = match eval::load(&dir) {
        LoadOutcome::Ok(l) => l,
        LoadOutcome::Err(e) => return Err(fail("rejected-valid-project", json!({"error": e.to_string(), "project": pj}))),
        LoadOutcome::Panic(m) => return Err(fail("panic", json!({"panic": m, "project": pj}))),
    };
    let mut got: Vec<(String, String, Form, bool)> = loaded
        .warnings
        .iter()
        .filter_map(|w| match w {
            Warning::UnusedForm { locale, key_path, form, rule_type } => Some((locale.name.to_string(), key_path.to_string(), form_of(*form), *rule_type == PluralRuleType::Ordinal)),
            _ => None,
        })
        .collect();
    got.sort();
    let exp = expected_unused(&p);
    if got != exp {
        return Err(fail(
            "unused-form-diagnostics-mismatch",
            json!({"expected": format!("{exp:?}"), "actual": format!("{got:?}"), "project": pj}),
        ));
    }
    Ok(CaseInfo {
        hash: hash_str(&pj.to_string()),
        nontrivial: !exp.is_empty(),
        classes: vec![if exp.is_empty() { "no-unused-form".into() } else { "unused-forms-reported".into() }],
        sample: if exp.is_empty() { None } else { Some(json!({"project": pj, "unused": format!("{exp:?}")})) },
        observations: 1,
    })
}

// ---- raw plural-shaped key sets ----------------------------------------------------------

#[derive(Debug, Clone, PartialEq)]
enum ShapeExpect {
    /// plural key `base` with these forms (other included), of the given type
    Plural { ordinal: bool, forms: BTreeSet<Form> },
    /// every written key stays a plain key
    Plain,
    Err,
}

const FORM_LIST: [Form; 6] = [Form::Zero, Form::One, Form::Two, Form::Few, Form::Many, Form::Other];

fn shape_case(t: &mut Tape, scratch: &Scratch) -> CaseResult {
    let loc = PLURAL_LOCALES[t.pick(PLURAL_LOCALES.len())];
    let base = ["item", "msg", "k_1", "count_of", "a"][t.pick(5)];
    // written keys: subsets of cardinal and ordinal forms
    let mut card: BTreeSet<Form> = BTreeSet::new();
    let mut ord: BTreeSet<Form> = BTreeSet::new();
    let style = t.weighted(&[4, 2, 2]);
    for f in FORM_LIST {
        if t.chance(2, 5) {
            card.insert(f);
        }
    }
    if style >= 1 {
        for f in FORM_LIST {
            if t.chance(if style == 1 { 1 } else { 2 }, 5) {
                ord.insert(f);
            }
        }
    }
    if t.chance(1, 2) {
        card.insert(Form::Other);
    }
    let plain_collision = t.chance(1, 8);
    let non_string_holder = if t.chance(1, 6) { Some(t.pick(2)) } else { None };
    let mut entries: Vec<(String, FileVal)> = vec![("ctl".into(), FileVal::Str("ctl".into()))];
    let mut excluded: BTreeSet<(bool, Form)> = BTreeSet::new();
    for (ordinal, set) in [(false, &card), (true, &ord)] {
        for f in set {
            let key = ser::plural_key(base, ordinal, *f);
            let is_first = !ordinal && Some(f) == card.iter().next();
            let v = match (non_string_holder, is_first) {
                (Some(0), true) => {
                    excluded.insert((ordinal, *f));
                    FileVal::Seq(vec![FileVal::Seq(vec![FileVal::Str("r".into()), FileVal::Str("1".into())]), FileVal::Seq(vec![FileVal::Str("fb".into())])])
                }
                (Some(_), true) => {
                    excluded.insert((ordinal, *f));
                    FileVal::Map(vec![("inner".into(), FileVal::Str("x".into()))])
                }
                _ => FileVal::Str(format!("{}:{}", key, "{{ count }}")),
            };
            entries.push((key, v));
        }
    }
    if plain_collision {
        entries.push((base.to_string(), FileVal::Str("plain".into())));
    }
    let perm = t.permutation(entries.len());
    let entries: Vec<(String, FileVal)> = perm.into_iter().map(|i| entries[i].clone()).collect();
    // model
    let eff_card: BTreeSet<Form> = card.iter().filter(|f| !excluded.contains(&(false, **f))).copied().collect();
    let eff_ord: BTreeSet<Form> = ord.iter().filter(|f| !excluded.contains(&(true, **f))).copied().collect();
    let total = eff_card.len() + eff_ord.len();
    let expect = if total <= 1 {
        ShapeExpect::Plain
    } else if !eff_card.is_empty() && !eff_ord.is_empty() {
        // both rule types under one base: either an error, or (when neither side forms a plural on its
        // own: no `other` at all) plain keys. Never a silent loss.
        if eff_card.contains(&Form::Other) || eff_ord.contains(&Form::Other) {
            ShapeExpect::Err
        } else if eff_card.intersection(&eff_ord).next().is_some() {
            ShapeExpect::Err
        } else {
            ShapeExpect::Plain
        }
    } else {
        let (ordinal, set) = if eff_card.is_empty() { (true, &eff_ord) } else { (false, &eff_card) };
        if set.contains(&Form::Other) && set.len() >= 2 {
            if plain_collision {
                ShapeExpect::Err
            } else {
                ShapeExpect::Plural { ordinal, forms: set.clone() }
            }
        } else {
            ShapeExpect::Plain
        }
    };
    // write
    let dir = scratch.0.join("s");
    let _ = std::fs::remove_dir_all(&dir);
    let _ = std::fs::create_dir_all(dir.join("locales"));
    let _ = std::fs::write(dir.join("Cargo.toml"), format!("[package]\nname = \"x\"\n[package.metadata.leptos-i18n]\ndefault = \"{loc}\"\nlocales = [\"{loc}\"]\n"));
    let text = ser::fileval_to_text(&FileVal::Map(entries.clone()), &Style::plain(Format::Json));
    let _ = std::fs::write(dir.join(format!("locales/{loc}.json")), &text);
    let detail = |extra: serde_json::Value| json!({"locale": loc, "file": text, "expected": format!("{expect:?}"), "extra": extra});
    let outcome = eval::load(&dir);
    let mut classes = vec![];
    match (&outcome, &expect) {
        (LoadOutcome::Panic(m), _) => return Err(fail("panic", detail(json!({"panic": m})))),
        (LoadOutcome::Err(e), ShapeExpect::Err) => {
            if e.to_string().trim().is_empty() {
                return Err(fail("empty-error-message", detail(json!(null))));
            }
            classes.push("rejected-as-expected".to_string());
        }
        (LoadOutcome::Err(e), _) => return Err(fail("rejected-valid-plural-shape", detail(json!({"error": e.to_string()})))),
        (LoadOutcome::Ok(_), ShapeExpect::Err) => {
            return Err(fail(
                if !eff_card.is_empty() && !eff_ord.is_empty() { "cardinal-ordinal-mix-accepted" } else { "plural-collision-accepted" },
                detail(json!(null)),
            ))
        }
        (LoadOutcome::Ok(l), _) => {
            let keys: BTreeSet<String> = l.leaf_paths(None).into_iter().map(|p| p.join(".")).collect();
            let mut expected_keys: BTreeSet<String> = BTreeSet::new();
            expected_keys.insert("ctl".into());
            match &expect {
                ShapeExpect::Plural { ordinal, forms } => {
                    expected_keys.insert(base.to_string());
                    // excluded holders stay plain keys
                    for (o, f) in &excluded {
                        let k = ser::plural_key(base, *o, *f);
                        // a subkeys holder is a group, its leaf is `k.inner`
                        if non_string_holder == Some(1) {
                            expected_keys.insert(format!("{k}.inner"));
                        } else {
                            expected_keys.insert(k);
                        }
                    }
                    match l.value_at(None, loc, &[base.to_string()]) {
                        Ok((ParsedValue::Plurals(pl), _, _)) => {
                            let got_forms: BTreeSet<Form> = pl.forms.keys().map(|f| form_of(*f)).chain([Form::Other]).collect();
                            let got_ord = pl.rule_type == PluralRuleType::Ordinal;
                            if got_forms != *forms || got_ord != *ordinal {
                                return Err(fail("plural-forms-mismatch", detail(json!({"got_forms": format!("{got_forms:?}"), "got_ordinal": got_ord}))));
                            }
                        }
                        other => return Err(fail("plural-not-merged", detail(json!({"got": format!("{:?}", other.map(|x| format!("{:?}", x.0)))})))),
                    }
                    classes.push("merged-plural".into());
                }
                ShapeExpect::Plain => {
                    for (ordinal, set) in [(false, &card), (true, &ord)] {
                        for f in set {
                            let k = ser::plural_key(base, ordinal, *f);
                            if excluded.contains(&(ordinal, *f)) && non_string_holder == Some(1) {
                                expected_keys.insert(format!("{k}.inner"));
                            } else {
                                expected_keys.insert(k);
                            }
                        }
                    }
                    if plain_collision {
                        expected_keys.insert(base.to_string());
                    }
                    classes.push("stays-plain".into());
                }
                ShapeExpect::Err => unreachable!(),
            }
            if keys != expected_keys {
                return Err(fail("plural-shape-keyset-mismatch", detail(json!({"keys": keys, "expected_keys": expected_keys}))));
            }
        }
    }
    if !eff_card.is_empty() && !eff_ord.is_empty() {
        classes.push("cardinal+ordinal-under-one-base".into());
    }
    if plain_collision {
        classes.push("plain-key-collision".into());
    }
    if non_string_holder.is_some() {
        classes.push("plural-shaped-key-holding-range-or-subkeys".into());
    }
    let _: BTreeMap<u8, u8> = BTreeMap::new();
    Ok(CaseInfo {
        hash: hash_str(&text),
        nontrivial: total >= 2,
        classes,
        sample: Some(json!({"locale": loc, "file": text, "expected": format!("{expect:?}")})),
        observations: 1,
    })
}

pub fn run(mut ctx: Ctx) -> ! {
    let scratch = Scratch::new("c05");
    let opts = CheckOpts {
        assignments: 6,
        ..CheckOpts::default()
    };
    let case = |t: &mut Tape| project_case(t, cfg(), opts.clone(), &scratch, None, &|_, st| st.plural_keys > 0 && !st.expected_error);
    if let Some(path) = ctx.replay.clone() {
        match Ctx::replay_engine(&path).as_deref() {
            Some("l1-unused") => ctx.replay_tape("l1-unused", &path, |t| unused_case(t, &scratch)),
            Some("l1-shapes") => ctx.replay_tape("l1-shapes", &path, |t| shape_case(t, &scratch)),
            _ => ctx.replay_tape("l1", &path, case),
        };
    } else {
        match cross_check_cldr() {
            Ok(n) => ctx.set_extra("cldr_hand_rules_vs_icu4x_points_agreeing", json!(n)),
            Err(e) => ctx.harness_error(e),
        }
        let cases = ctx.tier.scale(3000, 100000);
        ctx.run_tapes("l1", cases, 1500, case);
        ctx.run_tapes("l1-unused", ctx.tier.scale(2000, 50000), 1500, |t| unused_case(t, &scratch));
        ctx.run_tapes("l1-shapes", ctx.tier.scale(6000, 150000), 200, |t| shape_case(t, &scratch));
    }
    drop(scratch);
    ctx.finish(
        "(0) the hand-transcribed CLDR rules used as oracle are compared with ICU4X on 0..=2500, large samples and decimals for 19 \
         locales x {cardinal, ordinal} (disagreement = harness error). (1) generated plural-heavy projects in locales covering every \
         category pattern: parsed Plurals nodes are evaluated for 6 probe counts per key, and `$t(k, {\"count\": n})` with integer \
         and decimal literals must resolve at parse time to the form the rules select. (2) UnusedForm diagnostics equal written \
         forms minus the locale's categories, for every written group. (3) raw plural-shaped key sets: all subsets of cardinal / \
         ordinal forms under one base, collisions with a plain key, plural-shaped keys holding ranges or subkeys; expected: merged \
         plural with exactly the written forms, or plain keys (single form / no `other`), or an error (mixing, collision) - never a \
         silent loss. non-trivial = project with a plural key / expected unused forms / >=2 plural-shaped keys; distinct = hash",
        &[
            "the run-time selection in generated code is observed by the generated-crate stage",
            "a plural inherited from another locale is selected by the rules of the locale being rendered (what every accessor flavour does on the pinned tree)",
        ],
        20,
    )
}
