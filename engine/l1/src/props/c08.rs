//! C08 — a key's required arguments are the union over all locales (parser-level part).

use serde_json::json;
use vcommon::ctx::{hash_str, CaseInfo, CaseResult, Ctx, Failure};
use vcommon::gen::GenCfg;
use vcommon::tape::Tape;

use crate::eval::Scratch;
use crate::projcheck::{check_project, CheckOpts};
use crate::props::common::{project_case, std_classes};

/// one inherits map of the enumerated domain with locale-specific member names (see `c08_project_for_map`)
fn enum_case(map: [usize; 3], scratch: &Scratch) -> CaseResult {
    let p = vcommon::gen::c08_project_for_map(map);
    let mut t = Tape::new(vec![]);
    let opts = CheckOpts {
        assignments: 1,
        ..CheckOpts::default()
    };
    let st = check_project(&p, &opts, &scratch.0.join("e"), &mut t).map_err(|mut f| {
        f.detail["case"] = json!({"map": map});
        f
    })?;
    if st.expected_error {
        return Err(Failure {
            signature: "harness-model".into(),
            detail: json!({"error": "the enumerated project is rejected by the model", "kinds": st.expected_error_kinds, "case": {"map": map}}),
        });
    }
    let mut classes = std_classes(&p, &st);
    classes.push("enumerated-inherits-domain-with-locale-specific-members".to_string());
    Ok(CaseInfo {
        hash: hash_str(&format!("c08-enum{map:?}")),
        nontrivial: true,
        classes,
        sample: if map == [2, 3, 0] { Some(json!({"enumerated": {"map": map}, "locales": p.locales, "inherits": p.inherits})) } else { None },
        observations: st.observations,
    })
}

pub fn cfg() -> GenCfg {
    GenCfg {
        locales: (2, 5),
        p_namespaces: 20,
        keys: (2, 8),
        sub_depth: 2,
        w_kinds: [3, 6, 3, 3, 3, 2, 5],
        p_null: 6,
        p_absent: 6,
        p_kind_varies: 45,
        p_inherits: 25,
        max_pieces: 5,
        max_comp_depth: 3,
        p_count_conflict: 6,
        fk_to_null: true,
        hyphen_vars: true,
        hyphen_keys: true,
        ..GenCfg::default()
    }
}

pub fn run(mut ctx: Ctx) -> ! {
    let scratch = Scratch::new("c08");
    let case = |t: &mut Tape| {
        project_case(t, cfg(), CheckOpts::default(), &scratch, None, &|_, st| st.multi_locale_sig > 0 && !st.expected_error)
    };
    if let Some(path) = ctx.replay.clone() {
        if vcommon::ctx::Ctx::replay_engine(&path).as_deref() == Some("l1-enum") {
            let v: serde_json::Value = serde_json::from_str(&std::fs::read_to_string(&path).unwrap_or_default()).unwrap_or_default();
            let m: Vec<usize> = v["detail"]["case"]["map"].as_array().map(|a| a.iter().map(|x| x.as_u64().unwrap_or(0) as usize).collect()).unwrap_or_default();
            if m.len() == 3 {
                match enum_case([m[0], m[1], m[2]], &scratch) {
                    Ok(i) => ctx.record(i),
                    Err(f) => {
                        ctx.fail("l1-enum", None, &f);
                    }
                }
            }
        } else {
            ctx.replay_tape("l1", &path, case);
        }
    } else {
        // the enumerated 4-locale domain: every inherits map x every presence pattern, members named after their locale
        let mut complete = true;
        for m in 0..125usize {
            match enum_case([m % 5, (m / 5) % 5, m / 25], &scratch) {
                Ok(i) => ctx.record(i),
                Err(f) => {
                    complete = false;
                    if ctx.fail("l1-enum", None, &f) {
                        break;
                    }
                }
            }
        }
        ctx.set_extra("enumerated_domain", json!({"inherits_maps": 125, "presence_patterns": 27, "complete": complete}));
        let cases = ctx.tier.scale(4000, 120000);
        ctx.run_tapes("l1", cases, 1500, case);
    }
    drop(scratch);
    ctx.finish(
        "part 1 (exhaustive): the enumerated 4-locale domain (125 inherits maps x 27 presence patterns x 4 value kinds, groups, and 7 \
         reference shapes per pattern) in which every locale names its variables and components after itself, so the required member \
         set of a key names the locales its values came from. part 2 (random): generated projects whose keys differ per locale in kind (string / interpolation / literal of each JSON type / range of \
         each numeric type / plural / reference renaming or fixing a count) and in variable / component sets; a few percent carry a \
         deliberate count conflict (two range types, or range + plural on one count variable) that must be rejected. oracle: the \
         InterpolOrLit the parser computes for each key (variables, components, count kind and type) equals the union over locales \
         of the members of the AST after `$t` substitution; rendering with exactly that set succeeds for every locale. \
         non-trivial = project with a key to which >=2 locales contribute different member sets; distinct = project hash",
        &["the compile-time half (typed builder accepts exactly the set) is covered by the generated-crate tier"],
        20,
    )
}
