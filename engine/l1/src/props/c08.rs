//! C08 — a key's required arguments are the union over all locales (parser-level part).

use vcommon::ctx::Ctx;
use vcommon::gen::GenCfg;
use vcommon::tape::Tape;

use crate::eval::Scratch;
use crate::projcheck::CheckOpts;
use crate::props::common::project_case;

pub fn cfg() -> GenCfg {
    GenCfg {
        locales: (2, 5),
        p_namespaces: 20,
        keys: (2, 8),
        sub_depth: 2,
        w_kinds: [3, 6, 3, 3, 3, 2, 5],
        p_null: 6,
        p_absent: 6,
        p_kind_varies: 45,
        p_inherits: 25,
        max_pieces: 5,
        max_comp_depth: 3,
        p_count_conflict: 6,
        fk_to_null: true,
        ..GenCfg::default()
    }
}

pub fn run(mut ctx: Ctx) -> ! {
    let scratch = Scratch::new("c08");
    let case = |t: &mut Tape| {
        project_case(t, cfg(), CheckOpts::default(), &scratch, None, &|_, st| st.multi_locale_sig > 0 && !st.expected_error)
    };
    if let Some(path) = ctx.replay.clone() {
        ctx.replay_tape("l1", &path, case);
    } else {
        let cases = ctx.tier.scale(4000, 120000);
        ctx.run_tapes("l1", cases, 1500, case);
    }
    drop(scratch);
    ctx.finish(
        "generated projects whose keys differ per locale in kind (string / interpolation / literal of each JSON type / range of \
         each numeric type / plural / reference renaming or fixing a count) and in variable / component sets; a few percent carry a \
         deliberate count conflict (two range types, or range + plural on one count variable) that must be rejected. oracle: the \
         InterpolOrLit the parser computes for each key (variables, components, count kind and type) equals the union over locales \
         of the members of the AST after `$t` substitution; rendering with exactly that set succeeds for every locale. \
         non-trivial = project with a key to which >=2 locales contribute different member sets; distinct = project hash",
        &["the compile-time half (typed builder accepts exactly the set) is covered by the generated-crate tier"],
        20,
    )
}
