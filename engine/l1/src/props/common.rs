//! shared driver for the properties whose oracle is the general project check

use serde_json::json;
use vcommon::ctx::{hash_str, CaseInfo, CaseResult};
use vcommon::gen::{Gen, GenCfg};
use vcommon::model::Project;
use vcommon::ser;
use vcommon::tape::Tape;

use crate::eval::Scratch;
use crate::projcheck::{check_project, CheckOpts, ProjStats};
#[allow(unused_imports)]
use vcommon::model::*;

pub fn std_classes(p: &Project, st: &ProjStats) -> Vec<String> {
    let mut classes = vec![];
    let mut add = |c: bool, s: &str| {
        if c {
            classes.push(s.to_string())
        }
    };
    add(st.rendered_with_interp > 0, "interpolated");
    add(st.comp_depth_max >= 2, "nested-components");
    add(st.comp_depth_max >= 4, "component-depth>=4");
    add(p.namespaces.is_some(), "namespaces");
    add(p.locales.len() >= 3, "locales>=3");
    add(!p.inherits.is_empty(), "inherits");
    add(st.defaulted_any > 0, "some-key-defaulted");
    add(st.defaulted_hops2 > 0, "defaulted-not-directly-to-default");
    add(st.fk_any > 0, "foreign-key");
    add(st.fk_depth2 > 0, "foreign-key-chain");
    add(st.range_keys > 0, "range");
    add(st.plural_keys > 0, "plural");
    add(st.multi_locale_sig > 0, "signature-differs-across-locales");
    add(st.expected_error, "expected-error");
    for k in &st.expected_error_kinds {
        classes.push(format!("expected-error:{k}"));
    }
    classes
}

/// generate a project (optionally mutated), check it, and package the case
pub fn project_case(
    t: &mut Tape,
    cfg: GenCfg,
    mut opts: CheckOpts,
    scratch: &Scratch,
    mutate: Option<&dyn Fn(&mut Project, &mut Tape) -> Option<String>>,
    nontrivial: &dyn Fn(&Project, &ProjStats) -> bool,
) -> CaseResult {
    let style_seed = t.u64();
    let mut g = Gen::new(t, cfg);
    let mut p = g.project();
    let mut mutation = None;
    if let Some(m) = mutate {
        mutation = m(&mut p, t);
    }
    opts.style.seed = style_seed;
    let st = match check_project(&p, &opts, &scratch.0.join("p"), t) {
        Ok(st) => st,
        Err(f) => return Err(minimize(&p, &opts, scratch, f)),
    };
    let pj = ser::project_to_json(&p);
    let txt = serde_json::to_string(&pj).unwrap_or_default();
    let mut classes = std_classes(&p, &st);
    if let Some(m) = &mutation {
        classes.push(format!("mutation:{m}"));
    }
    Ok(CaseInfo {
        hash: hash_str(&txt),
        nontrivial: nontrivial(&p, &st),
        classes,
        sample: Some(json!({"project": pj, "mutation": mutation, "observations": st.observations})),
        observations: st.observations,
    })
}

/// AST-level reduction of a failing project (after proptest has shrunk the tape): greedily drop
/// top-level keys, then non-default locales, then namespaces, as long as the same failure signature
/// persists. The reduced project is attached to the failure detail; the replay stays the tape.
pub fn minimize(p: &Project, opts: &CheckOpts, scratch: &Scratch, first: vcommon::ctx::Failure) -> vcommon::ctx::Failure {
    if first.signature.starts_with("harness") {
        return first;
    }
    let dir = scratch.0.join("min");
    let still = |cand: &Project| -> Option<vcommon::ctx::Failure> {
        let mut t = Tape::new(vec![]);
        match check_project(cand, opts, &dir, &mut t) {
            Err(f) if f.signature == first.signature => Some(f),
            _ => None,
        }
    };
    let mut cur = p.clone();
    let mut best = match still(&cur) {
        Some(f) => f,
        None => return first, // depends on the tape-chosen arguments: keep the original
    };
    let mut budget = 400;
    // namespaces
    if let Some(nss) = cur.namespaces.clone() {
        for ns in nss {
            if cur.namespaces.as_ref().map(|v| v.len()).unwrap_or(0) <= 1 || budget == 0 {
                break;
            }
            let mut cand = cur.clone();
            cand.namespaces.as_mut().unwrap().retain(|n| *n != ns);
            cand.files.retain(|(n, _), _| n.as_deref() != Some(ns.as_str()));
            budget -= 1;
            if let Some(f) = still(&cand) {
                cur = cand;
                best = f;
            }
        }
    }
    // non-default locales
    for loc in cur.locales.clone().into_iter().skip(1) {
        if budget == 0 {
            break;
        }
        let mut cand = cur.clone();
        cand.locales.retain(|l| *l != loc);
        cand.inherits.retain(|k, v| *k != loc && *v != loc);
        cand.files.retain(|(_, l), _| *l != loc);
        budget -= 1;
        if let Some(f) = still(&cand) {
            cur = cand;
            best = f;
        }
    }
    // inherits entries
    for k in cur.inherits.keys().cloned().collect::<Vec<_>>() {
        let mut cand = cur.clone();
        cand.inherits.remove(&k);
        if budget == 0 {
            break;
        }
        budget -= 1;
        if let Some(f) = still(&cand) {
            cur = cand;
            best = f;
        }
    }
    // top-level keys (in every locale of the namespace), repeated until nothing more can go
    loop {
        let mut progress = false;
        // every key path, nested ones included (deepest first so that groups empty out)
        fn all_paths(o: &Obj, prefix: &mut Vec<String>, out: &mut std::collections::BTreeSet<Vec<String>>) {
            for (k, v) in o {
                prefix.push(k.clone());
                out.insert(prefix.clone());
                if let Value::Sub(inner) = v {
                    all_paths(inner, prefix, out);
                }
                prefix.pop();
            }
        }
        fn delete_path(o: &mut Obj, path: &[String]) {
            match path {
                [] => {}
                [k] => o.retain(|(kk, _)| kk != k),
                [k, rest @ ..] => {
                    for (kk, v) in o.iter_mut() {
                        if kk == k {
                            if let Value::Sub(inner) = v {
                                delete_path(inner, rest);
                            }
                        }
                    }
                    // drop groups that became empty
                    o.retain(|(kk, v)| !(kk == k && matches!(v, Value::Sub(i) if i.is_empty())));
                }
            }
        }
        let mut keys: Vec<(Option<String>, Vec<String>)> = vec![];
        for ((ns, _), o) in &cur.files {
            let mut set = std::collections::BTreeSet::new();
            all_paths(o, &mut vec![], &mut set);
            for pth in set {
                if !keys.contains(&(ns.clone(), pth.clone())) {
                    keys.push((ns.clone(), pth));
                }
            }
        }
        keys.sort_by_key(|(_, pth)| std::cmp::Reverse(pth.len()));
        for (ns, k) in keys {
            if budget == 0 {
                break;
            }
            let mut cand = cur.clone();
            for ((n, _), o) in cand.files.iter_mut() {
                if *n == ns {
                    delete_path(o, &k);
                }
            }
            if cand == cur {
                continue;
            }
            // every namespace keeps a non-empty default file
            if cand.files.iter().any(|((_, l), o)| l == cand.default_locale() && o.is_empty()) {
                continue;
            }
            budget -= 1;
            if let Some(f) = still(&cand) {
                cur = cand;
                best = f;
                progress = true;
            }
        }
        if !progress || budget == 0 {
            break;
        }
    }
    let mut out = best;
    out.detail["minimized_project"] = ser::project_to_json(&cur);
    out.detail["minimized_note"] = json!("greedy AST-level deletion of namespaces / locales / inherits entries / keys under the same failure signature; the replay tape reproduces the case before this reduction");
    out
}
