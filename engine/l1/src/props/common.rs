//! shared driver for the properties whose oracle is the general project check

use serde_json::json;
use vcommon::ctx::{hash_str, CaseInfo, CaseResult};
use vcommon::gen::{Gen, GenCfg};
use vcommon::model::Project;
use vcommon::ser;
use vcommon::tape::Tape;

use crate::eval::Scratch;
use crate::projcheck::{check_project, CheckOpts, ProjStats};

pub fn std_classes(p: &Project, st: &ProjStats) -> Vec<String> {
    let mut classes = vec![];
    let mut add = |c: bool, s: &str| {
        if c {
            classes.push(s.to_string())
        }
    };
    add(st.rendered_with_interp > 0, "interpolated");
    add(st.comp_depth_max >= 2, "nested-components");
    add(st.comp_depth_max >= 4, "component-depth>=4");
    add(p.namespaces.is_some(), "namespaces");
    add(p.locales.len() >= 3, "locales>=3");
    add(!p.inherits.is_empty(), "inherits");
    add(st.defaulted_any > 0, "some-key-defaulted");
    add(st.defaulted_hops2 > 0, "defaulted-not-directly-to-default");
    add(st.fk_any > 0, "foreign-key");
    add(st.fk_depth2 > 0, "foreign-key-chain");
    add(st.range_keys > 0, "range");
    add(st.plural_keys > 0, "plural");
    add(st.multi_locale_sig > 0, "signature-differs-across-locales");
    add(st.expected_error, "expected-error");
    for k in &st.expected_error_kinds {
        classes.push(format!("expected-error:{k}"));
    }
    classes
}

/// generate a project (optionally mutated), check it, and package the case
pub fn project_case(
    t: &mut Tape,
    cfg: GenCfg,
    mut opts: CheckOpts,
    scratch: &Scratch,
    mutate: Option<&dyn Fn(&mut Project, &mut Tape) -> Option<String>>,
    nontrivial: &dyn Fn(&Project, &ProjStats) -> bool,
) -> CaseResult {
    let style_seed = t.u64();
    let mut g = Gen::new(t, cfg);
    let mut p = g.project();
    let mut mutation = None;
    if let Some(m) = mutate {
        mutation = m(&mut p, t);
    }
    opts.style.seed = style_seed;
    let st = check_project(&p, &opts, &scratch.0.join("p"), t)?;
    let pj = ser::project_to_json(&p);
    let txt = serde_json::to_string(&pj).unwrap_or_default();
    let mut classes = std_classes(&p, &st);
    if let Some(m) = &mutation {
        classes.push(format!("mutation:{m}"));
    }
    Ok(CaseInfo {
        hash: hash_str(&txt),
        nontrivial: nontrivial(&p, &st),
        classes,
        sample: Some(json!({"project": pj, "mutation": mutation, "observations": st.observations})),
        observations: st.observations,
    })
}
