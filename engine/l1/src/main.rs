extern crate proc_macro;

// The proc-macro crate's implementation, compiled from the working tree's source files so that the
// code generator runs in-process (proc_macro2 falls back to its stand-alone implementation).
// The macro crate refers to its modules as `crate::load_locales`, `crate::utils`, ...
#[path = "/repo/leptos_i18n_macro/src/data_provider.rs"]
#[allow(dead_code, unused_imports)]
mod data_provider;
#[path = "/repo/leptos_i18n_macro/src/load_locales/mod.rs"]
#[allow(dead_code, unused_imports)]
pub(crate) mod load_locales;
#[path = "/repo/leptos_i18n_macro/src/t_format/mod.rs"]
#[allow(dead_code, unused_imports)]
pub(crate) mod t_format;
#[path = "/repo/leptos_i18n_macro/src/t_macro/mod.rs"]
#[allow(dead_code, unused_imports)]
pub(crate) mod t_macro;
#[path = "/repo/leptos_i18n_macro/src/t_plural/mod.rs"]
#[allow(dead_code, unused_imports)]
pub(crate) mod t_plural;
#[path = "/repo/leptos_i18n_macro/src/utils/mod.rs"]
#[allow(dead_code, unused_imports)]
pub(crate) mod utils;

#[allow(unused_imports)]
use load_locales::plurals::PluralRuleType;

mod eval;
mod projcheck;
mod props;

fn main() {
    let prop = std::env::args().nth(1).unwrap_or_default();
    eval::install_quiet_panic_hook();
    if prop == "dump-full" || prop == "dump-neutral" {
        // helper mode for C10: run in a fresh process on a project directory
        let dir = std::path::PathBuf::from(std::env::args().nth(2).unwrap_or_default());
        let out = if prop == "dump-full" { eval::full_dump(&dir) } else { eval::neutral_dump(&dir) };
        use std::io::Write;
        let _ = std::io::stdout().write_all(out.as_bytes());
        std::process::exit(0);
    }
    if prop == "c09-child" {
        let args: Vec<String> = std::env::args().skip(2).collect();
        props::c09::child_main(&args);
    }
    let ctx = vcommon::ctx::Ctx::from_env(&prop);
    match prop.as_str() {
        "C01" => props::c01::run(ctx),
        "C06" => props::c06::run(ctx),
        "C04" => props::c04::run(ctx),
        "C05" => props::c05::run(ctx),
        "C09" => props::c09::run(ctx),
        "C10" => props::c10::run(ctx),
        "C19" => props::c19::run(ctx),
        "C20" => props::c20::run(ctx),
        "C11" => props::c11::run(ctx),
        "C08" => props::c08::run(ctx),
        "C07" => props::c07::run(ctx),
        "C03" => props::c03::run(ctx),
        other => {
            eprintln!("harness error: unknown property {other:?}");
            std::process::exit(2);
        }
    }
}
