//! The general project oracle used by several properties: print an abstract project, load it with
//! the real parser, and compare everything observable with the reference semantics.

use std::collections::{BTreeMap, BTreeSet};
use std::path::Path;

use serde_json::{json, Value as J};

use leptos_i18n_parser::parse_locales::locale::{InterpolOrLit, RangeOrPlural};
use leptos_i18n_parser::parse_locales::parsed_value::{ForeignKey, Literal, ParsedValue};
use leptos_i18n_parser::parse_locales::plurals::Plurals;
use leptos_i18n_parser::parse_locales::ranges::{RangeType, Ranges, UntypedRangesInner};

use vcommon::ctx::Failure;
use vcommon::gen::leaf_paths;
use vcommon::model::*;
use vcommon::sem::*;
use vcommon::ser::{self, Format, Style};
use vcommon::tape::Tape;

use crate::eval::{self, EvalErr, LoadOutcome, Loaded};

#[derive(Clone, Debug)]
pub struct CheckOpts {
    pub style: Style,
    /// number of argument assignments per (locale, key)
    pub assignments: usize,
    pub check_render: bool,
    pub check_signature: bool,
    pub check_strings: bool,
    pub check_keyset: bool,
    pub check_warnings: bool,
    /// compare every locale's string table (as a set) with the literal texts of the AST
    pub check_string_tables: bool,
    pub null_fk: NullFkMode,
    /// D3 masked: do not compare keys whose value passes arguments through a reference chain
    pub default_listed: bool,
}

impl Default for CheckOpts {
    fn default() -> Self {
        CheckOpts {
            style: Style {
                format: Format::Json,
                seed: 0,
                escapes: 1,
            },
            assignments: 2,
            check_render: true,
            check_signature: true,
            check_strings: true,
            check_keyset: true,
            check_warnings: true,
            check_string_tables: true,
            null_fk: NullFkMode::AlongInherits,
            default_listed: true,
        }
    }
}

#[derive(Clone, Debug, Default)]
pub struct ProjStats {
    pub observations: u64,
    pub keys: u64,
    pub rendered_with_interp: u64,
    pub defaulted_hops2: u64,
    pub defaulted_any: u64,
    pub fk_depth2: u64,
    pub fk_any: u64,
    pub expected_error: bool,
    pub multi_locale_sig: u64,
    pub strings_checked: u64,
    pub range_keys: u64,
    pub plural_keys: u64,
    pub comp_depth_max: usize,
    pub expected_error_kinds: Vec<String>,
    pub warnings_expected: u64,
    pub silenced_absences: u64,
    pub table_entries: u64,
}

fn fail(sig: &str, detail: J) -> Failure {
    Failure {
        signature: sig.to_string(),
        detail,
    }
}

fn tree_json(t: &Tree) -> J {
    J::String(tree_to_string(t))
}

fn range_ty_of(t: RangeType) -> RangeTy {
    match t {
        RangeType::I8 => RangeTy::I8,
        RangeType::I16 => RangeTy::I16,
        RangeType::I32 => RangeTy::I32,
        RangeType::I64 => RangeTy::I64,
        RangeType::U8 => RangeTy::U8,
        RangeType::U16 => RangeTy::U16,
        RangeType::U32 => RangeTy::U32,
        RangeType::U64 => RangeTy::U64,
        RangeType::F32 => RangeTy::F32,
        RangeType::F64 => RangeTy::F64,
    }
}

/// build runtime arguments for a signature; choices come from the tape
pub fn make_args(sig: &Signature, resolved: &[&[RPiece]], t: &mut Tape, round: usize) -> RtArgs {
    let mut args = RtArgs::default();
    for v in &sig.vars {
        if let Some(kinds) = sig.counts.get(v) {
            let kind = kinds.iter().next().cloned();
            let n = match kind {
                Some(CountKind::Range(ty)) => {
                    let mut specs = vec![];
                    let mut pl = false;
                    for r in resolved {
                        collect_count_specs(r, v, &mut specs, &mut pl);
                    }
                    let sp: Vec<&CountSpec> = specs.iter().map(|(s, _)| *s).collect();
                    let probes = range_probe_counts(&sp, ty);
                    let n = probes[t.pick(probes.len())];
                    args.vars.insert(v.clone(), num_display(n, ty));
                    n
                }
                _ => {
                    let n = Num::Int(PLURAL_PROBES[t.pick(PLURAL_PROBES.len())]);
                    args.vars.insert(v.clone(), num_display(n, RangeTy::I64));
                    n
                }
            };
            args.counts.insert(v.clone(), n);
        } else {
            let val = match (round + t.pick(3)) % 3 {
                0 => format!("\u{ab}{}\u{bb}", v),
                1 => format!("{}=\u{3b1}\u{1f600} \"q\" & 'x' \\", v),
                _ => String::new(),
            };
            args.vars.insert(v.clone(), val);
        }
    }
    args
}

fn pieces_have_formatter(p: &[RPiece]) -> bool {
    p.iter().any(|x| match x {
        RPiece::Var { fmt, .. } => fmt.is_some(),
        RPiece::Comp { children, .. } => pieces_have_formatter(children),
        RPiece::Range(r) => r.branches.iter().any(|(_, b)| pieces_have_formatter(b)),
        RPiece::Plural(pl) => pl.forms.values().any(|b| pieces_have_formatter(b)),
        _ => false,
    })
}

fn comp_depth(p: &[RPiece]) -> usize {
    p.iter()
        .map(|x| match x {
            RPiece::Comp { children, .. } => 1 + comp_depth(children),
            RPiece::Range(r) => r.branches.iter().map(|(_, b)| comp_depth(b)).max().unwrap_or(0),
            RPiece::Plural(pl) => pl.forms.values().map(|b| comp_depth(b)).max().unwrap_or(0),
            _ => 0,
        })
        .max()
        .unwrap_or(0)
}

fn fk_depth(p: &Project, v: &Value, ns: Option<&str>, loc: &str, fuel: usize) -> usize {
    fn pieces_depth(p: &Project, pieces: &[Piece], ns: Option<&str>, loc: &str, fuel: usize) -> usize {
        if fuel == 0 {
            return 0;
        }
        let mut d = 0;
        for x in pieces {
            match x {
                Piece::Fk(fk) => {
                    let tns = fk.ns.as_deref().or(ns);
                    let inner = match p.file(tns, loc).map(|o| lookup(o, &fk.path)) {
                        Some(Lookup::Val(v)) => fk_depth(p, v, tns, loc, fuel - 1),
                        _ => 0,
                    };
                    let mut ad = 0;
                    for (_, a) in &fk.args {
                        if let Arg::Str(ap) = a {
                            ad = ad.max(pieces_depth(p, ap, ns, loc, fuel - 1));
                        }
                    }
                    d = d.max(1 + inner.max(ad));
                }
                Piece::Comp { children, .. } => d = d.max(pieces_depth(p, children, ns, loc, fuel)),
                _ => {}
            }
        }
        d
    }
    match v {
        Value::Str(pc) => pieces_depth(p, pc, ns, loc, fuel),
        Value::Range(r) => r.branches.iter().map(|b| pieces_depth(p, &b.body, ns, loc, fuel)).max().unwrap_or(0),
        Value::Plural(pl) => pl.forms.iter().map(|(_, b)| pieces_depth(p, b, ns, loc, fuel)).max().unwrap_or(0),
        _ => 0,
    }
}

/// walk a parsed value and check that every string literal's index reads the same text from the table
fn check_string_indices(pv: &ParsedValue, strings: &[std::rc::Rc<str>], n: &mut u64) -> Result<(), J> {
    match pv {
        ParsedValue::Literal(Literal::String(s, i)) => {
            *n += 1;
            match strings.get(*i) {
                Some(t) if &**t == s.as_str() => Ok(()),
                Some(t) => Err(json!({"literal": s, "index": i, "table_entry": &**t})),
                None => Err(json!({"literal": s, "index": i, "table_len": strings.len()})),
            }
        }
        ParsedValue::Literal(_) | ParsedValue::Variable { .. } | ParsedValue::Default | ParsedValue::Subkeys(_) => Ok(()),
        ParsedValue::Component { inner, .. } => check_string_indices(inner, strings, n),
        ParsedValue::Bloc(v) => {
            for x in v {
                check_string_indices(x, strings, n)?;
            }
            Ok(())
        }
        ParsedValue::ForeignKey(fk) => match &*fk.borrow() {
            ForeignKey::Set(inner) => check_string_indices(inner, strings, n),
            ForeignKey::NotSet(..) => Ok(()),
        },
        ParsedValue::Ranges(r) => {
            let mut res = Ok(());
            let _ = r.try_for_each_value::<_, ()>(|v| {
                if res.is_ok() {
                    res = check_string_indices(v, strings, n);
                }
                Ok(())
            });
            res
        }
        ParsedValue::Plurals(Plurals { forms, other, .. }) => {
            for v in forms.values() {
                check_string_indices(v, strings, n)?;
            }
            check_string_indices(other, strings, n)
        }
    }
}

fn ranges_type(r: &Ranges) -> RangeTy {
    range_ty_of(match &r.inner {
        UntypedRangesInner::I8(_) => RangeType::I8,
        UntypedRangesInner::I16(_) => RangeType::I16,
        UntypedRangesInner::I32(_) => RangeType::I32,
        UntypedRangesInner::I64(_) => RangeType::I64,
        UntypedRangesInner::U8(_) => RangeType::U8,
        UntypedRangesInner::U16(_) => RangeType::U16,
        UntypedRangesInner::U32(_) => RangeType::U32,
        UntypedRangesInner::U64(_) => RangeType::U64,
        UntypedRangesInner::F32(_) => RangeType::F32,
        UntypedRangesInner::F64(_) => RangeType::F64,
    })
}

#[allow(dead_code)]
pub fn parsed_range_type(r: &Ranges) -> RangeTy {
    ranges_type(r)
}

/// does the error message name the key (last path segment of the expected location)?
fn names_key(msg: &str, at: &str) -> bool {
    let last = at.rsplit(['.', ':']).next().unwrap_or(at);
    msg.contains(last)
}

pub fn check_project(p: &Project, opts: &CheckOpts, dir: &Path, t: &mut Tape) -> Result<ProjStats, Failure> {
    let mut st = ProjStats::default();
    let mut sem = Sem::new(p);
    sem.null_fk = opts.null_fk;
    let expected = expected_errors(p, &sem);
    st.expected_error = !expected.is_empty();
    st.expected_error_kinds = expected.iter().map(|e| format!("{:?}", e.kind).split(['(', ' ']).next().unwrap_or("").to_string()).collect::<BTreeSet<_>>().into_iter().collect();

    let manifest = ser::manifest_text(p, opts.default_listed);
    if let Err(e) = ser::write_project_with(p, dir, &opts.style, &manifest, &|_, _| 0) {
        return Err(fail("harness-io", json!({"error": e.to_string()})));
    }
    let outcome = eval::load(dir);
    let loaded: Loaded = match (outcome, expected.is_empty()) {
        (LoadOutcome::Panic(m), _) => {
            return Err(fail(
                &format!("panic:{}", m.rsplit(" @ ").next().unwrap_or("")),
                json!({"panic": m, "project": ser::project_to_json(p)}),
            ))
        }
        (LoadOutcome::Ok(l), true) => l,
        (LoadOutcome::Err(e), true) => {
            return Err(fail(
                "rejected-valid-project",
                json!({"error": e.to_string(), "project": ser::project_to_json(p)}),
            ))
        }
        (LoadOutcome::Ok(_), false) => {
            let kinds: BTreeSet<String> = expected.iter().map(|e| format!("{:?}", e.kind)).collect();
            return Err(fail(
                &format!("accepted-invalid-project:{}", kinds.into_iter().next().unwrap_or_default()),
                json!({"expected_errors": expected.iter().map(|e| format!("{:?} at {}", e.kind, e.at)).collect::<Vec<_>>(), "project": ser::project_to_json(p)}),
            ));
        }
        (LoadOutcome::Err(e), false) => {
            let msg = e.to_string();
            if msg.trim().is_empty() {
                return Err(fail("empty-error-message", json!({"project": ser::project_to_json(p)})));
            }
            if !expected.iter().any(|x| names_key(&msg, &x.at)) {
                return Err(fail(
                    "error-does-not-name-key",
                    json!({"error": msg, "expected_at": expected.iter().map(|e| e.at.clone()).collect::<Vec<_>>(), "project": ser::project_to_json(p)}),
                ));
            }
            st.observations += 1;
            return Ok(st);
        }
    };

    if opts.check_warnings {
        use leptos_i18n_parser::parse_locales::warning::Warning;
        let mut got: Vec<ModelWarning> = vec![];
        for w in &loaded.warnings {
            match w {
                Warning::MissingKey { locale, key_path } => got.push((WarnKind::Missing, locale.name.to_string(), key_path.to_string())),
                Warning::SurplusKey { locale, key_path } => got.push((WarnKind::Surplus, locale.name.to_string(), key_path.to_string())),
                _ => {}
            }
        }
        got.sort();
        let expected_w = match model_key_warnings(p, cfg!(feature = "suppress_key_warnings")) {
            Ok(w) => w,
            Err(e) => return Err(fail("harness-model", json!({"model_error": format!("{:?}", e)}))),
        };
        st.observations += 1;
        st.warnings_expected = expected_w.len() as u64;
        if got != expected_w {
            let missing: Vec<_> = expected_w.iter().filter(|w| !got.contains(w)).map(|w| format!("{:?}", w)).collect();
            let extra: Vec<_> = got.iter().filter(|w| !expected_w.contains(w)).map(|w| format!("{:?}", w)).collect();
            return Err(fail(
                "diagnostics-mismatch",
                json!({
                    "expected": expected_w.iter().map(|w| format!("{:?}", w)).collect::<Vec<_>>(),
                    "actual": got.iter().map(|w| format!("{:?}", w)).collect::<Vec<_>>(),
                    "not_reported": missing, "unexpected_or_duplicated": extra,
                    "project": ser::project_to_json(p),
                }),
            ));
        }
    }

    if opts.check_string_tables {
        for ns in p.ns_list() {
            let nsr = ns.as_deref();
            let Some(def) = p.file(nsr, p.default_locale()) else { continue };
            let mut paths = vec![];
            leaf_paths(def, &mut vec![], &mut paths);
            let Some((top_locales, top_keys)) = loaded.top(nsr) else { continue };
            for loc in &p.locales {
                let mut expected: BTreeSet<String> = BTreeSet::new();
                for path in &paths {
                    if sem.is_defaulted(nsr, loc, path) {
                        continue;
                    }
                    if let Ok(r) = sem.resolve_at(nsr, loc, path) {
                        let mut v = vec![];
                        literal_texts(&r, &mut v);
                        expected.extend(v);
                    }
                }
                let Some(l) = top_locales.iter().find(|l| &*l.name.name == loc.as_str()) else { continue };
                let actual: BTreeSet<String> = l.strings.iter().map(|s| s.to_string()).collect();
                st.observations += 1;
                st.table_entries += l.strings.len() as u64;
                if actual.len() != l.strings.len() {
                    return Err(fail("string-table-duplicates", json!({"locale": loc, "namespace": ns, "table": l.strings.iter().map(|s| s.to_string()).collect::<Vec<_>>(), "project": ser::project_to_json(p)})));
                }
                if actual != expected {
                    let missing: Vec<_> = expected.difference(&actual).cloned().collect();
                    let extra: Vec<_> = actual.difference(&expected).cloned().collect();
                    return Err(fail("string-table-content", json!({"locale": loc, "namespace": ns, "missing_from_table": missing, "unexpected_in_table": extra, "project": ser::project_to_json(p)})));
                }
                if l.top_locale_string_count != l.strings.len() {
                    return Err(fail("string-count-mismatch", json!({"locale": loc, "count": l.top_locale_string_count, "len": l.strings.len()})));
                }
            }
            // nested locales must carry the length of their top locale's table
            fn walk_counts(k: &leptos_i18n_parser::parse_locales::locale::BuildersKeysInner, tops: &[leptos_i18n_parser::parse_locales::locale::Locale], n: &mut u64) -> Result<(), J> {
                use leptos_i18n_parser::parse_locales::locale::LocaleValue;
                for (name, lv) in &k.0 {
                    if let LocaleValue::Subkeys { locales, keys } = lv {
                        if locales.len() != tops.len() {
                            return Err(json!({"group": &*name.name, "nested_locales": locales.len(), "top_locales": tops.len()}));
                        }
                        for (sub, top) in locales.iter().zip(tops) {
                            *n += 1;
                            if sub.top_locale_name != top.name || sub.top_locale_string_count != top.strings.len() {
                                return Err(json!({"group": &*name.name, "nested_top_locale": &*sub.top_locale_name.name, "position_locale": &*top.name.name,
                                    "nested_count": sub.top_locale_string_count, "table_len": top.strings.len()}));
                            }
                        }
                        walk_counts(keys, tops, n)?;
                    }
                }
                Ok(())
            }
            if let Err(d) = walk_counts(top_keys, top_locales, &mut st.observations) {
                return Err(fail("nested-string-count-mismatch", json!({"what": d, "namespace": ns, "project": ser::project_to_json(p)})));
            }
        }
    }

    for ns in p.ns_list() {
        let nsr = ns.as_deref();
        let Some(def) = p.file(nsr, p.default_locale()) else { continue };
        let mut paths = vec![];
        leaf_paths(def, &mut vec![], &mut paths);

        if opts.check_keyset {
            let mut model_keys: Vec<Vec<String>> = paths.clone();
            model_keys.sort();
            let mut got = loaded.leaf_paths(nsr);
            got.sort();
            if model_keys != got {
                return Err(fail(
                    "keyset-mismatch",
                    json!({"namespace": ns, "expected": model_keys, "actual": got, "project": ser::project_to_json(p)}),
                ));
            }
            st.observations += 1;
        }

        for path in &paths {
            st.keys += 1;
            // resolved value per locale (through the effective locale)
            let mut per_locale: BTreeMap<String, (String, Vec<RPiece>)> = BTreeMap::new();
            let mut union = Signature::default();
            let mut contributing: BTreeSet<Vec<String>> = BTreeSet::new();
            for loc in &p.locales {
                let eff = sem.effective_locale(nsr, loc, path);
                let r = match sem.resolve_at(nsr, &eff, path) {
                    Ok(r) => r,
                    Err(e) => {
                        return Err(fail(
                            "harness-model",
                            json!({"model_error": format!("{:?}", e), "at": path, "locale": loc, "eff": eff}),
                        ))
                    }
                };
                if eff == *loc {
                    let mut s = Signature::default();
                    signature(&r, &mut s);
                    let mut members: Vec<String> = s.vars.iter().cloned().collect();
                    members.extend(s.comps.iter().map(|c| format!("<{c}>")));
                    contributing.insert(members);
                    union.merge(&s);
                    if let Lookup::Val(v) = sem.raw(nsr, loc, path) {
                        let d = fk_depth(p, v, nsr, loc, 6);
                        if d >= 1 {
                            st.fk_any += 1;
                        }
                        if d >= 2 {
                            st.fk_depth2 += 1;
                        }
                        match v {
                            Value::Range(_) => st.range_keys += 1,
                            Value::Plural(_) => st.plural_keys += 1,
                            _ => {}
                        }
                    }
                } else {
                    st.defaulted_any += 1;
                    // two hops or more, a cycle, or an end that is neither self nor default
                    let first = p.inherits.get(loc).cloned().unwrap_or_else(|| p.default_locale().to_string());
                    if first != eff || (eff != p.default_locale()) {
                        st.defaulted_hops2 += 1;
                    }
                }
                st.comp_depth_max = st.comp_depth_max.max(comp_depth(&r));
                per_locale.insert(loc.clone(), (eff, r));
            }
            if contributing.len() >= 2 {
                st.multi_locale_sig += 1;
            }

            // the grouping the code generator uses must be the same fallback relation
            {
                let computed = loaded.computed_defaults(nsr, path).unwrap_or_default();
                let mut model: BTreeMap<String, String> = BTreeMap::new();
                for loc in &p.locales {
                    let (eff, _) = &per_locale[loc];
                    if eff != loc {
                        model.insert(loc.clone(), eff.clone());
                    }
                }
                st.observations += 1;
                if computed != model {
                    return Err(fail(
                        "defaults-grouping-mismatch",
                        json!({"key": path, "namespace": ns, "expected": model, "actual": computed, "project": ser::project_to_json(p)}),
                    ));
                }
            }

            if opts.check_signature {
                let iol = loaded.interpol_at(nsr, path);
                let Some(iol) = iol else {
                    return Err(fail("keyset-mismatch", json!({"missing_builder_key": path, "project": ser::project_to_json(p)})));
                };
                let (gv, gc, gcounts): (BTreeSet<String>, BTreeSet<String>, BTreeMap<String, CountKind>) = match iol {
                    InterpolOrLit::Lit(_) => Default::default(),
                    InterpolOrLit::Interpol(k) => {
                        let mut vars = BTreeSet::new();
                        let mut counts = BTreeMap::new();
                        for (key, info) in k.iter_vars() {
                            let name = eval::strip(&key.name, "var_").to_string();
                            if let Some(rc) = info.range_count {
                                counts.insert(
                                    name.clone(),
                                    match rc {
                                        RangeOrPlural::Plural => CountKind::Plural,
                                        RangeOrPlural::Range(t) => CountKind::Range(range_ty_of(t)),
                                    },
                                );
                            }
                            vars.insert(name);
                        }
                        let comps = k.iter_comps().map(|c| eval::strip(&c.name, "comp_").to_string()).collect();
                        (vars, comps, counts)
                    }
                };
                let ecounts: BTreeMap<String, CountKind> = union
                    .counts
                    .iter()
                    .filter_map(|(k, v)| v.iter().next().cloned().map(|x| (k.clone(), x)))
                    .collect();
                if gv != union.vars || gc != union.comps || gcounts != ecounts {
                    return Err(fail(
                        "signature-mismatch",
                        json!({
                            "key": path, "namespace": ns,
                            "expected_vars": union.vars, "actual_vars": gv,
                            "expected_comps": union.comps, "actual_comps": gc,
                            "expected_counts": format!("{:?}", ecounts), "actual_counts": format!("{:?}", gcounts),
                            "project": ser::project_to_json(p), "ast": format!("{:?}", p.files),
                        }),
                    ));
                }
                st.observations += 1;
            }

            if opts.check_strings {
                for loc in &p.locales {
                    match loaded.value_at(nsr, loc, path) {
                        Ok((pv, strings, _)) => {
                            if let Err(d) = check_string_indices(pv, strings, &mut st.strings_checked) {
                                return Err(fail(
                                    "string-index-mismatch",
                                    json!({"key": path, "locale": loc, "what": d, "project": ser::project_to_json(p)}),
                                ));
                            }
                        }
                        Err(e) => {
                            return Err(fail(
                                "value-unreachable",
                                json!({"key": path, "locale": loc, "error": format!("{:?}", e), "project": ser::project_to_json(p)}),
                            ))
                        }
                    }
                }
            }

            if opts.check_render {
                let all: Vec<&[RPiece]> = per_locale.values().map(|(_, r)| r.as_slice()).collect();
                for round in 0..opts.assignments {
                    let args = make_args(&union, &all, t, round);
                    for loc in &p.locales {
                        let (eff, r) = &per_locale[loc];
                        if pieces_have_formatter(r) {
                            continue;
                        }
                        let expected = match render(r, &args, loc) {
                            Ok(t) => t,
                            Err(RenderErr::NoBranch) => continue, // cannot happen with fallbacks
                            Err(e) => {
                                return Err(fail("harness-model", json!({"render_error": format!("{:?}", e), "key": path, "locale": loc})));
                            }
                        };
                        let actual = loaded.eval(nsr, loc, path, &args);
                        st.observations += 1;
                        let interesting = r.iter().filter(|x| !matches!(x, RPiece::Text(_) | RPiece::Lit(_))).count() >= 1 && r.len() >= 2;
                        if interesting {
                            st.rendered_with_interp += 1;
                        }
                        match actual {
                            Ok(a) if a == expected => {}
                            Ok(a) => {
                                return Err(fail(
                                    "render-mismatch",
                                    json!({
                                        "key": path, "namespace": ns, "locale": loc, "effective_locale": eff,
                                        "expected": tree_json(&expected), "actual": tree_json(&a),
                                        "args": format!("{:?}", args),
                                        "project": ser::project_to_json(p),
                                    }),
                                ))
                            }
                            Err(EvalErr::Formatter) => {}
                            Err(e) => {
                                return Err(fail(
                                    &format!("render-error:{}", format!("{:?}", e).split(['(', '{', ' ']).next().unwrap_or("")),
                                    json!({
                                        "key": path, "namespace": ns, "locale": loc, "effective_locale": eff,
                                        "expected": tree_json(&expected), "error": format!("{:?}", e),
                                        "args": format!("{:?}", args),
                                        "project": ser::project_to_json(p),
                                    }),
                                ))
                            }
                        }
                    }
                }
            }
        }
    }
    Ok(st)
}
