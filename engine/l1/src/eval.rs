//! Observation at parser level: load a project with the real parser and evaluate the resulting
//! `ParsedValue` trees (reading literal text through `Locale.strings[index]`).

use std::collections::BTreeMap;
use std::ops::Bound;
use std::path::{Path, PathBuf};
use std::rc::Rc;

use leptos_i18n_parser::parse_locales::{
    self,
    error::Error,
    locale::{BuildersKeys, BuildersKeysInner, InterpolOrLit, Locale, LocaleValue},
    parsed_value::{ForeignKey, Literal, ParsedValue},
    plurals::{PluralForm, PluralRuleType, Plurals},
    ranges::{Range, Ranges, UntypedRangesInner},
    warning::Warning,
};
use leptos_i18n_parser::utils::{Key, KeyPath};

use vcommon::model::*;
use vcommon::sem::{plural_category_f64, plural_category_int, RtArgs};

pub struct Loaded {
    pub bk: BuildersKeys,
    pub warnings: Vec<Warning>,
    pub tracked: Vec<String>,
}

pub fn scratch_root() -> PathBuf {
    let shm = Path::new("/dev/shm");
    let base = if shm.is_dir() { shm.to_path_buf() } else { PathBuf::from("/verif/work") };
    base.join(format!("verif-l1-{}", std::process::id()))
}

pub struct Scratch(pub PathBuf);

impl Scratch {
    pub fn new(name: &str) -> Scratch {
        let p = scratch_root().join(name);
        let _ = std::fs::create_dir_all(&p);
        Scratch(p)
    }
}

impl Drop for Scratch {
    fn drop(&mut self) {
        let _ = std::fs::remove_dir_all(&self.0);
        let _ = std::fs::remove_dir(scratch_root());
    }
}

pub enum LoadOutcome {
    Ok(Loaded),
    Err(Box<Error>),
    Panic(String),
}

pub fn panic_message(e: Box<dyn std::any::Any + Send>) -> String {
    if let Some(s) = e.downcast_ref::<&str>() {
        s.to_string()
    } else if let Some(s) = e.downcast_ref::<String>() {
        s.clone()
    } else {
        "<non-string panic>".to_string()
    }
}

thread_local! {
    pub static LAST_PANIC_LOC: std::cell::RefCell<String> = const { std::cell::RefCell::new(String::new()) };
}

/// silence the default panic printer (panics are data here) but remember the location
pub fn install_quiet_panic_hook() {
    std::panic::set_hook(Box::new(|info| {
        let loc = info.location().map(|l| format!("{}:{}", l.file(), l.line())).unwrap_or_default();
        LAST_PANIC_LOC.with(|c| *c.borrow_mut() = loc);
    }));
}

pub fn last_panic_loc() -> String {
    LAST_PANIC_LOC.with(|c| c.borrow().clone())
}

pub fn load(dir: &Path) -> LoadOutcome {
    let d = dir.to_path_buf();
    let r = std::panic::catch_unwind(move || parse_locales::parse_locales(false, Some(d)));
    match r {
        Ok(Ok((bk, warnings, tracked))) => LoadOutcome::Ok(Loaded {
            bk,
            warnings: warnings.into_inner(),
            tracked,
        }),
        Ok(Err(e)) => LoadOutcome::Err(e),
        Err(p) => LoadOutcome::Panic(format!("{} @ {}", panic_message(p), last_panic_loc())),
    }
}

#[derive(Debug, Clone, PartialEq)]
pub enum EvalErr {
    NoSuchKey(String),
    IsSubkeys,
    BadIndex { index: usize, len: usize },
    Formatter,
    MissingVar(String),
    MissingCount(String),
    NoBranch,
    NoPluralRules(String),
    Unexpected(String),
}

fn key(name: &str) -> Key {
    Key::new(name).expect("model key names are identifiers")
}

impl Loaded {
    pub fn top(&self, ns: Option<&str>) -> Option<(&[Locale], &BuildersKeysInner)> {
        match (&self.bk, ns) {
            (BuildersKeys::Locales { locales, keys }, None) => Some((locales, keys)),
            (BuildersKeys::NameSpaces { namespaces, keys }, Some(ns)) => {
                let n = namespaces.iter().find(|n| &*n.key.name == ns)?;
                let k = keys.get(&key(ns))?;
                Some((&n.locales, k))
            }
            _ => None,
        }
    }

    /// the value the parser associates with (ns, locale, path) and the string table to read it with
    pub fn value_at(&self, ns: Option<&str>, locale: &str, path: &[String]) -> Result<(&ParsedValue, &[Rc<str>], String), EvalErr> {
        let (top_locales, top_keys) = self.top(ns).ok_or_else(|| EvalErr::NoSuchKey("namespace".into()))?;
        let li = top_locales
            .iter()
            .position(|l| &*l.name.name == locale)
            .ok_or_else(|| EvalErr::NoSuchKey(format!("locale {locale}")))?;
        let mut locales: &[Locale] = top_locales;
        let mut keys: &BuildersKeysInner = top_keys;
        for (i, k) in path.iter().enumerate() {
            let kk = key(k);
            let lv = keys.0.get(&kk).ok_or_else(|| EvalErr::NoSuchKey(path.join(".")))?;
            let last = i + 1 == path.len();
            match lv {
                LocaleValue::Subkeys { locales: sl, keys: sk } => {
                    if last {
                        return Err(EvalErr::IsSubkeys);
                    }
                    if sl.len() != top_locales.len() {
                        return Err(EvalErr::Unexpected(format!(
                            "subkeys {} have {} locales, top has {}",
                            k,
                            sl.len(),
                            top_locales.len()
                        )));
                    }
                    locales = sl;
                    keys = sk;
                }
                LocaleValue::Value { defaults, .. } => {
                    if !last {
                        return Err(EvalErr::NoSuchKey(path.join(".")));
                    }
                    let pv = locales[li]
                        .keys
                        .get(&kk)
                        .ok_or_else(|| EvalErr::Unexpected(format!("locale {locale} has no entry for {k}")))?;
                    if matches!(pv, ParsedValue::Default) {
                        let lk = key(locale);
                        let eff = defaults.default_of(&lk).clone();
                        let ei = top_locales
                            .iter()
                            .position(|l| l.name == eff)
                            .ok_or_else(|| EvalErr::Unexpected(format!("default_of -> unknown locale {:?}", eff)))?;
                        let pv2 = locales[ei]
                            .keys
                            .get(&kk)
                            .ok_or_else(|| EvalErr::Unexpected(format!("effective locale {:?} has no entry for {k}", eff)))?;
                        if matches!(pv2, ParsedValue::Default) {
                            return Err(EvalErr::Unexpected(format!("effective locale {:?} is itself defaulted for {k}", eff)));
                        }
                        return Ok((pv2, &top_locales[ei].strings, eff.name.to_string()));
                    }
                    return Ok((pv, &top_locales[li].strings, locale.to_string()));
                }
            }
        }
        Err(EvalErr::NoSuchKey(path.join(".")))
    }

    /// locale -> effective locale according to `DefaultedLocales::compute()` (what the code generator
    /// uses to group match arms) for a leaf key; locales not listed read their own value
    pub fn computed_defaults(&self, ns: Option<&str>, path: &[String]) -> Option<BTreeMap<String, String>> {
        let (_, mut keys) = self.top(ns)?;
        for (i, k) in path.iter().enumerate() {
            match keys.0.get(&key(k))? {
                LocaleValue::Subkeys { keys: sk, .. } => keys = sk,
                LocaleValue::Value { defaults, .. } => {
                    if i + 1 != path.len() {
                        return None;
                    }
                    let mut out = BTreeMap::new();
                    for (eff, set) in defaults.compute() {
                        for l in set {
                            out.insert(l.name.to_string(), eff.name.to_string());
                        }
                    }
                    return Some(out);
                }
            }
        }
        None
    }

    pub fn interpol_at(&self, ns: Option<&str>, path: &[String]) -> Option<&InterpolOrLit> {
        let (_, mut keys) = self.top(ns)?;
        for (i, k) in path.iter().enumerate() {
            match keys.0.get(&key(k))? {
                LocaleValue::Subkeys { keys: sk, .. } => keys = sk,
                LocaleValue::Value { value, .. } => {
                    return if i + 1 == path.len() { Some(value) } else { None };
                }
            }
        }
        None
    }

    /// all leaf key paths the parser exposes for a namespace
    pub fn leaf_paths(&self, ns: Option<&str>) -> Vec<Vec<String>> {
        fn walk(k: &BuildersKeysInner, prefix: &mut Vec<String>, out: &mut Vec<Vec<String>>) {
            for (name, lv) in &k.0 {
                prefix.push(name.name.to_string());
                match lv {
                    LocaleValue::Subkeys { keys, .. } => walk(keys, prefix, out),
                    LocaleValue::Value { .. } => out.push(prefix.clone()),
                }
                prefix.pop();
            }
        }
        let mut out = vec![];
        if let Some((_, k)) = self.top(ns) {
            walk(k, &mut vec![], &mut out);
        }
        out
    }

    pub fn eval(&self, ns: Option<&str>, locale: &str, path: &[String], args: &RtArgs) -> Result<Tree, EvalErr> {
        let (pv, strings, _eff) = self.value_at(ns, locale, path)?;
        let mut out = vec![];
        eval_pv(pv, strings, args, locale, &mut out)?;
        Ok(normalize_tree(out))
    }
}

pub fn strip<'a>(name: &'a str, prefix: &str) -> &'a str {
    name.strip_prefix(prefix).unwrap_or(name)
}

pub fn eval_pv(pv: &ParsedValue, strings: &[Rc<str>], args: &RtArgs, locale: &str, out: &mut Tree) -> Result<(), EvalErr> {
    match pv {
        ParsedValue::Default => Err(EvalErr::Unexpected("Default inside a value".into())),
        ParsedValue::Subkeys(_) => Err(EvalErr::Unexpected("Subkeys inside a value".into())),
        ParsedValue::Literal(Literal::String(_, idx)) => {
            let s = strings.get(*idx).ok_or(EvalErr::BadIndex {
                index: *idx,
                len: strings.len(),
            })?;
            out.push(Node::Text(s.to_string()));
            Ok(())
        }
        ParsedValue::Literal(l) => {
            out.push(Node::Text(l.to_string()));
            Ok(())
        }
        ParsedValue::Variable { key, formatter } => {
            if *formatter != leptos_i18n_parser::utils::formatter::Formatter::None {
                return Err(EvalErr::Formatter);
            }
            let name = strip(&key.name, "var_");
            match args.vars.get(name) {
                Some(v) => {
                    out.push(Node::Text(v.clone()));
                    Ok(())
                }
                None => Err(EvalErr::MissingVar(name.to_string())),
            }
        }
        ParsedValue::Component { key, inner } => {
            let mut ch = vec![];
            eval_pv(inner, strings, args, locale, &mut ch)?;
            out.push(Node::Elem(strip(&key.name, "comp_").to_string(), ch));
            Ok(())
        }
        ParsedValue::Bloc(v) => {
            for p in v {
                eval_pv(p, strings, args, locale, out)?;
            }
            Ok(())
        }
        ParsedValue::ForeignKey(fk) => match &*fk.borrow() {
            ForeignKey::Set(inner) => eval_pv(inner, strings, args, locale, out),
            ForeignKey::NotSet(p, _) => Err(EvalErr::Unexpected(format!("unresolved foreign key {p}"))),
        },
        ParsedValue::Ranges(r) => {
            let name = strip(&r.count_key.name, "var_");
            let n = *args.counts.get(name).ok_or_else(|| EvalErr::MissingCount(name.to_string()))?;
            let body = select_range(r, n).ok_or(EvalErr::NoBranch)?;
            eval_pv(body, strings, args, locale, out)
        }
        ParsedValue::Plurals(Plurals {
            rule_type,
            count_key,
            other,
            forms,
        }) => {
            let name = strip(&count_key.name, "var_");
            let n = *args.counts.get(name).ok_or_else(|| EvalErr::MissingCount(name.to_string()))?;
            let ordinal = *rule_type == PluralRuleType::Ordinal;
            let cat = match n {
                Num::Int(i) => plural_category_int(locale, ordinal, i),
                Num::Float(f) => plural_category_f64(locale, ordinal, f),
            }
            .ok_or_else(|| EvalErr::NoPluralRules(locale.to_string()))?;
            let pf = match cat {
                Form::Zero => PluralForm::Zero,
                Form::One => PluralForm::One,
                Form::Two => PluralForm::Two,
                Form::Few => PluralForm::Few,
                Form::Many => PluralForm::Many,
                Form::Other => PluralForm::Other,
            };
            let body = if pf == PluralForm::Other { &**other } else { forms.get(&pf).unwrap_or(other) };
            eval_pv(body, strings, args, locale, out)
        }
    }
}

trait FromNum: Copy + PartialOrd {
    fn from_num(n: Num) -> Option<Self>;
}

macro_rules! impl_from_num_int {
    ($($t:ty)*) => {$(
        impl FromNum for $t {
            fn from_num(n: Num) -> Option<Self> {
                match n { Num::Int(i) => <$t>::try_from(i).ok(), Num::Float(_) => None }
            }
        }
    )*};
}
impl_from_num_int!(i8 i16 i32 i64 u8 u16 u32 u64);

impl FromNum for f32 {
    fn from_num(n: Num) -> Option<Self> {
        Some(n.as_f64() as f32)
    }
}
impl FromNum for f64 {
    fn from_num(n: Num) -> Option<Self> {
        Some(n.as_f64())
    }
}

/// independent matcher over the parser's public `Range<T>` (Rust range semantics)
fn range_contains<T: Copy + PartialOrd>(r: &Range<T>, n: T) -> bool {
    match r {
        Range::Exact(v) => *v == n,
        Range::Bounds { start, end } => {
            if let Some(s) = start {
                if !(n >= *s) {
                    return false;
                }
            }
            match end {
                Bound::Included(e) => n <= *e,
                Bound::Excluded(e) => n < *e,
                Bound::Unbounded => true,
            }
        }
        Range::Multiple(v) => v.iter().any(|r| range_contains(r, n)),
        Range::Fallback => true,
    }
}

fn select_in<'a, T: FromNum>(v: &'a [(Range<T>, ParsedValue)], n: Num) -> Option<&'a ParsedValue> {
    let n = T::from_num(n)?;
    v.iter().find(|(r, _)| range_contains(r, n)).map(|(_, b)| b)
}

pub fn select_range(r: &Ranges, n: Num) -> Option<&ParsedValue> {
    match &r.inner {
        UntypedRangesInner::I8(v) => select_in(v, n),
        UntypedRangesInner::I16(v) => select_in(v, n),
        UntypedRangesInner::I32(v) => select_in(v, n),
        UntypedRangesInner::I64(v) => select_in(v, n),
        UntypedRangesInner::U8(v) => select_in(v, n),
        UntypedRangesInner::U16(v) => select_in(v, n),
        UntypedRangesInner::U32(v) => select_in(v, n),
        UntypedRangesInner::U64(v) => select_in(v, n),
        UntypedRangesInner::F32(v) => select_in(v, n),
        UntypedRangesInner::F64(v) => select_in(v, n),
    }
}

/// canonical, order-stable dump of everything `parse_locales` returned (for C10)
pub fn dump_loaded(l: &Loaded) -> String {
    let mut s = String::new();
    fn dump_keys(k: &BuildersKeysInner, indent: usize, s: &mut String) {
        for (name, lv) in &k.0 {
            for _ in 0..indent {
                s.push(' ');
            }
            match lv {
                LocaleValue::Value { value, defaults } => {
                    s.push_str(&format!("{} = {:?} defaults={:?}\n", name.name, value, defaults.compute()));
                }
                LocaleValue::Subkeys { locales, keys } => {
                    s.push_str(&format!("{} {{\n", name.name));
                    for l in locales {
                        for _ in 0..indent + 1 {
                            s.push(' ');
                        }
                        s.push_str(&format!("@{} {:?} count={}\n", l.name.name, l.keys, l.top_locale_string_count));
                    }
                    dump_keys(keys, indent + 2, s);
                    for _ in 0..indent {
                        s.push(' ');
                    }
                    s.push_str("}\n");
                }
            }
        }
    }
    fn dump_locales(locales: &[Locale], s: &mut String) {
        for l in locales {
            s.push_str(&format!("locale {} strings={:?} count={}\n", l.name.name, l.strings, l.top_locale_string_count));
            s.push_str(&format!("  keys={:?}\n", l.keys));
        }
    }
    match &l.bk {
        BuildersKeys::Locales { locales, keys } => {
            dump_locales(locales, &mut s);
            dump_keys(keys, 0, &mut s);
        }
        BuildersKeys::NameSpaces { namespaces, keys } => {
            for ns in namespaces {
                s.push_str(&format!("namespace {}\n", ns.key.name));
                dump_locales(&ns.locales, &mut s);
            }
            let map: BTreeMap<_, _> = keys.iter().collect();
            for (k, v) in map {
                s.push_str(&format!("nskeys {}\n", k.name));
                dump_keys(v, 1, &mut s);
            }
        }
    }
    s.push_str("warnings:\n");
    for w in &l.warnings {
        s.push_str(&format!("  {}\n", w));
    }
    s
}

pub fn keypath_string(kp: &KeyPath) -> String {
    kp.to_string()
}

// ------------------------------------------------------------------------------------------
// dumps used by C10 (and by the `dump-*` sub-commands run in fresh processes)

/// in-process code generation for the project at `dir`: token stream text, or the error text
pub fn codegen_text(dir: &Path) -> Result<String, String> {
    std::env::set_var("CARGO_MANIFEST_DIR", dir);
    let r = std::panic::catch_unwind(crate::load_locales::load_locales);
    match r {
        Ok(Ok(ts)) => Ok(ts.to_string()),
        Ok(Err(e)) => Err(format!("error: {e}")),
        Err(p) => Err(format!("PANIC: {} @ {}", panic_message(p), last_panic_loc())),
    }
}

/// everything observable, byte for byte (same file format only)
pub fn full_dump(dir: &Path) -> String {
    let mut s = String::new();
    match load(dir) {
        LoadOutcome::Ok(l) => s.push_str(&dump_loaded(&l)),
        LoadOutcome::Err(e) => s.push_str(&format!("LOAD ERROR: {e}\n")),
        LoadOutcome::Panic(m) => s.push_str(&format!("LOAD PANIC: {m}\n")),
    }
    s.push_str("---- generated code ----\n");
    match codegen_text(dir) {
        Ok(t) => s.push_str(&t),
        Err(e) => s.push_str(&e),
    }
    s.push('\n');
    s
}

fn fixed_counts_int(lo: i128, hi: i128) -> Vec<Num> {
    let mut v = vec![];
    for c in [0i128, 1, 2, 3, 5, 7, 10, 11, 21, 100, -1, -5, 1000000, lo, hi] {
        if c >= lo && c <= hi && !v.contains(&c) {
            v.push(c);
        }
    }
    v.into_iter().map(Num::Int).collect()
}

/// format-neutral view: key tree, members per key, diagnostics, evaluated text under a fixed
/// argument policy. Numeric literal *types* are deliberately left out.
pub fn neutral_dump(dir: &Path) -> String {
    use leptos_i18n_parser::parse_locales::locale::RangeOrPlural;
    let l = match load(dir) {
        LoadOutcome::Ok(l) => l,
        LoadOutcome::Err(_) => return "LOAD ERROR\n".to_string(),
        LoadOutcome::Panic(m) => return format!("LOAD PANIC: {m}\n"),
    };
    let mut s = String::new();
    let nss: Vec<Option<String>> = match &l.bk {
        BuildersKeys::Locales { .. } => vec![None],
        BuildersKeys::NameSpaces { namespaces, .. } => namespaces.iter().map(|n| Some(n.key.name.to_string())).collect(),
    };
    for ns in &nss {
        let nsr = ns.as_deref();
        let Some((locales, _)) = l.top(nsr) else { continue };
        let names: Vec<String> = locales.iter().map(|x| x.name.name.to_string()).collect();
        s.push_str(&format!("namespace {:?} locales {:?}\n", ns, names));
        for path in l.leaf_paths(nsr) {
            let iol = l.interpol_at(nsr, &path);
            let mut vars: Vec<(String, Option<String>)> = vec![];
            let mut comps: Vec<String> = vec![];
            if let Some(InterpolOrLit::Interpol(k)) = iol {
                for (key, info) in k.iter_vars() {
                    let kind = info.range_count.map(|rc| match rc {
                        RangeOrPlural::Plural => "plural".to_string(),
                        RangeOrPlural::Range(t) => format!("{}", t),
                    });
                    vars.push((strip(&key.name, "var_").to_string(), kind));
                }
                comps = k.iter_comps().map(|c| strip(&c.name, "comp_").to_string()).collect();
            }
            s.push_str(&format!(" key {} vars {:?} comps {:?}\n", path.join("."), vars, comps));
            // assignments: one per probe of the first count variable (or a single one)
            let count_var = vars.iter().find(|(_, k)| k.is_some()).cloned();
            let probes: Vec<Option<Num>> = match &count_var {
                None => vec![None],
                Some((_, Some(k))) => {
                    let ints = |lo: i128, hi: i128| fixed_counts_int(lo, hi).into_iter().map(Some).collect::<Vec<_>>();
                    match k.as_str() {
                        "plural" => ints(0, 2_000_000),
                        "i8" => ints(i8::MIN as i128, i8::MAX as i128),
                        "i16" => ints(i16::MIN as i128, i16::MAX as i128),
                        "i32" => ints(i32::MIN as i128, i32::MAX as i128),
                        "i64" => ints(i64::MIN as i128, i64::MAX as i128),
                        "u8" => ints(0, u8::MAX as i128),
                        "u16" => ints(0, u16::MAX as i128),
                        "u32" => ints(0, u32::MAX as i128),
                        "u64" => ints(0, u64::MAX as i128),
                        _ => [0.0, 0.5, 1.0, 1.5, 2.0, -1.0, 10.25, 1e9, -3.5].iter().map(|f| Some(Num::Float(*f))).collect(),
                    }
                }
                _ => vec![None],
            };
            for loc in &names {
                let mut outs: Vec<String> = vec![];
                for pr in &probes {
                    let mut args = RtArgs::default();
                    for (v, kind) in &vars {
                        match (kind, pr) {
                            (Some(_), Some(n)) => {
                                args.counts.insert(v.clone(), *n);
                                args.vars.insert(
                                    v.clone(),
                                    match n {
                                        Num::Int(i) => i.to_string(),
                                        Num::Float(f) => f.to_string(),
                                    },
                                );
                            }
                            _ => {
                                args.vars.insert(v.clone(), format!("\u{ab}{}\u{bb}", v));
                            }
                        }
                    }
                    outs.push(match l.eval(nsr, loc, &path, &args) {
                        Ok(t) => tree_to_string(&t),
                        Err(e) => format!("<{:?}>", e).split(['(', '{']).next().unwrap_or("").to_string(),
                    });
                }
                outs.dedup();
                s.push_str(&format!("  {} => {:?}\n", loc, outs));
            }
        }
    }
    s.push_str("warnings:\n");
    for w in &l.warnings {
        s.push_str(&format!("  {}\n", w));
    }
    s
}
