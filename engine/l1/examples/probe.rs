fn main() {
    let r = leptos_i18n_parser::parse_locales::parse_locales_raw(false, Some(std::path::PathBuf::from(std::env::args().nth(1).unwrap())));
    match r { Ok((_, cfg, _, _, files)) => println!("OK {:?} {:?}", cfg, files), Err(e) => println!("ERR {}", e) }
}
