//! A "choice tape": every generator in this framework is an ordinary imperative function that
//! draws its choices from a `Tape`. The tape itself (`Vec<u32>`) is what proptest generates and
//! shrinks, so every random decision stays inside the library (replayable, shrinkable), while
//! generators can be written as plain recursive code.
//!
//! Conventions that make shrinking work:
//! * `pick(n)` maps the drawn word monotonically to `0..n` (`x * n >> 32`), so a smaller word is a
//!   smaller index; generators put the *simplest* alternative at index 0;
//! * an exhausted tape yields 0 forever, so truncating the tape simplifies the tail of the case.

#[derive(Clone, Debug)]
pub struct Tape {
    words: Vec<u32>,
    pos: usize,
}

impl Tape {
    pub fn new(words: Vec<u32>) -> Self {
        Tape { words, pos: 0 }
    }

    pub fn words(&self) -> &[u32] {
        &self.words
    }

    pub fn consumed(&self) -> usize {
        self.pos
    }

    pub fn exhausted(&self) -> bool {
        self.pos >= self.words.len()
    }

    #[inline]
    pub fn word(&mut self) -> u32 {
        let w = self.words.get(self.pos).copied().unwrap_or(0);
        self.pos += 1;
        w
    }

    /// uniform in 0..n (n >= 1), monotone in the drawn word
    #[inline]
    pub fn pick(&mut self, n: usize) -> usize {
        debug_assert!(n >= 1);
        if n <= 1 {
            // still consume nothing: keeps tapes short
            return 0;
        }
        ((self.word() as u64 * n as u64) >> 32) as usize
    }

    /// inclusive range lo..=hi
    #[inline]
    pub fn range(&mut self, lo: usize, hi: usize) -> usize {
        debug_assert!(hi >= lo);
        lo + self.pick(hi - lo + 1)
    }

    /// true with probability num/den; 0 on the tape is `false`
    #[inline]
    pub fn chance(&mut self, num: u32, den: u32) -> bool {
        let w = self.word() as u64;
        // largest words are "true" so that shrinking towards 0 turns features off
        w >= ((den - num) as u64 * (1u64 << 32)) / den as u64
    }

    pub fn coin(&mut self) -> bool {
        self.chance(1, 2)
    }

    /// weighted choice, returns the index; index 0 should be the simplest alternative
    pub fn weighted(&mut self, weights: &[u32]) -> usize {
        let total: u64 = weights.iter().map(|w| *w as u64).sum();
        debug_assert!(total > 0);
        let x = (self.word() as u64 * total) >> 32;
        let mut acc = 0u64;
        for (i, w) in weights.iter().enumerate() {
            acc += *w as u64;
            if x < acc {
                return i;
            }
        }
        weights.len() - 1
    }

    pub fn choose<'a, T>(&mut self, items: &'a [T]) -> &'a T {
        &items[self.pick(items.len())]
    }

    pub fn u64(&mut self) -> u64 {
        ((self.word() as u64) << 32) | self.word() as u64
    }

    /// permutation of 0..n (Fisher-Yates driven by the tape); all-zero tape = identity
    pub fn permutation(&mut self, n: usize) -> Vec<usize> {
        let mut v: Vec<usize> = (0..n).collect();
        for i in 0..n.saturating_sub(1) {
            let j = i + self.pick(n - i);
            v.swap(i, j);
        }
        v
    }
}

/// splitmix64: used only to derive per-engine proptest seeds from VERIF_SEED (never inside a property)
pub fn splitmix(mut x: u64) -> u64 {
    x = x.wrapping_add(0x9E3779B97F4A7C15);
    let mut z = x;
    z = (z ^ (z >> 30)).wrapping_mul(0xBF58476D1CE4E5B9);
    z = (z ^ (z >> 27)).wrapping_mul(0x94D049BB133111EB);
    z ^ (z >> 31)
}

pub fn fnv1a(bytes: &[u8]) -> u64 {
    let mut h: u64 = 0xcbf29ce484222325;
    for b in bytes {
        h ^= *b as u64;
        h = h.wrapping_mul(0x100000001b3);
    }
    h
}
