//! Reference semantics: what the documentation says a project means. Works on the AST only.

use std::collections::{BTreeMap, BTreeSet};

use crate::model::*;

#[derive(Clone, Debug, PartialEq)]
pub enum Lit {
    Bool(bool),
    U(u64),
    I(i64),
    F(f64),
}

impl Lit {
    pub fn display(&self) -> String {
        match self {
            Lit::Bool(b) => b.to_string(),
            Lit::U(u) => u.to_string(),
            Lit::I(i) => i.to_string(),
            Lit::F(f) => f.to_string(),
        }
    }
    pub fn type_name(&self) -> &'static str {
        match self {
            Lit::Bool(_) => "bool",
            Lit::U(_) => "unsigned",
            Lit::I(_) => "signed",
            Lit::F(_) => "float",
        }
    }
}

/// a value with every `$t` substituted
#[derive(Clone, Debug, PartialEq)]
pub enum RPiece {
    Text(String),
    Lit(Lit),
    Var { name: String, fmt: Option<FmtSpec> },
    Comp { name: String, children: Vec<RPiece> },
    Range(RRange),
    Plural(RPlural),
}

#[derive(Clone, Debug, PartialEq)]
pub struct RRange {
    pub count_var: String,
    pub ty: RangeTy,
    pub branches: Vec<(Vec<CountSpec>, Vec<RPiece>)>,
}

#[derive(Clone, Debug, PartialEq)]
pub struct RPlural {
    pub count_var: String,
    pub ordinal: bool,
    pub forms: BTreeMap<Form, Vec<RPiece>>,
}

#[derive(Clone, Debug, PartialEq, Eq, PartialOrd, Ord)]
pub enum ErrKind {
    MissingForeignKey,
    InvalidForeignKey,
    RecursiveForeignKey,
    ExplicitDefaultInDefault,
    InvalidCountArg,
    InvalidCountArgType,
    CountArgOutsideRange,
    /// a literal count that no branch accepts (no fallback)
    CountNoBranch,
    Other(String),
}

#[derive(Clone, Debug, PartialEq)]
pub struct ModelErr {
    pub kind: ErrKind,
    /// the key that must be named by the error
    pub at: String,
}

pub enum Lookup<'a> {
    Absent,
    Val(&'a Value),
}

pub fn lookup<'a>(obj: &'a Obj, path: &[String]) -> Lookup<'a> {
    match path {
        [] => Lookup::Absent,
        [k] => match obj_get(obj, k) {
            Some(v) => Lookup::Val(v),
            None => Lookup::Absent,
        },
        [k, rest @ ..] => match obj_get(obj, k) {
            Some(Value::Sub(o)) => lookup(o, rest),
            // everything below an explicitly defaulted group (`"group": null`) is explicitly defaulted
            Some(v @ Value::Null) => Lookup::Val(v),
            _ => Lookup::Absent,
        },
    }
}

/// how D4 (null target resolved in the default locale rather than along `inherits`) is treated
#[derive(Clone, Copy, Debug, PartialEq, Eq)]
pub enum NullFkMode {
    /// the documented reading: same effective locale as the key itself would have
    AlongInherits,
    /// what the pinned code does: jump to the default locale
    DefaultLocale,
}

pub struct Sem<'a> {
    pub p: &'a Project,
    pub null_fk: NullFkMode,
}

impl<'a> Sem<'a> {
    pub fn new(p: &'a Project) -> Self {
        Sem {
            p,
            null_fk: NullFkMode::AlongInherits,
        }
    }

    pub fn raw(&self, ns: Option<&str>, loc: &str, path: &[String]) -> Lookup<'a> {
        match self.p.file(ns, loc) {
            Some(obj) => lookup(obj, path),
            None => Lookup::Absent,
        }
    }

    /// is (locale, path) "defaulted" (absent, null, or below an absent/null group)?
    pub fn is_defaulted(&self, ns: Option<&str>, loc: &str, path: &[String]) -> bool {
        let Some(mut obj) = self.p.file(ns, loc) else {
            return true;
        };
        for (i, k) in path.iter().enumerate() {
            match obj_get(obj, k) {
                None | Some(Value::Null) => return true,
                Some(Value::Sub(o)) => {
                    if i + 1 == path.len() {
                        return false;
                    }
                    obj = o;
                }
                Some(_) => return i + 1 != path.len(),
            }
        }
        true
    }

    /// locale whose file provides the value of (locale, path): walk `inherits` (visited set),
    /// falling back to the default locale on a cycle or when there is no entry
    pub fn effective_locale(&self, ns: Option<&str>, loc: &str, path: &[String]) -> String {
        let default = self.p.default_locale().to_string();
        let mut cur = loc.to_string();
        let mut visited: BTreeSet<String> = BTreeSet::new();
        loop {
            if cur == default || !self.is_defaulted(ns, &cur, path) {
                return cur;
            }
            visited.insert(cur.clone());
            let next = self.p.inherits.get(&cur).cloned().unwrap_or_else(|| default.clone());
            if visited.contains(&next) {
                return default;
            }
            cur = next;
        }
    }

    /// resolve the value written at (ns, loc, path); `loc` must be a locale where it is defined
    pub fn resolve_at(&self, ns: Option<&str>, loc: &str, path: &[String]) -> Result<Vec<RPiece>, ModelErr> {
        let mut stack = vec![];
        self.resolve_key(ns, loc, path, &mut stack)
    }

    fn key_name(ns: Option<&str>, path: &[String]) -> String {
        match ns {
            Some(ns) => format!("{}::{}", ns, path.join(".")),
            None => path.join("."),
        }
    }

    fn resolve_key(
        &self,
        ns: Option<&str>,
        loc: &str,
        path: &[String],
        stack: &mut Vec<(Option<String>, String, Vec<String>)>,
    ) -> Result<Vec<RPiece>, ModelErr> {
        let me = (ns.map(|s| s.to_string()), loc.to_string(), path.to_vec());
        if stack.contains(&me) {
            return Err(ModelErr {
                kind: ErrKind::RecursiveForeignKey,
                at: Self::key_name(ns, path),
            });
        }
        let Lookup::Val(v) = self.raw(ns, loc, path) else {
            return Err(ModelErr {
                kind: ErrKind::Other("resolve_key on absent key".into()),
                at: Self::key_name(ns, path),
            });
        };
        stack.push(me);
        let r = self.resolve_value(v, ns, loc, path, stack);
        stack.pop();
        r
    }

    fn resolve_value(
        &self,
        v: &Value,
        ns: Option<&str>,
        loc: &str,
        path: &[String],
        stack: &mut Vec<(Option<String>, String, Vec<String>)>,
    ) -> Result<Vec<RPiece>, ModelErr> {
        Ok(match v {
            Value::Null | Value::Sub(_) => {
                return Err(ModelErr {
                    kind: ErrKind::Other("resolve_value on null/subkeys".into()),
                    at: Self::key_name(ns, path),
                })
            }
            Value::Bool(b) => vec![RPiece::Lit(Lit::Bool(*b))],
            Value::U(u) => vec![RPiece::Lit(Lit::U(*u))],
            Value::I(i) => vec![RPiece::Lit(Lit::I(*i))],
            Value::F(f) => vec![RPiece::Lit(Lit::F(*f))],
            Value::Str(p) => self.resolve_pieces(p, ns, loc, path, stack)?,
            Value::Range(r) => {
                let mut branches = vec![];
                for b in &r.branches {
                    branches.push((b.specs.clone(), self.resolve_pieces(&b.body, ns, loc, path, stack)?));
                }
                vec![RPiece::Range(RRange {
                    count_var: "count".into(),
                    ty: r.ty,
                    branches,
                })]
            }
            Value::Plural(pl) => {
                let mut forms = BTreeMap::new();
                for (f, body) in &pl.forms {
                    forms.insert(*f, self.resolve_pieces(body, ns, loc, path, stack)?);
                }
                vec![RPiece::Plural(RPlural {
                    count_var: "count".into(),
                    ordinal: pl.ordinal,
                    forms,
                })]
            }
        })
    }

    fn resolve_pieces(
        &self,
        pieces: &[Piece],
        ns: Option<&str>,
        loc: &str,
        path: &[String],
        stack: &mut Vec<(Option<String>, String, Vec<String>)>,
    ) -> Result<Vec<RPiece>, ModelErr> {
        let mut out = vec![];
        for p in pieces {
            match p {
                Piece::Text(t) => out.push(RPiece::Text(t.clone())),
                Piece::Var { name, fmt, .. } => out.push(RPiece::Var {
                    name: name.clone(),
                    fmt: fmt.clone(),
                }),
                Piece::Comp { name, children, .. } => out.push(RPiece::Comp {
                    name: name.clone(),
                    children: self.resolve_pieces(children, ns, loc, path, stack)?,
                }),
                Piece::Fk(fk) => {
                    let r = self.resolve_fk(fk, ns, loc, path, stack)?;
                    out.extend(r);
                }
            }
        }
        Ok(out)
    }

    fn resolve_fk(
        &self,
        fk: &Fk,
        ns: Option<&str>,
        loc: &str,
        path: &[String],
        stack: &mut Vec<(Option<String>, String, Vec<String>)>,
    ) -> Result<Vec<RPiece>, ModelErr> {
        let at = Self::key_name(ns, path);
        let err = |kind: ErrKind| ModelErr { kind, at: at.clone() };
        // namespace rules: with namespaces the target must name one, without it must not
        let target_ns: Option<&str> = match (&self.p.namespaces, &fk.ns) {
            (Some(list), Some(n)) if list.contains(n) => Some(n.as_str()),
            (None, None) => None,
            _ => return Err(err(ErrKind::MissingForeignKey)),
        };
        // find the locale that provides the target
        let mut tloc = loc.to_string();
        let target = loop {
            match self.raw(target_ns, &tloc, &fk.path) {
                Lookup::Absent => return Err(err(ErrKind::MissingForeignKey)),
                Lookup::Val(Value::Sub(_)) => return Err(err(ErrKind::InvalidForeignKey)),
                Lookup::Val(Value::Null) => {
                    if tloc == self.p.default_locale() {
                        return Err(err(ErrKind::ExplicitDefaultInDefault));
                    }
                    tloc = match self.null_fk {
                        NullFkMode::DefaultLocale => self.p.default_locale().to_string(),
                        NullFkMode::AlongInherits => {
                            let e = self.effective_locale(target_ns, &tloc, &fk.path);
                            if e == tloc {
                                // cannot happen: a null value is defaulted
                                self.p.default_locale().to_string()
                            } else {
                                e
                            }
                        }
                    };
                    // an effective locale may still hold an absent key (implicit default): error
                    continue;
                }
                Lookup::Val(_) => break self.resolve_key(target_ns, &tloc, &fk.path, stack)?,
            }
        };
        // arguments are resolved in the referencing key's context
        let mut args: BTreeMap<String, Vec<RPiece>> = BTreeMap::new();
        for (name, arg) in &fk.args {
            let v = match arg {
                Arg::Str(p) => self.resolve_pieces(p, ns, loc, path, stack)?,
                Arg::U(u) => vec![RPiece::Lit(Lit::U(*u))],
                Arg::I(i) => vec![RPiece::Lit(Lit::I(*i))],
                Arg::F(f) => vec![RPiece::Lit(Lit::F(*f))],
                Arg::B(b) => vec![RPiece::Lit(Lit::Bool(*b))],
            };
            args.insert(name.trim().to_string(), v);
        }
        // literal counts pick the plural form with the rules of the referencing locale (the statement's "same locale"),
        // also when the target was found in the locale a null falls back to
        let _ = &tloc;
        subst(&target, &args, loc).map_err(|k| err(k))
    }
}

/// structural substitution of `args` into a resolved value (`locale` = locale of the target, for
/// plural categories of literal counts)
pub fn subst(target: &[RPiece], args: &BTreeMap<String, Vec<RPiece>>, locale: &str) -> Result<Vec<RPiece>, ErrKind> {
    let mut out = vec![];
    for p in target {
        match p {
            RPiece::Text(_) | RPiece::Lit(_) => out.push(p.clone()),
            RPiece::Var { name, .. } => match args.get(name) {
                Some(v) => out.extend(v.iter().cloned()),
                None => out.push(p.clone()),
            },
            RPiece::Comp { name, children } => out.push(RPiece::Comp {
                name: name.clone(),
                children: subst(children, args, locale)?,
            }),
            // the count may have been renamed by an earlier reference: the argument that matters is the one of that name
            RPiece::Range(r) => match args.get(&r.count_var) {
                None => {
                    let mut branches = vec![];
                    for (s, b) in &r.branches {
                        branches.push((s.clone(), subst(b, args, locale)?));
                    }
                    out.push(RPiece::Range(RRange {
                        count_var: r.count_var.clone(),
                        ty: r.ty,
                        branches,
                    }));
                }
                Some(count) => match count_arg_kind(count)? {
                    CountArg::Var(v) => {
                        let mut branches = vec![];
                        for (s, b) in &r.branches {
                            branches.push((s.clone(), subst(b, args, locale)?));
                        }
                        out.push(RPiece::Range(RRange {
                            count_var: v,
                            ty: r.ty,
                            branches,
                        }));
                    }
                    CountArg::Lit(l) => {
                        let n = lit_to_count(&l, r.ty)?;
                        match select_branch(r, n) {
                            Some(i) => out.extend(subst(&r.branches[i].1, args, locale)?),
                            None => return Err(ErrKind::CountNoBranch),
                        }
                    }
                },
            },
            RPiece::Plural(pl) => match args.get(&pl.count_var) {
                None => {
                    let mut forms = BTreeMap::new();
                    for (f, b) in &pl.forms {
                        forms.insert(*f, subst(b, args, locale)?);
                    }
                    out.push(RPiece::Plural(RPlural {
                        count_var: pl.count_var.clone(),
                        ordinal: pl.ordinal,
                        forms,
                    }));
                }
                Some(count) => match count_arg_kind(count)? {
                    CountArg::Var(v) => {
                        let mut forms = BTreeMap::new();
                        for (f, b) in &pl.forms {
                            forms.insert(*f, subst(b, args, locale)?);
                        }
                        out.push(RPiece::Plural(RPlural {
                            count_var: v,
                            ordinal: pl.ordinal,
                            forms,
                        }));
                    }
                    CountArg::Lit(l) => {
                        let cat = match &l {
                            Lit::U(u) => plural_category_int(locale, pl.ordinal, *u as i128),
                            Lit::I(i) => plural_category_int(locale, pl.ordinal, *i as i128),
                            Lit::F(f) => plural_category_f64(locale, pl.ordinal, *f),
                            Lit::Bool(_) => return Err(ErrKind::InvalidCountArg),
                        };
                        let Some(cat) = cat else {
                            return Err(ErrKind::Other(format!("no plural rules for {locale}")));
                        };
                        let body = pl.forms.get(&cat).unwrap_or_else(|| &pl.forms[&Form::Other]);
                        out.extend(subst(body, args, locale)?);
                    }
                },
            },
        }
    }
    Ok(out)
}

enum CountArg {
    Var(String),
    Lit(Lit),
}

fn count_arg_kind(v: &[RPiece]) -> Result<CountArg, ErrKind> {
    // a single literal number, or a single variable surrounded by whitespace only
    let mut var = None;
    let mut lit = None;
    for p in v {
        match p {
            RPiece::Text(t) if t.trim().is_empty() => {}
            RPiece::Var { name, .. } if var.is_none() && lit.is_none() => var = Some(name.clone()),
            RPiece::Lit(l) if var.is_none() && lit.is_none() && v.len() == 1 => lit = Some(l.clone()),
            _ => return Err(ErrKind::InvalidCountArg),
        }
    }
    match (var, lit) {
        (Some(v), None) => Ok(CountArg::Var(v)),
        (None, Some(Lit::Bool(_))) => Err(ErrKind::InvalidCountArg),
        (None, Some(l)) => Ok(CountArg::Lit(l)),
        _ => Err(ErrKind::InvalidCountArg),
    }
}

fn lit_to_count(l: &Lit, ty: RangeTy) -> Result<Num, ErrKind> {
    match (l, ty.is_float()) {
        (Lit::F(f), true) => Ok(Num::Float(if ty == RangeTy::F32 { (*f as f32) as f64 } else { *f })),
        (Lit::F(_), false) => Err(ErrKind::InvalidCountArgType),
        (Lit::U(_), true) | (Lit::I(_), true) => Err(ErrKind::InvalidCountArgType),
        (Lit::U(u), false) => {
            let (lo, hi) = ty.min_max();
            let v = *u as i128;
            if v < lo || v > hi {
                Err(ErrKind::CountArgOutsideRange)
            } else {
                Ok(Num::Int(v))
            }
        }
        (Lit::I(i), false) => {
            let (lo, hi) = ty.min_max();
            let v = *i as i128;
            if v < lo || v > hi {
                Err(ErrKind::CountArgOutsideRange)
            } else {
                Ok(Num::Int(v))
            }
        }
        (Lit::Bool(_), _) => Err(ErrKind::InvalidCountArg),
    }
}

// ------------------------------------------------------------------------------------------
// ranges

/// a bound of a float range as the value of the range's type (Rust semantics: an integer written for an `f32`
/// range is converted to `f32` directly, not through `f64`)
pub fn bound_f64(b: &Num, ty: RangeTy) -> f64 {
    match (b, ty) {
        (Num::Int(i), RangeTy::F32) => (*i as f32) as f64,
        (Num::Int(i), _) => *i as f64,
        (Num::Float(f), RangeTy::F32) => (*f as f32) as f64,
        (Num::Float(f), _) => *f,
    }
}

pub fn spec_matches(spec: &CountSpec, n: Num, ty: RangeTy) -> bool {
    match (spec, n) {
        (CountSpec::Exact { v: Num::Int(a), .. }, Num::Int(b)) => *a == b,
        (CountSpec::Exact { v, .. }, Num::Float(n)) if ty.is_float() => bound_f64(v, ty) == n,
        (CountSpec::Exact { v, .. }, n) => v.as_f64() == n.as_f64(),
        (CountSpec::Bounds { start, end }, Num::Int(n)) => {
            let int = |x: &Num| match x {
                Num::Int(i) => *i,
                Num::Float(f) => *f as i128,
            };
            if let Some(s) = start {
                if n < int(s) {
                    return false;
                }
            }
            match end {
                None => true,
                Some((e, true)) => n <= int(e),
                Some((e, false)) => n < int(e),
            }
        }
        (CountSpec::Bounds { start, end }, Num::Float(n)) => {
            if let Some(s) = start {
                if !(n >= s.as_f64()) {
                    return false;
                }
            }
            match end {
                None => true,
                Some((e, true)) => n <= e.as_f64(),
                Some((e, false)) => n < e.as_f64(),
            }
        }
    }
}

/// index of the first branch containing `n` (Rust range semantics); fallback = empty spec list
pub fn select_branch(r: &RRange, n: Num) -> Option<usize> {
    r.branches
        .iter()
        .position(|(specs, _)| specs.is_empty() || specs.iter().any(|s| spec_matches(s, n, r.ty)))
}

pub fn select_branch_decl(r: &RangeDecl, n: Num) -> Option<usize> {
    r.branches
        .iter()
        .position(|b| b.specs.is_empty() || b.specs.iter().any(|s| spec_matches(s, n, r.ty)))
}

// ------------------------------------------------------------------------------------------
// CLDR plural rules, hand-transcribed (CLDR 44/45) for the locale pool. Integers and decimals
// given as f64 (operands derived from the shortest decimal representation, like FixedDecimal).

#[derive(Clone, Copy, Debug)]
pub struct Operands {
    pub n: f64,
    pub i: u128,
    pub v: u32,
    pub f: u128,
    pub t: u128,
}

pub fn operands_int(n: i128) -> Operands {
    let a = n.unsigned_abs();
    Operands {
        n: a as f64,
        i: a,
        v: 0,
        f: 0,
        t: 0,
    }
}

/// operands of a decimal written with `Display` (shortest round-trip), e.g. 1.5 -> i=1 v=1 f=5 t=5
pub fn operands_f64(x: f64) -> Option<Operands> {
    if !x.is_finite() {
        return None;
    }
    let s = format!("{}", x.abs());
    if s.contains('e') || s.contains('E') {
        return None;
    }
    let (ip, fp) = match s.split_once('.') {
        Some((a, b)) => (a, b),
        None => (s.as_str(), ""),
    };
    let i: u128 = ip.parse().ok()?;
    let v = fp.len() as u32;
    let f: u128 = if fp.is_empty() { 0 } else { fp.parse().ok()? };
    let tstr = fp.trim_end_matches('0');
    let t: u128 = if tstr.is_empty() { 0 } else { tstr.parse().ok()? };
    Some(Operands { n: x.abs(), i, v, f, t })
}

fn lang_of(locale: &str) -> &str {
    locale.split(['-', '_']).next().unwrap_or(locale)
}

fn within(x: u128, lo: u128, hi: u128) -> bool {
    x >= lo && x <= hi
}

/// None = locale not in the hand-transcribed pool
pub fn plural_category(locale: &str, ordinal: bool, o: Operands) -> Option<Form> {
    let Operands { n, i, v, f, t: _ } = o;
    let is_int = v == 0;
    let ni = i; // n as integer when is_int
    let lang = lang_of(locale);
    let million = |i: u128, v: u32| i != 0 && i % 1_000_000 == 0 && v == 0;
    Some(if !ordinal {
        match lang {
            "en" | "de" | "nl" | "sv" => {
                if i == 1 && v == 0 {
                    Form::One
                } else {
                    Form::Other
                }
            }
            "fr" => {
                if i == 0 || i == 1 {
                    Form::One
                } else if million(i, v) {
                    Form::Many
                } else {
                    Form::Other
                }
            }
            "es" => {
                if n == 1.0 {
                    Form::One
                } else if million(i, v) {
                    Form::Many
                } else {
                    Form::Other
                }
            }
            "it" => {
                if i == 1 && v == 0 {
                    Form::One
                } else if million(i, v) {
                    Form::Many
                } else {
                    Form::Other
                }
            }
            "pt" => {
                if locale == "pt-PT" {
                    if i == 1 && v == 0 {
                        Form::One
                    } else if million(i, v) {
                        Form::Many
                    } else {
                        Form::Other
                    }
                } else if i == 0 || i == 1 {
                    Form::One
                } else if million(i, v) {
                    Form::Many
                } else {
                    Form::Other
                }
            }
            "ru" | "uk" => {
                if v == 0 && i % 10 == 1 && i % 100 != 11 {
                    Form::One
                } else if v == 0 && within(i % 10, 2, 4) && !within(i % 100, 12, 14) {
                    Form::Few
                } else if v == 0 && (i % 10 == 0 || within(i % 10, 5, 9) || within(i % 100, 11, 14)) {
                    Form::Many
                } else {
                    Form::Other
                }
            }
            "pl" => {
                if i == 1 && v == 0 {
                    Form::One
                } else if v == 0 && within(i % 10, 2, 4) && !within(i % 100, 12, 14) {
                    Form::Few
                } else if v == 0 && ((i != 1 && within(i % 10, 0, 1)) || within(i % 10, 5, 9) || within(i % 100, 12, 14)) {
                    Form::Many
                } else {
                    Form::Other
                }
            }
            "ar" => {
                if !is_int {
                    Form::Other
                } else if ni == 0 {
                    Form::Zero
                } else if ni == 1 {
                    Form::One
                } else if ni == 2 {
                    Form::Two
                } else if within(ni % 100, 3, 10) {
                    Form::Few
                } else if within(ni % 100, 11, 99) {
                    Form::Many
                } else {
                    Form::Other
                }
            }
            "cy" => {
                if !is_int {
                    Form::Other
                } else {
                    match ni {
                        0 => Form::Zero,
                        1 => Form::One,
                        2 => Form::Two,
                        3 => Form::Few,
                        6 => Form::Many,
                        _ => Form::Other,
                    }
                }
            }
            "ja" | "zh" | "ko" => Form::Other,
            "he" => {
                if (i == 1 && v == 0) || (i == 0 && v != 0) {
                    Form::One
                } else if i == 2 && v == 0 {
                    Form::Two
                } else {
                    Form::Other
                }
            }
            "lt" => {
                if f != 0 {
                    Form::Many
                } else if ni % 10 == 1 && !within(ni % 100, 11, 19) {
                    Form::One
                } else if within(ni % 10, 2, 9) && !within(ni % 100, 11, 19) {
                    Form::Few
                } else {
                    Form::Other
                }
            }
            "ga" => {
                if !is_int {
                    Form::Other
                } else if ni == 1 {
                    Form::One
                } else if ni == 2 {
                    Form::Two
                } else if within(ni, 3, 6) {
                    Form::Few
                } else if within(ni, 7, 10) {
                    Form::Many
                } else {
                    Form::Other
                }
            }
            "sl" => {
                if v == 0 && i % 100 == 1 {
                    Form::One
                } else if v == 0 && i % 100 == 2 {
                    Form::Two
                } else if (v == 0 && within(i % 100, 3, 4)) || v != 0 {
                    Form::Few
                } else {
                    Form::Other
                }
            }
            _ => return None,
        }
    } else {
        match lang {
            "en" => {
                if !is_int {
                    Form::Other
                } else if ni % 10 == 1 && ni % 100 != 11 {
                    Form::One
                } else if ni % 10 == 2 && ni % 100 != 12 {
                    Form::Two
                } else if ni % 10 == 3 && ni % 100 != 13 {
                    Form::Few
                } else {
                    Form::Other
                }
            }
            "fr" | "ga" => {
                if is_int && ni == 1 {
                    Form::One
                } else {
                    Form::Other
                }
            }
            "it" => {
                if is_int && matches!(ni, 11 | 8 | 80 | 800) {
                    Form::Many
                } else {
                    Form::Other
                }
            }
            "cy" => {
                if !is_int {
                    Form::Other
                } else {
                    match ni {
                        0 | 7 | 8 | 9 => Form::Zero,
                        1 => Form::One,
                        2 => Form::Two,
                        3 | 4 => Form::Few,
                        5 | 6 => Form::Many,
                        _ => Form::Other,
                    }
                }
            }
            "sv" => {
                if is_int && within(ni % 10, 1, 2) && !within(ni % 100, 11, 12) {
                    Form::One
                } else {
                    Form::Other
                }
            }
            "de" | "nl" | "es" | "pt" | "ru" | "pl" | "ar" | "ja" | "zh" | "ko" | "he" | "lt" | "sl" => Form::Other,
            "uk" => {
                if is_int && ni % 10 == 3 && ni % 100 != 13 {
                    Form::Few
                } else {
                    Form::Other
                }
            }
            _ => return None,
        }
    })
}

pub fn plural_category_int(locale: &str, ordinal: bool, n: i128) -> Option<Form> {
    plural_category(locale, ordinal, operands_int(n))
}

pub fn plural_category_f64(locale: &str, ordinal: bool, x: f64) -> Option<Form> {
    plural_category(locale, ordinal, operands_f64(x)?)
}

/// categories a locale uses at all (for the unused-form diagnostics)
pub fn plural_categories(locale: &str, ordinal: bool) -> Option<BTreeSet<Form>> {
    let lang = lang_of(locale);
    let v: &[Form] = if !ordinal {
        match lang {
            "en" | "de" | "nl" | "sv" => &[Form::One, Form::Other],
            "fr" | "es" | "it" | "pt" => &[Form::One, Form::Many, Form::Other],
            "ru" | "uk" | "pl" => &[Form::One, Form::Few, Form::Many, Form::Other],
            "ar" | "cy" => &[Form::Zero, Form::One, Form::Two, Form::Few, Form::Many, Form::Other],
            "ja" | "zh" | "ko" => &[Form::Other],
            "he" => &[Form::One, Form::Two, Form::Other],
            "lt" => &[Form::One, Form::Few, Form::Many, Form::Other],
            "ga" => &[Form::One, Form::Two, Form::Few, Form::Many, Form::Other],
            "sl" => &[Form::One, Form::Two, Form::Few, Form::Other],
            _ => return None,
        }
    } else {
        match lang {
            "en" => &[Form::One, Form::Two, Form::Few, Form::Other],
            "fr" | "ga" | "sv" => &[Form::One, Form::Other],
            "it" => &[Form::Many, Form::Other],
            "cy" => &[Form::Zero, Form::One, Form::Two, Form::Few, Form::Many, Form::Other],
            "uk" => &[Form::Few, Form::Other],
            "de" | "nl" | "es" | "pt" | "ru" | "pl" | "ar" | "ja" | "zh" | "ko" | "he" | "lt" | "sl" => &[Form::Other],
            _ => return None,
        }
    };
    Some(v.iter().copied().collect())
}

// ------------------------------------------------------------------------------------------
// rendering and signatures

/// runtime arguments: variable name -> displayed text (counts also carry their number)
#[derive(Clone, Debug, Default)]
pub struct RtArgs {
    pub vars: BTreeMap<String, String>,
    pub counts: BTreeMap<String, Num>,
}

#[derive(Clone, Debug, PartialEq)]
pub enum RenderErr {
    MissingVar(String),
    MissingCount(String),
    NoBranch,
    NoPluralRules(String),
    /// formatter present: rendering is not modelled here
    Formatter,
}

pub fn num_display(n: Num, ty: RangeTy) -> String {
    match n {
        Num::Int(i) => i.to_string(),
        Num::Float(f) => {
            if ty == RangeTy::F32 {
                format!("{}", f as f32)
            } else {
                format!("{}", f)
            }
        }
    }
}

/// `locale` = the locale the text is rendered for (plural rules of runtime counts)
pub fn render(pieces: &[RPiece], args: &RtArgs, locale: &str) -> Result<Tree, RenderErr> {
    let mut out = vec![];
    render_into(pieces, args, locale, &mut out)?;
    Ok(normalize_tree(out))
}

fn render_into(pieces: &[RPiece], args: &RtArgs, locale: &str, out: &mut Tree) -> Result<(), RenderErr> {
    for p in pieces {
        match p {
            RPiece::Text(t) => out.push(Node::Text(t.clone())),
            RPiece::Lit(l) => out.push(Node::Text(l.display())),
            RPiece::Var { name, fmt } => {
                if fmt.is_some() {
                    return Err(RenderErr::Formatter);
                }
                match args.vars.get(name) {
                    Some(v) => out.push(Node::Text(v.clone())),
                    None => return Err(RenderErr::MissingVar(name.clone())),
                }
            }
            RPiece::Comp { name, children } => {
                let mut ch = vec![];
                render_into(children, args, locale, &mut ch)?;
                out.push(Node::Elem(name.clone(), ch));
            }
            RPiece::Range(r) => {
                let n = *args
                    .counts
                    .get(&r.count_var)
                    .ok_or_else(|| RenderErr::MissingCount(r.count_var.clone()))?;
                let i = select_branch(r, n).ok_or(RenderErr::NoBranch)?;
                render_into(&r.branches[i].1, args, locale, out)?;
            }
            RPiece::Plural(pl) => {
                let n = *args
                    .counts
                    .get(&pl.count_var)
                    .ok_or_else(|| RenderErr::MissingCount(pl.count_var.clone()))?;
                let cat = match n {
                    Num::Int(i) => plural_category_int(locale, pl.ordinal, i),
                    Num::Float(f) => plural_category_f64(locale, pl.ordinal, f),
                }
                .ok_or_else(|| RenderErr::NoPluralRules(locale.to_string()))?;
                let body = pl.forms.get(&cat).unwrap_or_else(|| &pl.forms[&Form::Other]);
                render_into(body, args, locale, out)?;
            }
        }
    }
    Ok(())
}

#[derive(Clone, Debug, PartialEq, Eq, PartialOrd, Ord)]
pub enum CountKind {
    Range(RangeTy),
    Plural,
}

/// what a caller must supply for a resolved value
#[derive(Clone, Debug, Default, PartialEq, Eq)]
pub struct Signature {
    pub vars: BTreeSet<String>,
    pub comps: BTreeSet<String>,
    pub counts: BTreeMap<String, BTreeSet<CountKind>>,
    /// formatter texts seen per variable
    pub formatters: BTreeMap<String, BTreeSet<String>>,
}

impl Signature {
    pub fn is_empty(&self) -> bool {
        self.vars.is_empty() && self.comps.is_empty() && self.counts.is_empty()
    }
    pub fn merge(&mut self, o: &Signature) {
        self.vars.extend(o.vars.iter().cloned());
        self.comps.extend(o.comps.iter().cloned());
        for (k, v) in &o.counts {
            self.counts.entry(k.clone()).or_default().extend(v.iter().cloned());
        }
        for (k, v) in &o.formatters {
            self.formatters.entry(k.clone()).or_default().extend(v.iter().cloned());
        }
    }
}

pub fn signature(pieces: &[RPiece], sig: &mut Signature) {
    for p in pieces {
        match p {
            RPiece::Text(_) | RPiece::Lit(_) => {}
            RPiece::Var { name, fmt } => {
                sig.vars.insert(name.clone());
                if let Some(f) = fmt {
                    sig.formatters.entry(name.clone()).or_default().insert(f.name.clone());
                }
            }
            RPiece::Comp { name, children } => {
                sig.comps.insert(name.clone());
                signature(children, sig);
            }
            RPiece::Range(r) => {
                sig.vars.insert(r.count_var.clone());
                sig.counts.entry(r.count_var.clone()).or_default().insert(CountKind::Range(r.ty));
                for (_, b) in &r.branches {
                    signature(b, sig);
                }
            }
            RPiece::Plural(pl) => {
                sig.vars.insert(pl.count_var.clone());
                sig.counts.entry(pl.count_var.clone()).or_default().insert(CountKind::Plural);
                for b in pl.forms.values() {
                    signature(b, sig);
                }
            }
        }
    }
}

/// the entries a resolved value contributes to its locale's string table: adjacent text / literal
/// pieces are joined (a lone number or bool is not a string), and an empty body is the empty string
pub fn literal_texts(pieces: &[RPiece], out: &mut Vec<String>) {
    if pieces.is_empty() {
        out.push(String::new());
        return;
    }
    // (text, number of joined pieces, contains a Text piece)
    let mut cur: Option<(String, usize, bool)> = None;
    fn flush(cur: &mut Option<(String, usize, bool)>, out: &mut Vec<String>) {
        if let Some((s, n, has_text)) = cur.take() {
            if has_text || n >= 2 {
                out.push(s);
            }
        }
    }
    for p in pieces {
        match p {
            RPiece::Text(t) => {
                if t.is_empty() {
                    continue;
                }
                let c = cur.get_or_insert_with(|| (String::new(), 0, false));
                c.0.push_str(t);
                c.1 += 1;
                c.2 = true;
            }
            RPiece::Lit(l) => {
                let c = cur.get_or_insert_with(|| (String::new(), 0, false));
                c.0.push_str(&l.display());
                c.1 += 1;
            }
            RPiece::Var { .. } => flush(&mut cur, out),
            RPiece::Comp { children, .. } => {
                flush(&mut cur, out);
                literal_texts(children, out);
            }
            RPiece::Range(r) => {
                flush(&mut cur, out);
                for (_, b) in &r.branches {
                    literal_texts(b, out);
                }
            }
            RPiece::Plural(pl) => {
                flush(&mut cur, out);
                for b in pl.forms.values() {
                    literal_texts(b, out);
                }
            }
        }
    }
    flush(&mut cur, out);
}

// ------------------------------------------------------------------------------------------
// diagnostics (C07)

#[derive(Clone, Debug, PartialEq, Eq, PartialOrd, Ord)]
pub enum WarnKind {
    Missing,
    Surplus,
}

/// (kind, locale, key path as the library prints it: `ns::a.b`)
pub type ModelWarning = (WarnKind, String, String);

fn path_string(ns: Option<&str>, path: &[String]) -> String {
    match ns {
        Some(ns) => format!("{}::{}", ns, path.join(".")),
        None => path.join("."),
    }
}

/// Missing / surplus key diagnostics the documentation requires; `Err` = kind flip (a group in one
/// locale, a value in the other), which must be a load error
pub fn model_key_warnings(p: &Project, suppress: bool) -> Result<Vec<ModelWarning>, ModelErr> {
    fn walk(
        def: &Obj,
        other: &Obj,
        ns: Option<&str>,
        loc: &str,
        implicit: bool,
        suppress: bool,
        prefix: &mut Vec<String>,
        out: &mut Vec<ModelWarning>,
    ) -> Result<(), ModelErr> {
        for (k, dv) in def {
            prefix.push(k.clone());
            match obj_get(other, k) {
                None => {
                    if implicit {
                        out.push((WarnKind::Missing, loc.to_string(), path_string(ns, prefix)));
                    }
                }
                Some(Value::Null) => {}
                Some(ov) => match (dv, ov) {
                    (Value::Sub(d), Value::Sub(o)) => walk(d, o, ns, loc, implicit, suppress, prefix, out)?,
                    (Value::Sub(_), _) | (_, Value::Sub(_)) => {
                        return Err(ModelErr {
                            kind: ErrKind::Other("SubKeyMissmatch".into()),
                            at: path_string(ns, prefix),
                        })
                    }
                    _ => {}
                },
            }
            prefix.pop();
        }
        if !suppress {
            for (k, _) in other {
                if obj_get(def, k).is_none() {
                    prefix.push(k.clone());
                    out.push((WarnKind::Surplus, loc.to_string(), path_string(ns, prefix)));
                    prefix.pop();
                }
            }
        }
        Ok(())
    }
    let mut out = vec![];
    for ns in p.ns_list() {
        let nsr = ns.as_deref();
        let Some(def) = p.file(nsr, p.default_locale()) else { continue };
        for loc in p.locales.iter().skip(1) {
            let Some(o) = p.file(nsr, loc) else { continue };
            let implicit = !suppress && !p.inherits.contains_key(loc);
            walk(def, o, nsr, loc, implicit, suppress, &mut vec![], &mut out)?;
        }
    }
    out.sort();
    Ok(out)
}

// ------------------------------------------------------------------------------------------
// ICU data needs (C20)

/// option families ("plurals", "number", "datetime", "list", "currency") the accessible keys need
pub fn needed_icu_options(p: &Project, sem: &Sem) -> BTreeSet<String> {
    fn walk(pieces: &[RPiece], out: &mut BTreeSet<String>) {
        for x in pieces {
            match x {
                RPiece::Var { fmt: Some(f), .. } => {
                    out.insert(
                        match f.name.as_str() {
                            "date" | "time" | "datetime" => "datetime",
                            "number" => "number",
                            "list" => "list",
                            "currency" => "currency",
                            other => other,
                        }
                        .to_string(),
                    );
                }
                RPiece::Comp { children, .. } => walk(children, out),
                RPiece::Range(r) => {
                    for (_, b) in &r.branches {
                        walk(b, out);
                    }
                }
                RPiece::Plural(pl) => {
                    out.insert("plurals".into());
                    for b in pl.forms.values() {
                        walk(b, out);
                    }
                }
                _ => {}
            }
        }
    }
    let mut out = BTreeSet::new();
    for ns in p.ns_list() {
        let nsr = ns.as_deref();
        let Some(def) = p.file(nsr, p.default_locale()) else { continue };
        let mut paths = vec![];
        crate::gen::leaf_paths(def, &mut vec![], &mut paths);
        for path in paths {
            for loc in &p.locales {
                if sem.is_defaulted(nsr, loc, &path) {
                    continue;
                }
                if let Ok(r) = sem.resolve_at(nsr, loc, &path) {
                    walk(&r, &mut out);
                }
            }
        }
    }
    out
}

// ------------------------------------------------------------------------------------------
// project-level expectations

/// every written leaf value of every file: (ns, locale, path)
pub fn all_written_leaves(p: &Project) -> Vec<(Option<String>, String, Vec<String>)> {
    let mut out = vec![];
    for ((ns, loc), obj) in &p.files {
        let mut paths = vec![];
        crate::gen::leaf_paths(obj, &mut vec![], &mut paths);
        for path in paths {
            out.push((ns.clone(), loc.clone(), path));
        }
    }
    out
}

/// errors the documentation requires for this project (empty = must load)
pub fn expected_errors(p: &Project, sem: &Sem) -> Vec<ModelErr> {
    let mut errs = vec![];
    // every written value must resolve (references are resolved wherever they are written)
    for (ns, loc, path) in all_written_leaves(p) {
        match sem.raw(ns.as_deref(), &loc, &path) {
            Lookup::Val(Value::Null) => {
                if loc == p.default_locale() {
                    errs.push(ModelErr {
                        kind: ErrKind::ExplicitDefaultInDefault,
                        at: path.join("."),
                    });
                }
            }
            Lookup::Val(Value::Sub(_)) | Lookup::Absent => {}
            Lookup::Val(_) => {
                if let Err(e) = sem.resolve_at(ns.as_deref(), &loc, &path) {
                    errs.push(e);
                }
            }
        }
    }
    // a subkey group in one locale and a value in another
    if let Err(e) = model_key_warnings(p, false) {
        errs.push(e);
    }
    // count-variable conflicts per accessible key (union over locales)
    for ns in p.ns_list() {
        let Some(def) = p.file(ns.as_deref(), p.default_locale()) else { continue };
        let mut paths = vec![];
        crate::gen::leaf_paths(def, &mut vec![], &mut paths);
        for path in paths {
            let mut sig = Signature::default();
            for loc in &p.locales {
                if sem.is_defaulted(ns.as_deref(), loc, &path) {
                    continue;
                }
                if let Ok(r) = sem.resolve_at(ns.as_deref(), loc, &path) {
                    signature(&r, &mut sig);
                }
            }
            for (v, kinds) in &sig.counts {
                if kinds.len() > 1 {
                    errs.push(ModelErr {
                        kind: ErrKind::Other(format!("count conflict on {v}: {kinds:?}")),
                        at: path.join("."),
                    });
                }
            }
        }
    }
    errs
}


// ------------------------------------------------------------------------------------------
// probe counts

pub fn next_up(x: f64, ty: RangeTy) -> f64 {
    if ty == RangeTy::F32 {
        let f = x as f32;
        let b = f.to_bits();
        let n = if f == 0.0 {
            1
        } else if f > 0.0 {
            b + 1
        } else {
            b - 1
        };
        let r = f32::from_bits(n);
        if r.is_finite() {
            r as f64
        } else {
            x
        }
    } else {
        let b = x.to_bits();
        let n = if x == 0.0 {
            1
        } else if x > 0.0 {
            b + 1
        } else {
            b - 1
        };
        let r = f64::from_bits(n);
        if r.is_finite() {
            r
        } else {
            x
        }
    }
}

pub fn next_down(x: f64, ty: RangeTy) -> f64 {
    -next_up(-x, ty)
}

/// interesting counts for a range: every bound, its neighbours, the type extremes
pub fn range_probe_counts(specs: &[&CountSpec], ty: RangeTy) -> Vec<Num> {
    let mut out: Vec<Num> = vec![];
    let mut push = |n: Num| {
        if !out.iter().any(|x| match (x, &n) {
            (Num::Int(a), Num::Int(b)) => a == b,
            (Num::Float(a), Num::Float(b)) => a.to_bits() == b.to_bits(),
            _ => false,
        }) {
            out.push(n)
        }
    };
    if ty.is_float() {
        let mut base = vec![0.0, 1.0, -1.0, 0.5];
        for s in specs {
            match s {
                CountSpec::Exact { v, .. } => base.push(bound_f64(v, ty)),
                CountSpec::Bounds { start, end } => {
                    if let Some(s) = start {
                        base.push(s.as_f64());
                    }
                    if let Some((e, _)) = end {
                        base.push(e.as_f64());
                    }
                }
            }
        }
        for b in base {
            let b = if ty == RangeTy::F32 { (b as f32) as f64 } else { b };
            push(Num::Float(b));
            push(Num::Float(next_up(b, ty)));
            push(Num::Float(next_down(b, ty)));
        }
        if ty == RangeTy::F32 {
            push(Num::Float(f32::MAX as f64));
            push(Num::Float(f32::MIN as f64));
        } else {
            push(Num::Float(f64::MAX));
            push(Num::Float(f64::MIN));
        }
    } else {
        let (lo, hi) = ty.min_max();
        let mut base = vec![0i128, 1, 2, lo, hi];
        for s in specs {
            match s {
                CountSpec::Exact { v: Num::Int(i), .. } => base.push(*i),
                CountSpec::Bounds { start, end } => {
                    if let Some(Num::Int(s)) = start {
                        base.push(*s);
                    }
                    if let Some((Num::Int(e), _)) = end {
                        base.push(*e);
                    }
                }
                _ => {}
            }
        }
        for b in base {
            for d in [-2i128, -1, 0, 1, 2] {
                let v = b + d;
                if v >= lo && v <= hi {
                    push(Num::Int(v));
                }
            }
        }
    }
    out
}

pub const PLURAL_PROBES: &[i128] = &[
    0, 1, 2, 3, 4, 5, 6, 7, 8, 9, 10, 11, 12, 13, 14, 19, 20, 21, 22, 23, 24, 25, 80, 100, 101, 102, 103, 111, 112, 113, 800,
    1000, 1001, 1000000, 2000000, 1000001,
];

pub fn collect_count_specs<'a>(pieces: &'a [RPiece], var: &str, out: &mut Vec<(&'a CountSpec, RangeTy)>, plural: &mut bool) {
    for p in pieces {
        match p {
            RPiece::Comp { children, .. } => collect_count_specs(children, var, out, plural),
            RPiece::Range(r) => {
                if r.count_var == var {
                    for (specs, _) in &r.branches {
                        for s in specs {
                            out.push((s, r.ty));
                        }
                    }
                }
                for (_, b) in &r.branches {
                    collect_count_specs(b, var, out, plural);
                }
            }
            RPiece::Plural(pl) => {
                if pl.count_var == var {
                    *plural = true;
                }
                for b in pl.forms.values() {
                    collect_count_specs(b, var, out, plural);
                }
            }
            _ => {}
        }
    }
}

