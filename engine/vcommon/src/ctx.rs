//! Run context shared by every check binary: tier / seed handling, case accounting, evidence
//! file, replay files, known findings and the exit-code contract
//!   0 = property held on everything explored (KNOWN-FINDING lines allowed)
//!   1 = at least one `VIOLATION property=<id> replay=<path>` line
//!   2 = harness error / inconclusive (never a violation)

use std::collections::{BTreeMap, HashSet};
use std::io::Write;
use std::path::{Path, PathBuf};
use std::time::Instant;

use proptest::strategy::{Strategy, ValueTree};
use proptest::test_runner::{Config, RngAlgorithm, TestRng, TestRunner};
use serde_json::{json, Value};

use crate::tape::{fnv1a, splitmix, Tape};

pub const VERIF_ROOT: &str = "/verif";

#[derive(Clone, Copy, Debug, PartialEq, Eq)]
pub enum Tier {
    Quick,
    Thorough,
}

impl Tier {
    pub fn name(self) -> &'static str {
        match self {
            Tier::Quick => "quick",
            Tier::Thorough => "thorough",
        }
    }
    /// scale a quick-tier amount of work for the thorough tier
    pub fn scale(self, quick: u32, thorough: u32) -> u32 {
        match self {
            Tier::Quick => quick,
            Tier::Thorough => thorough,
        }
    }
}

#[derive(Clone, Debug)]
pub struct KnownFinding {
    pub property: String,
    pub id: String,
    pub status: String, // "known" | "fixed"
    pub signature: String,
    pub what: String,
}

/// what one generated case reports back
#[derive(Clone, Debug, Default)]
pub struct CaseInfo {
    /// hash of the serialised case (distinctness)
    pub hash: u64,
    pub nontrivial: bool,
    /// class labels for the histogram
    pub classes: Vec<String>,
    /// a printable form of the case, kept for a few of them
    pub sample: Option<Value>,
    /// number of individual observations compared against the oracle in this case
    pub observations: u64,
}

#[derive(Clone, Debug)]
pub struct Failure {
    /// stable signature of what failed (matched against known findings)
    pub signature: String,
    pub detail: Value,
}

pub type CaseResult = Result<CaseInfo, Failure>;

pub struct Ctx {
    pub prop: String,
    pub tier: Tier,
    pub seed: u64,
    pub replay: Option<PathBuf>,
    start: Instant,
    evaluations: u64,
    observations: u64,
    nontrivial: HashSet<u64>,
    distinct: HashSet<u64>,
    classes: BTreeMap<String, u64>,
    samples: Vec<Value>,
    violations: u64,
    known_hits: Vec<String>,
    extra: BTreeMap<String, Value>,
    known: Vec<KnownFinding>,
    exhaustive: Option<bool>,
    harness_errors: Vec<String>,
    max_samples: usize,
    /// upper bound on shrink steps after a failure (lower it for expensive cases)
    pub shrink_iters: u32,
}

fn parse_known() -> Vec<KnownFinding> {
    let path = Path::new(VERIF_ROOT).join("known_findings.json");
    let Ok(txt) = std::fs::read_to_string(&path) else {
        return vec![];
    };
    let v: Value = match serde_json::from_str(&txt) {
        Ok(v) => v,
        Err(e) => {
            eprintln!("harness error: known_findings.json does not parse: {e}");
            std::process::exit(2);
        }
    };
    let mut out = vec![];
    for f in v["findings"].as_array().cloned().unwrap_or_default() {
        out.push(KnownFinding {
            property: f["property"].as_str().unwrap_or("").to_string(),
            id: f["id"].as_str().unwrap_or("").to_string(),
            status: f["status"].as_str().unwrap_or("").to_string(),
            signature: f["signature"].as_str().unwrap_or("").to_string(),
            what: f["what"].as_str().unwrap_or("").to_string(),
        });
    }
    out
}

impl Ctx {
    pub fn from_env(prop: &str) -> Ctx {
        let tier = match std::env::var("VERIF_TIER").ok().as_deref() {
            Some("thorough") => Tier::Thorough,
            _ => Tier::Quick,
        };
        let seed = std::env::var("VERIF_SEED")
            .ok()
            .and_then(|s| s.trim().parse::<i128>().ok())
            .map(|v| v as u64)
            .unwrap_or(0);
        let mut replay = None;
        let mut args = std::env::args().skip(1);
        while let Some(a) = args.next() {
            if a == "--replay" {
                replay = args.next().map(PathBuf::from);
            }
        }
        Ctx {
            prop: prop.to_string(),
            tier,
            seed,
            replay,
            start: Instant::now(),
            evaluations: 0,
            observations: 0,
            nontrivial: HashSet::new(),
            distinct: HashSet::new(),
            classes: BTreeMap::new(),
            samples: vec![],
            violations: 0,
            known_hits: vec![],
            extra: BTreeMap::new(),
            known: parse_known(),
            exhaustive: None,
            harness_errors: vec![],
            max_samples: 6,
            shrink_iters: 3000,
        }
    }

    pub fn known_for(&self, status: &str) -> Vec<KnownFinding> {
        self.known
            .iter()
            .filter(|k| k.property == self.prop && k.status == status)
            .cloned()
            .collect()
    }

    /// is the trigger class `id` listed as a known (unrepaired) finding for this property?
    pub fn is_known(&self, id: &str) -> bool {
        self.known
            .iter()
            .any(|k| k.property == self.prop && k.status == "known" && k.id == id)
    }

    pub fn elapsed(&self) -> f64 {
        self.start.elapsed().as_secs_f64()
    }

    pub fn set_extra(&mut self, key: &str, v: Value) {
        self.extra.insert(key.to_string(), v);
    }

    pub fn add_extra_count(&mut self, key: &str, n: u64) {
        let cur = self.extra.get(key).and_then(|v| v.as_u64()).unwrap_or(0);
        self.extra.insert(key.to_string(), json!(cur + n));
    }

    pub fn set_exhaustive(&mut self, b: bool) {
        self.exhaustive = Some(b);
    }

    pub fn class(&mut self, label: &str) {
        *self.classes.entry(label.to_string()).or_insert(0) += 1;
    }

    pub fn class_count(&self, label: &str) -> u64 {
        self.classes.get(label).copied().unwrap_or(0)
    }

    pub fn evaluations(&self) -> u64 {
        self.evaluations
    }

    pub fn nontrivial_count(&self) -> usize {
        self.nontrivial.len()
    }

    pub fn harness_error(&mut self, msg: String) {
        eprintln!("harness error: {msg}");
        self.harness_errors.push(msg);
    }

    /// account for one case that passed
    pub fn record(&mut self, info: CaseInfo) {
        self.evaluations += 1;
        self.observations += info.observations;
        let fresh = self.distinct.insert(info.hash);
        if info.nontrivial {
            self.nontrivial.insert(info.hash);
        }
        for c in &info.classes {
            *self.classes.entry(c.clone()).or_insert(0) += 1;
        }
        if let Some(s) = info.sample {
            // prefer non-trivial samples; keep the first few distinct ones
            if fresh && self.samples.len() < self.max_samples && (info.nontrivial || self.samples.len() < 2)
            {
                self.samples.push(s);
            }
        }
    }

    /// account for one case that failed. Returns true when it is a new (unlisted) violation.
    pub fn fail(&mut self, engine: &str, tape: Option<&[u32]>, failure: &Failure) -> bool {
        self.evaluations += 1;
        // listed as known (not repaired) => KNOWN-FINDING, exit stays 0
        if let Some(k) = self
            .known
            .iter()
            .find(|k| k.property == self.prop && k.status == "known" && k.signature == failure.signature)
        {
            let line = format!("KNOWN-FINDING: property={} {} [{}]", self.prop, k.what, k.id);
            if !self.known_hits.contains(&line) {
                println!("{line}");
                self.known_hits.push(line);
            }
            return false;
        }
        self.violations += 1;
        let mut body = json!({
            "property": self.prop,
            "engine": engine,
            "signature": failure.signature,
            "detail": failure.detail,
            "seed": self.seed,
            "tier": self.tier.name(),
        });
        if let Some(t) = tape {
            body["tape"] = json!(t);
        }
        // harness builds of another configuration of the library name it, so that `./check --replay` picks them again
        if let Ok(c) = std::env::var("VERIF_CONFIGURATION") {
            body["configuration"] = json!(c);
        }
        let txt = serde_json::to_string_pretty(&body).unwrap();
        let h = fnv1a(txt.as_bytes());
        let dir = Path::new(VERIF_ROOT).join("replays").join(&self.prop);
        let _ = std::fs::create_dir_all(&dir);
        let path = dir.join(format!("{engine}-{h:016x}.json"));
        if let Err(e) = std::fs::write(&path, txt) {
            eprintln!("harness error: cannot write replay file {path:?}: {e}");
        }
        println!("VIOLATION property={} replay={}", self.prop, path.display());
        eprintln!(
            "violation detail ({}): {}",
            failure.signature,
            serde_json::to_string(&failure.detail).unwrap_or_default()
        );
        true
    }

    /// Drive `f` with proptest-generated tapes. Stops at the first failing case, shrinks the tape
    /// and reports it. Returns false if a violation was reported.
    pub fn run_tapes<F>(&mut self, engine: &str, cases: u32, tape_len: usize, f: F) -> bool
    where
        F: Fn(&mut Tape) -> CaseResult,
    {
        let seed = splitmix(self.seed ^ fnv1a(format!("{}/{}", self.prop, engine).as_bytes()));
        let mut seed_bytes = [0u8; 32];
        for i in 0..4 {
            seed_bytes[i * 8..i * 8 + 8].copy_from_slice(&splitmix(seed.wrapping_add(i as u64)).to_le_bytes());
        }
        let config = Config {
            cases,
            failure_persistence: None,
            max_shrink_iters: 3000,
            ..Config::default()
        };
        let rng = TestRng::from_seed(RngAlgorithm::ChaCha, &seed_bytes);
        let mut runner = TestRunner::new_with_rng(config, rng);
        let strat = proptest::collection::vec(proptest::num::u32::ANY, 0..=tape_len);
        let mut ok = true;
        for _ in 0..cases {
            let mut tree = match strat.new_tree(&mut runner) {
                Ok(t) => t,
                Err(e) => {
                    self.harness_error(format!("proptest new_tree: {e}"));
                    return ok;
                }
            };
            let words = tree.current();
            let mut tape = Tape::new(words);
            match f(&mut tape) {
                Ok(info) => self.record(info),
                Err(first) => {
                    // shrink: keep the same signature so that we minimise *this* failure
                    let sig = first.signature.clone();
                    let mut best_words = tree.current();
                    let mut best = first;
                    let mut iters = 0;
                    if tree.simplify() {
                        loop {
                            iters += 1;
                            if iters > self.shrink_iters {
                                break;
                            }
                            let words = tree.current();
                            let mut tape = Tape::new(words.clone());
                            let still = match f(&mut tape) {
                                Err(fl) if fl.signature == sig => Some(fl),
                                _ => None,
                            };
                            match still {
                                Some(fl) => {
                                    best_words = words;
                                    best = fl;
                                    if !tree.simplify() {
                                        break;
                                    }
                                }
                                None => {
                                    if !tree.complicate() {
                                        break;
                                    }
                                }
                            }
                        }
                    }
                    // cut the unused tail of the tape
                    let mut t2 = Tape::new(best_words.clone());
                    let _ = f(&mut t2);
                    let used = t2.consumed().min(best_words.len());
                    best_words.truncate(used);
                    if self.fail(engine, Some(&best_words), &best) {
                        ok = false;
                        return ok;
                    }
                    // known finding: keep exploring
                }
            }
        }
        ok
    }

    /// Draw `n` tapes from the proptest strategy (for engines whose cases are too expensive to be
    /// driven one at a time: generated crates compiled in batches). Shrinking is done by the caller.
    pub fn draw_tapes(&mut self, engine: &str, n: usize, tape_len: usize) -> Vec<Vec<u32>> {
        let seed = splitmix(self.seed ^ fnv1a(format!("{}/{}", self.prop, engine).as_bytes()));
        let mut seed_bytes = [0u8; 32];
        for i in 0..4 {
            seed_bytes[i * 8..i * 8 + 8].copy_from_slice(&splitmix(seed.wrapping_add(i as u64)).to_le_bytes());
        }
        let config = Config {
            cases: n as u32,
            failure_persistence: None,
            ..Config::default()
        };
        let rng = TestRng::from_seed(RngAlgorithm::ChaCha, &seed_bytes);
        let mut runner = TestRunner::new_with_rng(config, rng);
        // generated crates want substantial cases: tapes are at least half of the maximal length
        let strat = proptest::collection::vec(proptest::num::u32::ANY, tape_len / 2..=tape_len);
        let mut out = vec![];
        for _ in 0..n {
            match strat.new_tree(&mut runner) {
                Ok(t) => out.push(t.current()),
                Err(e) => {
                    self.harness_error(format!("proptest new_tree: {e}"));
                    break;
                }
            }
        }
        out
    }

    /// replay a tape stored in a replay file through `f` (no proptest involved)
    pub fn replay_tape<F>(&mut self, engine: &str, path: &Path, f: F) -> bool
    where
        F: Fn(&mut Tape) -> CaseResult,
    {
        let txt = match std::fs::read_to_string(path) {
            Ok(t) => t,
            Err(e) => {
                self.harness_error(format!("cannot read replay {path:?}: {e}"));
                return true;
            }
        };
        let v: Value = match serde_json::from_str(&txt) {
            Ok(v) => v,
            Err(e) => {
                self.harness_error(format!("cannot parse replay {path:?}: {e}"));
                return true;
            }
        };
        let words: Vec<u32> = v["tape"]
            .as_array()
            .map(|a| a.iter().map(|x| x.as_u64().unwrap_or(0) as u32).collect())
            .unwrap_or_default();
        let mut tape = Tape::new(words.clone());
        match f(&mut tape) {
            Ok(info) => {
                self.record(info);
                true
            }
            Err(fl) => !self.fail(engine, Some(&words), &fl),
        }
    }

    pub fn replay_engine(path: &Path) -> Option<String> {
        let txt = std::fs::read_to_string(path).ok()?;
        let v: Value = serde_json::from_str(&txt).ok()?;
        v["engine"].as_str().map(|s| s.to_string())
    }

    /// write the evidence file and exit with the contract's status
    pub fn finish(mut self, rule: &str, assumptions: &[&str], min_nontrivial: usize) -> ! {
        let wall = self.elapsed();
        let mut coverage = serde_json::Map::new();
        coverage.insert("evaluations".into(), json!(self.evaluations));
        coverage.insert("distinct_nontrivial".into(), json!(self.nontrivial.len()));
        coverage.insert("distinct_cases".into(), json!(self.distinct.len()));
        coverage.insert("observations_compared".into(), json!(self.observations));
        coverage.insert("rule".into(), json!(rule));
        coverage.insert("samples".into(), json!(self.samples));
        coverage.insert("classes".into(), json!(self.classes));
        if let Some(e) = self.exhaustive {
            coverage.insert("exhaustive".into(), json!(e));
        }
        coverage.insert("known_findings_reported".into(), json!(self.known_hits));
        for (k, v) in std::mem::take(&mut self.extra) {
            coverage.insert(k, v);
        }
        let ev = json!({
            "property_id": self.prop,
            "tier": self.tier.name(),
            "seed": (self.seed as i64),
            "level": "exploration",
            "coverage": Value::Object(coverage),
            "assumptions": assumptions,
            "wall_s": (wall * 1000.0).round() / 1000.0,
            "violations": self.violations,
        });
        let ev = if std::env::var("VERIF_STAGE").ok().as_deref() == Some("2") && self.replay.is_none() {
            merge_stage(&self.prop, ev)
        } else {
            ev
        };
        if self.replay.is_none() {
            // VERIF_EVIDENCE_DIR: scratch location for runs that are not the registered check
            // (mutant runs, seed sweeps), so that they do not overwrite the real evidence
            let dir = std::env::var("VERIF_EVIDENCE_DIR").map(PathBuf::from).unwrap_or_else(|_| Path::new(VERIF_ROOT).join("evidence"));
            let _ = std::fs::create_dir_all(&dir);
            let path = dir.join(format!("{}.json", self.prop));
            let tmp = dir.join(format!(".{}.json.tmp", self.prop));
            let res = std::fs::File::create(&tmp)
                .and_then(|mut f| f.write_all(serde_json::to_string_pretty(&ev).unwrap().as_bytes()))
                .and_then(|_| std::fs::rename(&tmp, &path));
            if let Err(e) = res {
                eprintln!("harness error: cannot write evidence: {e}");
                std::process::exit(2);
            }
        }
        eprintln!(
            "[{}] tier={} seed={} evaluations={} distinct_nontrivial={} observations={} violations={} wall={:.1}s",
            self.prop,
            self.tier.name(),
            self.seed,
            self.evaluations,
            self.nontrivial.len(),
            self.observations,
            self.violations,
            wall
        );
        if self.violations > 0 {
            std::process::exit(1);
        }
        if !self.harness_errors.is_empty() {
            std::process::exit(2);
        }
        if self.replay.is_none() && self.nontrivial.len() < min_nontrivial {
            eprintln!(
                "harness error: only {} distinct non-trivial cases (< {}): the generator is not reaching the interesting classes",
                self.nontrivial.len(),
                min_nontrivial
            );
            std::process::exit(2);
        }
        std::process::exit(0);
    }
}

/// second stage of a two-stage check (parser level, then generated crates): fold the evidence the
/// first stage wrote for the same property into this stage's evidence
fn merge_stage(prop: &str, mut ev: Value) -> Value {
    let dir = std::env::var("VERIF_EVIDENCE_DIR").map(PathBuf::from).unwrap_or_else(|_| Path::new(VERIF_ROOT).join("evidence"));
    let path = dir.join(format!("{prop}.json"));
    let Ok(txt) = std::fs::read_to_string(&path) else { return ev };
    let Ok(prev) = serde_json::from_str::<Value>(&txt) else { return ev };
    if prev["tier"] != ev["tier"] || prev["seed"] != ev["seed"] {
        return ev;
    }
    let sum = |a: &Value, b: &Value| json!(a.as_u64().unwrap_or(0) + b.as_u64().unwrap_or(0));
    let pc = prev["coverage"].clone();
    let cc = ev["coverage"].clone();
    let mut cov = serde_json::Map::new();
    for k in ["evaluations", "distinct_nontrivial", "distinct_cases", "observations_compared"] {
        cov.insert(k.into(), sum(&pc[k], &cc[k]));
    }
    // a third or later stage appends to the rule text the earlier stages already folded
    let label = std::env::var("VERIF_STAGE_LABEL").unwrap_or_else(|_| "generated crates".to_string());
    let prev_rule = pc["rule"].as_str().unwrap_or("");
    let rule = if prev_rule.starts_with("STAGE 1") {
        let n = prev_rule.matches("|| STAGE ").count() + 2;
        format!("{} || STAGE {} ({}): {}", prev_rule, n, label, cc["rule"].as_str().unwrap_or(""))
    } else {
        format!("STAGE 1 (parser level): {} || STAGE 2 ({}): {}", prev_rule, label, cc["rule"].as_str().unwrap_or(""))
    };
    cov.insert("rule".into(), json!(rule));
    let mut samples: Vec<Value> = pc["samples"].as_array().cloned().unwrap_or_default();
    samples.truncate(3);
    samples.extend(cc["samples"].as_array().cloned().unwrap_or_default().into_iter().take(3));
    cov.insert("samples".into(), json!(samples));
    if let Some(e) = pc.get("exhaustive") {
        cov.insert("exhaustive".into(), e.clone());
    }
    cov.insert("stage1".into(), pc);
    cov.insert("stage2".into(), cc);
    ev["coverage"] = Value::Object(cov);
    ev["wall_s"] = json!(prev["wall_s"].as_f64().unwrap_or(0.0) + ev["wall_s"].as_f64().unwrap_or(0.0));
    ev["violations"] = sum(&prev["violations"], &ev["violations"]);
    let mut assumptions: Vec<Value> = prev["assumptions"].as_array().cloned().unwrap_or_default();
    for a in ev["assumptions"].as_array().cloned().unwrap_or_default() {
        if !assumptions.contains(&a) {
            assumptions.push(a);
        }
    }
    ev["assumptions"] = json!(assumptions);
    ev
}

pub fn hash_str(s: &str) -> u64 {
    fnv1a(s.as_bytes())
}
