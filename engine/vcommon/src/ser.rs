//! Printing the abstract project as files. The printer is a pure function of (Project, Style).

use std::fmt::Write as _;
use std::path::Path;

use crate::model::*;
use crate::tape::{fnv1a, splitmix};

#[derive(Clone, Copy, Debug, PartialEq, Eq)]
pub enum Format {
    Json,
    Json5,
    Yaml,
}

impl Format {
    pub fn ext(self) -> &'static str {
        match self {
            Format::Json => "json",
            Format::Json5 => "json5",
            Format::Yaml => "yaml",
        }
    }
}

#[derive(Clone, Copy, Debug)]
pub struct Style {
    pub format: Format,
    /// seed for per-string spelling choices (escape spelling, indentation)
    pub seed: u64,
    /// 0 = plain minimal escapes only, 1 = mixed spellings allowed
    pub escapes: u8,
}

impl Style {
    pub fn plain(format: Format) -> Style {
        Style {
            format,
            seed: 0,
            escapes: 0,
        }
    }
}

// ------------------------------------------------------------------------------------------
// translation-string spelling (pieces -> the string value stored in the file)

pub fn fmt_num(n: Num, ty: RangeTy) -> String {
    match n {
        Num::Int(i) => i.to_string(),
        Num::Float(f) => fmt_float(f, ty),
    }
}

/// decimal spelling that `str::parse::<f32/f64>` maps back to exactly `f`
pub fn fmt_float(f: f64, ty: RangeTy) -> String {
    if ty == RangeTy::F32 {
        let x = f as f32;
        let s = format!("{}", x);
        s
    } else {
        format!("{}", f)
    }
}

pub fn count_spec_to_string(spec: &CountSpec, ty: RangeTy, ws: u8) -> String {
    let sp = |i: u8| if (ws >> i) & 1 == 1 { " " } else { "" };
    match spec {
        CountSpec::Exact { v, .. } => format!("{}{}{}", sp(0), fmt_num(*v, ty), sp(1)),
        CountSpec::Bounds { start, end } => {
            let mut s = String::new();
            s.push_str(sp(0));
            if let Some(st) = start {
                s.push_str(&fmt_num(*st, ty));
                s.push_str(sp(2));
            }
            s.push_str("..");
            if let Some((e, incl)) = end {
                if *incl {
                    s.push('=');
                    s.push_str(sp(3));
                } else {
                    s.push_str(sp(2));
                }
                s.push_str(&fmt_num(*e, ty));
            }
            s.push_str(sp(1));
            s
        }
    }
}

pub fn pieces_to_string(pieces: &[Piece]) -> String {
    let mut s = String::new();
    for p in pieces {
        piece_to_string(p, &mut s);
    }
    s
}

fn piece_to_string(p: &Piece, s: &mut String) {
    match p {
        Piece::Text(t) => s.push_str(t),
        Piece::Var { name, ws, fmt } => {
            s.push_str("{{");
            s.push_str(&ws[0]);
            s.push_str(name);
            if let Some(f) = fmt {
                s.push(',');
                s.push_str(&f.text);
            }
            s.push_str(&ws[1]);
            s.push_str("}}");
        }
        Piece::Comp { name, ws, children } => {
            s.push('<');
            s.push_str(&ws[0]);
            s.push_str(name);
            s.push_str(&ws[1]);
            s.push('>');
            for c in children {
                piece_to_string(c, s);
            }
            s.push_str("</");
            s.push_str(&ws[2]);
            s.push_str(name);
            s.push_str(&ws[3]);
            s.push('>');
        }
        Piece::Fk(fk) => {
            s.push_str("$t(");
            s.push_str(&fk.ws[0]);
            if let Some(ns) = &fk.ns {
                s.push_str(ns);
                s.push(':');
            }
            s.push_str(&fk.path.join("."));
            s.push_str(&fk.ws[1]);
            if !fk.args.is_empty() {
                s.push(',');
                s.push_str(&fk.ws[2]);
                s.push('{');
                for (i, (name, arg)) in fk.args.iter().enumerate() {
                    if i > 0 {
                        s.push_str(", ");
                    }
                    json_string_plain(name, s);
                    s.push_str(": ");
                    match arg {
                        Arg::Str(p) => json_string_plain(&pieces_to_string(p), s),
                        Arg::U(v) => {
                            let _ = write!(s, "{}", v);
                        }
                        Arg::I(v) => {
                            let _ = write!(s, "{}", v);
                        }
                        Arg::F(v) => s.push_str(&json_f64(*v)),
                        Arg::B(v) => {
                            let _ = write!(s, "{}", v);
                        }
                    }
                }
                s.push('}');
                s.push_str(&fk.ws[3]);
            }
            s.push(')');
        }
    }
}

/// JSON number spelling of a finite f64 that reads back as the same f64 and stays a float
pub fn json_f64(v: f64) -> String {
    let s = format!("{:?}", v);
    // Rust prints 1e21 as "1e21" (valid JSON) and 1.0 as "1.0"
    s
}

/// minimal JSON string escaping (used for `$t` argument objects, which serde_json reads)
pub fn json_string_plain(t: &str, out: &mut String) {
    out.push('"');
    for c in t.chars() {
        match c {
            '"' => out.push_str("\\\""),
            '\\' => out.push_str("\\\\"),
            '\n' => out.push_str("\\n"),
            '\r' => out.push_str("\\r"),
            '\t' => out.push_str("\\t"),
            c if (c as u32) < 0x20 => {
                let _ = write!(out, "\\u{:04x}", c as u32);
            }
            c => out.push(c),
        }
    }
    out.push('"');
}

// ------------------------------------------------------------------------------------------
// file-level value tree (after flattening plural groups and ranges), printed per format

#[derive(Clone, Debug, PartialEq)]
pub enum FileVal {
    Null,
    Bool(bool),
    U(u64),
    I(i64),
    F(f64),
    Str(String),
    Seq(Vec<FileVal>),
    Map(Vec<(String, FileVal)>),
}

fn num_to_fileval(n: Num) -> FileVal {
    match n {
        Num::Int(i) => {
            if i >= 0 {
                FileVal::U(i as u64)
            } else {
                FileVal::I(i as i64)
            }
        }
        Num::Float(f) => FileVal::F(f),
    }
}

pub fn range_to_fileval(r: &RangeDecl) -> FileVal {
    let mut seq = vec![];
    if r.ty_written {
        seq.push(FileVal::Str(r.ty.name().to_string()));
    }
    for b in &r.branches {
        let body = FileVal::Str(pieces_to_string(&b.body));
        if b.specs.is_empty() {
            seq.push(match b.fallback_spelling {
                0 => FileVal::Seq(vec![body]),
                1 => FileVal::Seq(vec![body, FileVal::Str("_".into())]),
                2 => FileVal::Seq(vec![body, FileVal::Str("..".into())]),
                _ => FileVal::Map(vec![("value".into(), body)]),
            });
            continue;
        }
        let spec_val = |s: &CountSpec, i: usize| -> FileVal {
            match s {
                CountSpec::Exact { v, as_number: true } => num_to_fileval(*v),
                _ => FileVal::Str(count_spec_to_string(s, r.ty, b.ws.rotate_left(i as u32))),
            }
        };
        match b.syntax {
            0 => {
                let mut v = vec![body];
                for (i, s) in b.specs.iter().enumerate() {
                    v.push(spec_val(s, i));
                }
                seq.push(FileVal::Seq(v));
            }
            1 => {
                let count = if b.specs.len() == 1 {
                    spec_val(&b.specs[0], 0)
                } else {
                    FileVal::Seq(b.specs.iter().enumerate().map(|(i, s)| spec_val(s, i)).collect())
                };
                // key order of the two fields varies with ws
                if b.ws & 1 == 0 {
                    seq.push(FileVal::Map(vec![("count".into(), count), ("value".into(), body)]));
                } else {
                    seq.push(FileVal::Map(vec![("value".into(), body), ("count".into(), count)]));
                }
            }
            _ => {
                let joined = b
                    .specs
                    .iter()
                    .enumerate()
                    .map(|(i, s)| count_spec_to_string(s, r.ty, b.ws.rotate_left(i as u32)))
                    .collect::<Vec<_>>()
                    .join("|");
                seq.push(FileVal::Seq(vec![body, FileVal::Str(joined)]));
            }
        }
    }
    FileVal::Seq(seq)
}

pub fn plural_key(base: &str, ordinal: bool, form: Form) -> String {
    if ordinal {
        format!("{}_ordinal_{}", base, form.suffix())
    } else {
        format!("{}_{}", base, form.suffix())
    }
}

pub fn obj_to_fileval(obj: &Obj) -> FileVal {
    let mut out = vec![];
    for (k, v) in obj {
        match v {
            Value::Null => out.push((k.clone(), FileVal::Null)),
            Value::Bool(b) => out.push((k.clone(), FileVal::Bool(*b))),
            Value::U(u) => out.push((k.clone(), FileVal::U(*u))),
            Value::I(i) => out.push((k.clone(), FileVal::I(*i))),
            Value::F(f) => out.push((k.clone(), FileVal::F(*f))),
            Value::Str(p) => out.push((k.clone(), FileVal::Str(pieces_to_string(p)))),
            Value::Range(r) => out.push((k.clone(), range_to_fileval(r))),
            Value::Plural(pl) => {
                for (form, body) in &pl.forms {
                    out.push((plural_key(k, pl.ordinal, *form), FileVal::Str(pieces_to_string(body))));
                }
            }
            Value::Sub(o) => out.push((k.clone(), obj_to_fileval(o))),
        }
    }
    FileVal::Map(out)
}

/// permute the entries of every map with `perm_seed` (0 = keep order)
pub fn permute_fileval(v: &FileVal, perm_seed: u64) -> FileVal {
    match v {
        FileVal::Map(entries) => {
            let mut e: Vec<(String, FileVal)> = entries
                .iter()
                .map(|(k, v)| (k.clone(), permute_fileval(v, perm_seed)))
                .collect();
            if perm_seed != 0 {
                e.sort_by_key(|(k, _)| splitmix(fnv1a(k.as_bytes()) ^ perm_seed));
            }
            FileVal::Map(e)
        }
        // range sequences are ordered data, only the {"count","value"} maps inside are permuted
        FileVal::Seq(items) => FileVal::Seq(items.iter().map(|i| permute_fileval(i, perm_seed)).collect()),
        other => other.clone(),
    }
}

fn json_string_styled(t: &str, style: &Style, out: &mut String) {
    if style.escapes == 0 {
        json_string_plain(t, out);
        return;
    }
    let h = splitmix(fnv1a(t.as_bytes()) ^ style.seed);
    let mode = h % 4;
    out.push('"');
    for (i, c) in t.chars().enumerate() {
        let r = splitmix(h ^ (i as u64)) % 8;
        match c {
            '"' => out.push_str("\\\""),
            '\\' => out.push_str("\\\\"),
            '\n' => out.push_str("\\n"),
            '\r' => out.push_str("\\r"),
            '\t' => out.push_str(if r < 4 { "\\t" } else { "\\u0009" }),
            '/' if mode == 1 && style.format == Format::Json => out.push_str("\\/"),
            c if (c as u32) < 0x20 => {
                let _ = write!(out, "\\u{:04x}", c as u32);
            }
            '\u{2028}' | '\u{2029}' => {
                // JSON5 does not allow raw line separators in strings
                let _ = write!(out, "\\u{:04x}", c as u32);
            }
            c if !c.is_ascii() && (mode == 2 || (mode == 3 && r < 3)) => {
                let mut buf = [0u16; 2];
                for u in c.encode_utf16(&mut buf) {
                    let _ = write!(out, "\\u{:04X}", u);
                }
            }
            c => out.push(c),
        }
    }
    out.push('"');
}

fn write_json(v: &FileVal, style: &Style, indent: usize, out: &mut String) {
    let pretty = style.seed % 3 != 1;
    let nl = |out: &mut String, ind: usize| {
        if pretty {
            out.push('\n');
            for _ in 0..ind {
                out.push_str("  ");
            }
        }
    };
    match v {
        FileVal::Null => out.push_str("null"),
        FileVal::Bool(b) => {
            let _ = write!(out, "{}", b);
        }
        FileVal::U(u) => {
            let _ = write!(out, "{}", u);
        }
        FileVal::I(i) => {
            let _ = write!(out, "{}", i);
        }
        FileVal::F(f) => out.push_str(&json_f64(*f)),
        FileVal::Str(s) => json_string_styled(s, style, out),
        FileVal::Seq(items) => {
            out.push('[');
            for (i, it) in items.iter().enumerate() {
                if i > 0 {
                    out.push_str(if pretty { ", " } else { "," });
                }
                write_json(it, style, indent + 1, out);
            }
            out.push(']');
        }
        FileVal::Map(entries) => {
            out.push('{');
            for (i, (k, val)) in entries.iter().enumerate() {
                if i > 0 {
                    out.push(',');
                }
                nl(out, indent + 1);
                if style.format == Format::Json5 && splitmix(fnv1a(k.as_bytes()) ^ style.seed) % 3 == 0 && is_plain_ident(k) {
                    out.push_str(k); // JSON5 unquoted key
                } else {
                    json_string_styled(k, style, out);
                }
                out.push_str(if pretty { ": " } else { ":" });
                write_json(val, style, indent + 1, out);
            }
            if !entries.is_empty() {
                if style.format == Format::Json5 && style.seed % 2 == 1 {
                    out.push(','); // trailing comma
                }
                nl(out, indent);
            }
            out.push('}');
        }
    }
}

fn is_plain_ident(k: &str) -> bool {
    let mut ch = k.chars();
    matches!(ch.next(), Some(c) if c.is_ascii_alphabetic() || c == '_')
        && ch.all(|c| c.is_ascii_alphanumeric() || c == '_')
}

/// YAML: block mappings, flow sequences, double-quoted scalars (YAML double-quoted escapes are a
/// superset of JSON's for the characters we emit)
fn write_yaml(v: &FileVal, style: &Style, indent: usize, out: &mut String) {
    match v {
        FileVal::Map(entries) => {
            if entries.is_empty() {
                out.push_str("{}");
                return;
            }
            for (i, (k, val)) in entries.iter().enumerate() {
                if i > 0 || indent > 0 {
                    out.push('\n');
                }
                for _ in 0..indent {
                    out.push_str("  ");
                }
                yaml_scalar_str(k, style, out, true);
                out.push(':');
                match val {
                    FileVal::Map(e) if !e.is_empty() => write_yaml(val, style, indent + 1, out),
                    _ => {
                        out.push(' ');
                        write_yaml_flow(val, style, out);
                    }
                }
            }
        }
        other => write_yaml_flow(other, style, out),
    }
}

fn yaml_scalar_str(s: &str, _style: &Style, out: &mut String, key: bool) {
    if key && is_plain_ident(s) && !matches!(s, "null" | "true" | "false" | "yes" | "no" | "on" | "off" | "y" | "n") {
        out.push_str(s);
        return;
    }
    out.push('"');
    for c in s.chars() {
        match c {
            '"' => out.push_str("\\\""),
            '\\' => out.push_str("\\\\"),
            '\n' => out.push_str("\\n"),
            '\r' => out.push_str("\\r"),
            '\t' => out.push_str("\\t"),
            c if (c as u32) < 0x20 || c == '\u{7f}' => {
                let _ = write!(out, "\\x{:02x}", c as u32);
            }
            '\u{85}' | '\u{a0}' | '\u{2028}' | '\u{2029}' | '\u{feff}' => {
                let _ = write!(out, "\\u{:04x}", c as u32);
            }
            c => out.push(c),
        }
    }
    out.push('"');
}

fn write_yaml_flow(v: &FileVal, style: &Style, out: &mut String) {
    match v {
        FileVal::Null => out.push_str("null"),
        FileVal::Bool(b) => {
            let _ = write!(out, "{}", b);
        }
        FileVal::U(u) => {
            let _ = write!(out, "{}", u);
        }
        FileVal::I(i) => {
            let _ = write!(out, "{}", i);
        }
        FileVal::F(f) => out.push_str(&json_f64(*f)),
        FileVal::Str(s) => yaml_scalar_str(s, style, out, false),
        FileVal::Seq(items) => {
            out.push('[');
            for (i, it) in items.iter().enumerate() {
                if i > 0 {
                    out.push_str(", ");
                }
                write_yaml_flow(it, style, out);
            }
            out.push(']');
        }
        FileVal::Map(entries) => {
            out.push('{');
            for (i, (k, val)) in entries.iter().enumerate() {
                if i > 0 {
                    out.push_str(", ");
                }
                yaml_scalar_str(k, style, out, false);
                out.push_str(": ");
                write_yaml_flow(val, style, out);
            }
            out.push('}');
        }
    }
}

pub fn fileval_to_text(v: &FileVal, style: &Style) -> String {
    let mut out = String::new();
    match style.format {
        Format::Json | Format::Json5 => write_json(v, style, 0, &mut out),
        Format::Yaml => {
            write_yaml(v, style, 0, &mut out);
            out.push('\n');
        }
    }
    out
}

pub fn obj_to_text(obj: &Obj, style: &Style) -> String {
    fileval_to_text(&obj_to_fileval(obj), style)
}

// ------------------------------------------------------------------------------------------
// Cargo.toml + directory layout

pub fn toml_str(s: &str) -> String {
    let mut out = String::new();
    json_string_plain(s, &mut out);
    out
}

pub fn manifest_text(p: &Project, default_listed: bool) -> String {
    let mut s = String::new();
    s.push_str("[package]\nname = \"generated\"\nversion = \"0.1.0\"\nedition = \"2021\"\n\n");
    s.push_str("[package.metadata.leptos-i18n]\n");
    let _ = writeln!(s, "default = {}", toml_str(p.default_locale()));
    let listed: Vec<String> = p
        .locales
        .iter()
        .enumerate()
        .filter(|(i, _)| *i != 0 || default_listed)
        .map(|(_, l)| toml_str(l))
        .collect();
    let _ = writeln!(s, "locales = [{}]", listed.join(", "));
    if let Some(ns) = &p.namespaces {
        let v: Vec<String> = ns.iter().map(|n| toml_str(n)).collect();
        let _ = writeln!(s, "namespaces = [{}]", v.join(", "));
    }
    if p.locales_dir != "locales" {
        let _ = writeln!(s, "locales-dir = {}", toml_str(&p.locales_dir));
    }
    if !p.inherits.is_empty() {
        let v: Vec<String> = p
            .inherits
            .iter()
            .map(|(k, v)| format!("{} = {}", toml_str(k), toml_str(v)))
            .collect();
        let _ = writeln!(s, "inherits = {{ {} }}", v.join(", "));
    }
    s
}

/// per-file permutation seeds: `perm(ns, locale)`; 0 keeps the written order
pub fn write_project_with(
    p: &Project,
    dir: &Path,
    style: &Style,
    manifest: &str,
    perm: &dyn Fn(Option<&str>, &str) -> u64,
) -> std::io::Result<()> {
    if dir.exists() {
        std::fs::remove_dir_all(dir)?;
    }
    std::fs::create_dir_all(dir)?;
    std::fs::write(dir.join("Cargo.toml"), manifest)?;
    let ldir = dir.join(&p.locales_dir);
    std::fs::create_dir_all(&ldir)?;
    for ((ns, loc), obj) in &p.files {
        let fv = permute_fileval(&obj_to_fileval(obj), perm(ns.as_deref(), loc));
        let text = fileval_to_text(&fv, style);
        let path = match ns {
            None => ldir.join(format!("{}.{}", loc, style.format.ext())),
            Some(ns) => {
                let d = ldir.join(loc);
                std::fs::create_dir_all(&d)?;
                d.join(format!("{}.{}", ns, style.format.ext()))
            }
        };
        std::fs::write(path, text)?;
    }
    Ok(())
}

pub fn write_project(p: &Project, dir: &Path, style: &Style) -> std::io::Result<()> {
    write_project_with(p, dir, style, &manifest_text(p, true), &|_, _| 0)
}

/// printable form of a project for evidence samples / replay files
pub fn project_to_json(p: &Project) -> serde_json::Value {
    let mut files = serde_json::Map::new();
    for ((ns, loc), obj) in &p.files {
        let name = match ns {
            None => loc.clone(),
            Some(ns) => format!("{}/{}", loc, ns),
        };
        let txt = obj_to_text(obj, &Style::plain(Format::Json));
        let v: serde_json::Value = serde_json::from_str(&txt).unwrap_or(serde_json::Value::String(txt));
        files.insert(name, v);
    }
    serde_json::json!({
        "locales": p.locales,
        "inherits": p.inherits,
        "namespaces": p.namespaces,
        "locales_dir": p.locales_dir,
        "files": files,
    })
}
