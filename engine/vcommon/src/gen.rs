//! Tape-driven generators for abstract projects. All randomness comes from the `Tape`.
//! Index 0 of every choice is the simplest alternative (shrinking target).

use std::collections::BTreeMap;

use crate::model::*;
use crate::tape::Tape;

pub const LOCALE_POOL: &[&str] = &[
    "en", "fr", "de", "es", "it", "ru", "pl", "ar", "ja", "he", "cy", "lt", "ga", "sl", "pt", "pt-PT", "en-US", "en-GB",
    "fr-CA", "zh",
];

pub const KEY_POOL: &[&str] = &[
    "k0", "k1", "k2", "k3", "title", "hello_world", "click_count", "a1", "zz_top", "msg", "b_key", "mid", "x9", "label",
    "greeting", "alpha", "beta", "gamma", "note", "intro", "footer", "k10", "k11", "k12", "aa", "ab", "zeta", "omega",
    "item", "entry", "heading", "caption", "m1", "m2", "m3", "q1", "q2", "q3", "r_a", "r_b", "s_a", "s_b", "t_a", "t_b",
    "u_a", "u_b", "v_a", "v_b", "w_a", "w_b", "k20", "k21", "k22", "k23", "k24", "k25", "k26", "k27", "k28", "k29",
];

pub const VAR_POOL: &[&str] = &["x", "name", "val", "user", "y", "n", "who", "what"];
pub const COMP_POOL: &[&str] = &["b", "i", "a", "em", "p", "span"];
pub const NS_POOL: &[&str] = &["common", "home", "ns1", "ns2"];

const WS_POOL: &[&str] = &["", " ", "  ", "\t", "\n", " \t "];

#[derive(Clone, Debug)]
pub struct GenCfg {
    pub locales: (usize, usize),
    pub locale_pool: &'static [&'static str],
    /// probability (percent) of a namespaced project
    pub p_namespaces: u32,
    pub keys: (usize, usize),
    pub sub_depth: usize,
    /// weights: plain string, interpolated string, literal (number/bool), range, plural, subkeys, foreign key
    pub w_kinds: [u32; 7],
    /// percent: a non-default locale writes `null` / omits a key / uses another kind
    pub p_null: u32,
    pub p_absent: u32,
    pub p_kind_varies: u32,
    /// percent: a non-default locale gets an `inherits` entry
    pub p_inherits: u32,
    pub unicode: bool,
    /// one text in twelve holds a lone `<` that opens no tag (`1 < 5`): it is text, and a real tag may follow it
    pub stray_lt: bool,
    /// every project gets a top-level literal key whose float has 17 significant digits (D24: read one ULP off by a
    /// JSON parser that does not round-trip)
    pub precise_float_key: bool,
    pub formatters: bool,
    /// percent of variables that carry a formatter (when `formatters`)
    pub p_formatter: u32,
    /// prefix every literal text with a unique tag
    pub tags: bool,
    pub max_pieces: usize,
    /// lower bound on the number of pieces of a rich string (default 1)
    pub min_pieces: usize,
    pub max_comp_depth: usize,
    /// allow foreign keys whose target is `null` in that locale
    pub fk_to_null: bool,
    /// allow `$t` chains (a reference whose target itself contains references)
    pub fk_chains: bool,
    /// allow arguments on a reference whose target contains references (D3 trigger class)
    pub fk_args_through_chain: bool,
    /// write some references inside plural forms / range branches
    pub fk_in_plural_or_range: bool,
    /// allow whitespace before `>` in closing tags (D1 trigger class)
    pub ws_in_closing_tag: bool,
    /// plural-capable locales only (have hand-transcribed rules)
    pub plural_locales_only: bool,
    /// surplus keys in non-default locales (percent per locale)
    pub p_surplus: u32,
    /// percent: allow a key's count variable to be typed differently in another locale (an error)
    pub p_count_conflict: u32,
    /// percent: a reference prefers a range / plural target when one exists
    pub p_fk_counted: u32,
    /// percent: the count variable passed to a referenced range / plural is shown again after the reference
    pub p_count_reuse: u32,
    /// percent: a range / plural declaration never shows its count in its arms
    pub p_hide_count: u32,
    /// when > 0: a reference key concatenates this many (up to +4) references (long substituted values)
    pub fk_refs_min: usize,
    /// never write `time_length: full | long` (known finding D23: those lengths panic at run time)
    pub fmt_no_zoned_time: bool,
    /// some variables are named with a `-` (`first-name`): parser-level checks only (the generated-crate tier
    /// writes variable names as Rust identifiers)
    pub hyphen_vars: bool,
    /// one namespace in three writes its key names with `-` where the pool has `_` (`hello-world`): parser-level
    /// checks only. Names that differ only by `-` / `_` then occur in different namespaces and in successive projects
    pub hyphen_keys: bool,
}

impl Default for GenCfg {
    fn default() -> Self {
        GenCfg {
            locales: (1, 4),
            locale_pool: LOCALE_POOL,
            p_namespaces: 25,
            keys: (1, 12),
            sub_depth: 2,
            w_kinds: [3, 6, 2, 1, 1, 2, 1],
            p_null: 6,
            p_absent: 6,
            p_kind_varies: 10,
            p_inherits: 30,
            unicode: true,
            stray_lt: false,
            precise_float_key: false,
            formatters: false,
            p_formatter: 25,
            tags: true,
            max_pieces: 8,
            min_pieces: 1,
            max_comp_depth: 4,
            fk_to_null: false,
            fk_chains: true,
            fk_args_through_chain: true,
            fk_in_plural_or_range: true,
            ws_in_closing_tag: true,
            plural_locales_only: true,
            p_surplus: 0,
            p_count_conflict: 0,
            p_fk_counted: 33,
            p_count_reuse: 50,
            p_hide_count: 33,
            fk_refs_min: 0,
            fmt_no_zoned_time: false,
            hyphen_vars: false,
            hyphen_keys: false,
        }
    }
}

pub struct Gen<'t> {
    pub t: &'t mut Tape,
    pub cfg: GenCfg,
    tag_counter: u32,
}

const ASCII_WORDS: &[&str] = &[
    "hello", "world", "item", "items", "you", "clicked", "times", " ", ", ", ".", "!", "?", "a", "the", "of", ":", ";",
    "'", "\"", "\\", "/", "(", ")", "|", "$", "&", "#", "@", "%", "*", "+", "=", "-", "_", "~", "[", "]", "0", "42",
    "  ", "\n", "\t", "$t", "t(", "&amp;", "&lt;", "</", "..", "=>",
];

const UNI_WORDS: &[&str] = &[
    "é", "ü", "ß", "漢字", "😀", "\u{a0}", "\u{202f}", "\u{200d}", "e\u{301}", "שלום", "مرحبا", "\u{2028}", "Ω", "ı", "ǅ",
    "\u{feff}", "👩\u{200d}👩\u{200d}👧", "\u{3000}", "\u{85}", "\u{1}", "\u{7f}", "ﬁ",
];

impl<'t> Gen<'t> {
    pub fn new(t: &'t mut Tape, cfg: GenCfg) -> Self {
        Gen { t, cfg, tag_counter: 0 }
    }

    pub fn ws(&mut self) -> String {
        // most of the time a single space or nothing
        let i = self.t.weighted(&[5, 5, 1, 1, 1, 1]);
        WS_POOL[i].to_string()
    }

    /// whitespace directly inside `{{ }}` / `< >`: one time in eight (unicode configurations) a character that is
    /// white space for Unicode but not for ASCII (the library trims names with `str::trim`)
    pub fn ws_inner(&mut self) -> String {
        if self.cfg.unicode && self.t.chance(1, 8) {
            const UNI_WS: &[&str] = &["\u{a0}", "\u{3000}", "\u{2003}", "\u{85}", "\u{b}", " \u{a0}", "\u{2028}\t"];
            return UNI_WS[self.t.pick(UNI_WS.len())].to_string();
        }
        self.ws()
    }

    pub fn text(&mut self, tag: &str) -> String {
        let mut s = String::new();
        if self.cfg.tags && !tag.is_empty() {
            self.tag_counter += 1;
            s.push_str(&format!("[{}#{}]", tag, self.tag_counter));
        }
        let n = self.t.range(if s.is_empty() { 1 } else { 0 }, 5);
        for _ in 0..n {
            if self.cfg.unicode && self.t.chance(1, 4) {
                s.push_str(*self.t.choose(UNI_WORDS));
            } else {
                s.push_str(*self.t.choose(ASCII_WORDS));
            }
        }
        let mut s = sanitize_text(&s);
        if self.cfg.stray_lt && self.t.chance(1, 12) {
            // U+E020 stands for the `<` until the last sanitising pass of `pieces` is over
            match self.t.pick(3) {
                0 => s.push_str(" \u{E020} 5 "),
                1 => s.insert_str(0, "1 \u{E020} 2 "),
                _ => s.push('\u{E020}'),
            }
        }
        s
    }

    pub fn var_piece(&mut self, name: &str) -> Piece {
        Piece::Var {
            name: name.to_string(),
            ws: [self.ws_inner(), self.ws_inner()],
            fmt: None,
        }
    }

    /// a variable that may carry a formatter (only when the configuration allows formatters)
    pub fn var_piece_fmt(&mut self, name: &str) -> Piece {
        let fmt = if self.cfg.formatters && (self.t.pick(100) as u32) < self.cfg.p_formatter {
            Some(self.fmt_spec())
        } else {
            None
        };
        // one input type per variable name keeps the generated accessors type-correct; `number` and `currency`
        // take the same input, so one variable may carry both
        Piece::Var {
            name: match &fmt {
                Some(f) if f.name == "number" || f.name == "currency" => format!("{}_num", name),
                Some(f) => format!("{}_{}", name, f.name),
                None => name.to_string(),
            },
            ws: [self.ws_inner(), if fmt.is_some() { self.ws() } else { self.ws_inner() }],
            fmt,
        }
    }

    pub fn fmt_spec(&mut self) -> FmtSpec {
        const SPECS: &[(&str, &[(&str, &[&str])])] = &[
            ("number", &[("grouping_strategy", &["auto", "never", "always", "min2"])]),
            ("date", &[("date_length", &["full", "long", "medium", "short"])]),
            ("time", &[("time_length", &["full", "long", "medium", "short"])]),
            ("datetime", &[("date_length", &["full", "long", "medium", "short"]), ("time_length", &["full", "long", "medium", "short"])]),
            ("list", &[("list_type", &["and", "or", "unit"]), ("list_style", &["wide", "short", "narrow"])]),
            ("currency", &[("width", &["short", "narrow"]), ("currency_code", &["USD", "EUR", "JPY", "CHF"])]),
        ];
        let (name, opts) = SPECS[self.t.pick(SPECS.len())];
        let mut args = vec![];
        for (k, vals) in opts.iter() {
            if self.t.coin() {
                let mut v = vals[self.t.pick(vals.len())];
                if self.cfg.fmt_no_zoned_time && *k == "time_length" && (v == "full" || v == "long") {
                    v = if v == "full" { "medium" } else { "short" };
                }
                args.push((k.to_string(), v.to_string()));
            }
        }
        let mut text = String::new();
        text.push_str(&self.ws());
        text.push_str(name);
        if !args.is_empty() || self.t.chance(1, 4) {
            text.push_str(&self.ws());
            text.push('(');
            for (i, (k, v)) in args.iter().enumerate() {
                if i > 0 {
                    text.push(';');
                }
                text.push_str(&self.ws());
                text.push_str(k);
                text.push_str(&self.ws());
                text.push(':');
                text.push_str(&self.ws());
                text.push_str(v);
                text.push_str(&self.ws());
            }
            text.push(')');
        }
        FmtSpec {
            name: name.to_string(),
            args,
            text,
        }
    }

    /// pieces of an interpolated string; `vars`/`comps` = names it may use
    pub fn pieces(&mut self, tag: &str, depth: usize, rich: bool) -> Vec<Piece> {
        let n = if rich {
            let lo = if depth == 0 { self.cfg.min_pieces.max(1).min(self.cfg.max_pieces) } else { 1 };
            let hi = if depth == 0 { self.cfg.max_pieces.max(lo) } else { self.cfg.max_pieces.min(10).max(lo) };
            self.t.range(lo, hi)
        } else {
            1
        };
        let mut out = vec![];
        for _ in 0..n {
            let kind = if !rich {
                0
            } else if depth >= self.cfg.max_comp_depth {
                self.t.weighted(&[3, 3])
            } else {
                self.t.weighted(&[3, 3, 2])
            };
            match kind {
                0 => out.push(Piece::Text(self.text(tag))),
                1 => {
                    let name = if self.cfg.hyphen_vars && self.t.chance(1, 5) { *self.t.choose(&["first-name", "user-id", "x-y-z", "first_name", "user_id"]) } else { *self.t.choose(VAR_POOL) };
                    out.push(self.var_piece_fmt(name));
                }
                _ => {
                    let name = self.t.choose(COMP_POOL).to_string();
                    let children = if self.t.chance(1, 8) {
                        vec![]
                    } else {
                        self.pieces(tag, depth + 1, true)
                    };
                    let mut ws = [self.ws_inner(), self.ws_inner(), self.ws_inner(), self.ws_inner()];
                    if !self.cfg.ws_in_closing_tag {
                        ws[3] = String::new();
                    }
                    out.push(Piece::Comp { name, ws, children });
                }
            }
        }
        // adjacent texts are merged by the normalisation: re-check the merged text (`$t` + `(` ...)
        normalize_pieces(out)
            .into_iter()
            .map(|p| match p {
                Piece::Text(t) => Piece::Text(sanitize_text(&t)),
                other => other,
            })
            .map(|p| match p {
                // only at the top level of a value: the pieces of a component body are re-checked by the caller
                Piece::Text(t) if depth == 0 && t.contains('\u{E020}') => Piece::Text(t.replace('\u{E020}', "<")),
                other => other,
            })
            .collect()
    }

    pub fn int_in(&mut self, lo: i128, hi: i128) -> i128 {
        // biased to the extremes, 0, +-1 and small numbers
        let span = (hi - lo) as u128;
        match self.t.weighted(&[4, 2, 2, 2, 3]) {
            0 => {
                // small around zero (clamped)
                let v = self.t.range(0, 12) as i128 - 3;
                v.clamp(lo, hi)
            }
            1 => lo + (self.t.pick(3) as i128).min(span as i128),
            2 => hi - (self.t.pick(3) as i128).min(span as i128),
            3 => {
                let v = (self.t.range(0, 200) as i128) - 100;
                v.clamp(lo, hi)
            }
            _ => {
                let r = self.t.u64() as u128;
                lo + (r % (span + 1)) as i128
            }
        }
    }

    pub fn float_val(&mut self, ty: RangeTy) -> f64 {
        let v: f64 = match self.t.weighted(&[4, 3, 2, 1, 1, 2]) {
            // numbers whose shortest decimal form has 17 significant digits and that a fast, non-round-tripping
            // JSON float parser reads one ULP off (finding D24)
            5 => {
                if ty == RangeTy::F32 {
                    *self.t.choose(&[3.4028234663852886e38, -3.4028234663852886e38, 9.999999680285692e-41])
                } else {
                    *self.t.choose(&[8.988465674311579e307, -8.988465674311579e307, 3.4028234663852886e38, -3.4028234663852886e38, 9.999999680285692e-41])
                }
            }
            0 => (self.t.range(0, 20) as f64) - 5.0,
            1 => ((self.t.range(0, 400) as f64) - 200.0) / 8.0,
            2 => ((self.t.range(0, 2000) as f64) - 1000.0) / 10.0,
            3 => {
                let e = self.t.range(0, 12) as i32 - 6;
                (self.t.range(1, 99) as f64) * 10f64.powi(e)
            }
            _ => {
                if ty == RangeTy::F32 {
                    *self.t.choose(&[f32::MAX as f64, f32::MIN as f64, f32::MIN_POSITIVE as f64, 1e-40f32 as f64, -0.0])
                } else {
                    *self.t.choose(&[f64::MAX, f64::MIN, f64::MIN_POSITIVE, 5e-324, -0.0])
                }
            }
        };
        if ty == RangeTy::F32 {
            (v as f32) as f64
        } else {
            v
        }
    }

    fn num(&mut self, ty: RangeTy, near: Option<Num>) -> Num {
        if ty.is_float() {
            if let (Some(Num::Float(f)), true) = (near, self.t.chance(1, 3)) {
                return Num::Float(f);
            }
            Num::Float(self.float_val(ty))
        } else {
            let (lo, hi) = ty.min_max();
            if let (Some(Num::Int(i)), true) = (near, self.t.chance(1, 2)) {
                let d = self.t.range(0, 4) as i128 - 2;
                return Num::Int((i + d).clamp(lo, hi));
            }
            Num::Int(self.int_in(lo, hi))
        }
    }

    /// a count spec that the parser must accept (non-empty, ordered bounds, exclusive end > MIN)
    pub fn count_spec(&mut self, ty: RangeTy, near: Option<Num>) -> CountSpec {
        let kind = self.t.weighted(&[4, 3, 3, 2, 2, 2]);
        let less = |a: Num, b: Num| a.as_f64() < b.as_f64() || matches!((a, b), (Num::Int(x), Num::Int(y)) if x < y);
        match kind {
            0 => {
                // on float ranges a third of the exact counts are whole numbers written as integer tokens (`-1`, `"7"`)
                let v = if ty.is_float() && self.t.chance(1, 3) {
                    if self.t.chance(1, if ty == RangeTy::F32 { 2 } else { 4 }) {
                        // integers beyond 2^53 (and 2^24): the conversion to the range's float type must round once
                        Num::Int(*self.t.choose(&[9007199791611905i128, -9007199791611905, 9223372586610589697, 16777217, 9007199254740993, -16777219, 4611686293305294849]))
                    } else {
                        Num::Int(self.t.range(0, 40) as i128 - 20)
                    }
                } else {
                    self.num(ty, near)
                };
                CountSpec::Exact { v, as_number: self.t.coin() }
            }
            1 | 2 => {
                // a..b / a..=b
                let a = self.num(ty, near);
                let b = self.num(ty, Some(a));
                let (lo, hi) = if less(b, a) { (b, a) } else { (a, b) };
                let incl = kind == 2;
                if !incl {
                    let strictly = match (lo, hi) {
                        (Num::Int(x), Num::Int(y)) => x < y,
                        _ => lo.as_f64() < hi.as_f64(),
                    };
                    if !strictly {
                        return CountSpec::Bounds {
                            start: Some(lo),
                            end: Some((hi, true)),
                        };
                    }
                }
                CountSpec::Bounds {
                    start: Some(lo),
                    end: Some((hi, incl)),
                }
            }
            3 => CountSpec::Bounds {
                start: Some(self.num(ty, near)),
                end: None,
            },
            4 => CountSpec::Bounds {
                start: None,
                end: Some((self.num(ty, near), true)),
            },
            _ => {
                let e = self.num(ty, near);
                // `..MIN` is rejected by the parser for integers (no representable inclusive end)
                let ok = match e {
                    Num::Int(i) => i > ty.min_max().0,
                    Num::Float(_) => true,
                };
                CountSpec::Bounds {
                    start: None,
                    end: Some((e, !ok)),
                }
            }
        }
    }

    pub fn range_decl(&mut self, tag: &str, rich_bodies: bool) -> RangeDecl {
        self.range_decl_ty(tag, rich_bodies, None)
    }

    pub fn range_decl_ty(&mut self, tag: &str, rich_bodies: bool, force_ty: Option<RangeTy>) -> RangeDecl {
        let drawn = ALL_RANGE_TYS[self.t.weighted(&[6, 1, 1, 1, 1, 1, 1, 1, 1, 1])];
        let ty = force_ty.unwrap_or(drawn);
        let ty_written = ty != RangeTy::I32 || self.t.coin();
        let nb = self.t.range(0, 4);
        // one declaration in three never shows its count (its arms then capture other members only)
        let hide = (self.t.pick(100) as u32) < self.cfg.p_hide_count;
        let mut branches: Vec<Branch> = vec![];
        let mut near = None;
        for _ in 0..nb {
            let ns = self.t.weighted(&[5, 2, 1]) + 1;
            let mut specs = vec![];
            for _ in 0..ns {
                let s = self.count_spec(ty, near);
                near = Some(match &s {
                    CountSpec::Exact { v, .. } => *v,
                    CountSpec::Bounds { start: Some(s), .. } => *s,
                    CountSpec::Bounds { end: Some((e, _)), .. } => *e,
                    _ => Num::Int(0),
                });
                specs.push(s);
            }
            let mut body = self.range_body(tag, rich_bodies, hide);
            // one branch in five repeats the value of an earlier branch (equal arms must not be merged or reordered)
            if !branches.is_empty() && self.t.chance(1, 5) {
                let i = self.t.pick(branches.len());
                body = branches[i].body.clone();
            }
            branches.push(Branch {
                specs,
                body,
                syntax: self.t.weighted(&[4, 2, 2]) as u8,
                fallback_spelling: 0,
                ws: self.t.pick(16) as u8,
            });
        }
        // fallback: always for floats; for ints always too (a non-exhaustive match does not compile)
        let mut body = self.range_body(tag, rich_bodies, hide);
        if !branches.is_empty() && self.t.chance(1, 5) {
            let i = self.t.pick(branches.len());
            body = branches[i].body.clone();
        }
        branches.push(Branch {
            specs: vec![],
            body,
            syntax: 0,
            fallback_spelling: self.t.pick(4) as u8,
            ws: 0,
        });
        RangeDecl { ty, ty_written, branches }
    }

    fn range_body(&mut self, tag: &str, rich: bool, hide_count: bool) -> Vec<Piece> {
        let mut p = self.pieces(tag, self.cfg.max_comp_depth.saturating_sub(1), rich);
        if hide_count {
            if rich && self.t.coin() {
                let name = *self.t.choose(VAR_POOL);
                p.push(self.var_piece(name));
                p = normalize_pieces(p);
            }
        } else if self.t.chance(1, 3) {
            let mut v = self.var_piece("count");
            // the count itself may be shown through a formatter (`{{ count, number }}`)
            if self.cfg.formatters && (self.t.pick(100) as u32) < self.cfg.p_formatter.max(30) {
                if let Piece::Var { fmt, .. } = &mut v {
                    let ws = self.ws();
                    *fmt = Some(FmtSpec {
                        name: "number".into(),
                        args: vec![],
                        text: format!("{ws}number"),
                    });
                }
            }
            p.push(v);
            p = normalize_pieces(p);
        }
        p
    }

    /// normalise and re-check merged literal text
    pub fn finish_pieces(p: Vec<Piece>) -> Vec<Piece> {
        normalize_pieces(p)
            .into_iter()
            .map(|p| match p {
                Piece::Text(t) => Piece::Text(sanitize_text(&t)),
                Piece::Comp { name, ws, children } => Piece::Comp { name, ws, children: Self::finish_pieces(children) },
                other => other,
            })
            .collect()
    }

    pub fn plural_decl(&mut self, tag: &str, rich: bool) -> PluralDecl {
        let ordinal = self.t.chance(1, 4);
        let hide = (self.t.pick(100) as u32) < self.cfg.p_hide_count;
        let mut forms = vec![];
        for f in [Form::Zero, Form::One, Form::Two, Form::Few, Form::Many] {
            if self.t.chance(2, 5) {
                forms.push((f, self.range_body(tag, rich, hide)));
            }
        }
        if forms.is_empty() {
            // a single `_other` key is not a plural: need at least one more form
            forms.push((Form::One, self.range_body(tag, rich, hide)));
        }
        let mut other = self.range_body(tag, rich, hide);
        if self.t.chance(1, 5) {
            let i = self.t.pick(forms.len());
            other = forms[i].1.clone();
        }
        forms.push((Form::Other, other));
        let perm = self.t.permutation(forms.len());
        let forms = perm.into_iter().map(|i| forms[i].clone()).collect();
        PluralDecl { ordinal, forms }
    }

    pub fn literal(&mut self) -> Value {
        match self.t.pick(5) {
            0 => Value::U(self.t.range(0, 1000) as u64),
            1 => Value::Bool(self.t.coin()),
            2 => Value::I(-(self.t.range(1, 1000) as i64)),
            3 => {
                // one float literal in four has 17 significant digits (read one ULP off by a non-round-tripping parser, D24)
                if self.t.chance(1, 4) {
                    Value::F(*self.t.choose(&[8.988465674311579e307, -8.988465674311579e307, 3.4028234663852886e38, -3.4028234663852886e38, 9.999999680285692e-41]))
                } else {
                    Value::F(((self.t.range(0, 4000) as f64) - 2000.0) / 16.0 + 0.5)
                }
            }
            _ => Value::U(self.t.u64()),
        }
    }
}

/// keep literal text inside the documented grammar: no `{ } < >`, no `$t(`
pub fn sanitize_text(s: &str) -> String {
    let mut out: String = s.chars().filter(|c| !matches!(c, '{' | '}' | '<' | '>')).collect();
    while out.contains("$t(") {
        out = out.replace("$t(", "$t (");
    }
    // a text ending in "$t" or "$" followed by a piece is fine ("$t{{" / "$t<" never forms "$t(")
    out
}

// ------------------------------------------------------------------------------------------
// whole projects

/// shape of a key in the default locale (other locales follow it unless they vary on purpose)
#[derive(Clone, Copy, Debug, PartialEq, Eq)]
pub enum Kind {
    Plain,
    Interp,
    Lit,
    Range,
    Plural,
    Sub,
    Fk,
}

const KINDS: [Kind; 7] = [Kind::Plain, Kind::Interp, Kind::Lit, Kind::Range, Kind::Plural, Kind::Sub, Kind::Fk];

pub fn collect_vars(pieces: &[Piece], out: &mut Vec<String>) {
    for p in pieces {
        match p {
            Piece::Var { name, .. } => {
                if !out.contains(name) {
                    out.push(name.clone())
                }
            }
            Piece::Comp { children, .. } => collect_vars(children, out),
            _ => {}
        }
    }
}

pub fn value_vars(v: &Value) -> Vec<String> {
    let mut out = vec![];
    match v {
        Value::Str(p) => collect_vars(p, &mut out),
        Value::Range(r) => {
            for b in &r.branches {
                collect_vars(&b.body, &mut out);
            }
        }
        Value::Plural(pl) => {
            for (_, b) in &pl.forms {
                collect_vars(b, &mut out);
            }
        }
        _ => {}
    }
    out
}

pub fn contains_fk(pieces: &[Piece]) -> bool {
    pieces.iter().any(|p| match p {
        Piece::Fk(_) => true,
        Piece::Comp { children, .. } => contains_fk(children),
        _ => false,
    })
}

pub fn value_contains_fk(v: &Value) -> bool {
    match v {
        Value::Str(p) => contains_fk(p),
        Value::Range(r) => r.branches.iter().any(|b| contains_fk(&b.body)),
        Value::Plural(pl) => pl.forms.iter().any(|(_, b)| contains_fk(b)),
        _ => false,
    }
}

/// every leaf path of an object (plural groups count as one leaf)
pub fn leaf_paths(obj: &Obj, prefix: &mut Vec<String>, out: &mut Vec<Vec<String>>) {
    for (k, v) in obj {
        prefix.push(k.clone());
        match v {
            Value::Sub(o) => leaf_paths(o, prefix, out),
            _ => out.push(prefix.clone()),
        }
        prefix.pop();
    }
}

impl<'t> Gen<'t> {
    fn pick_kind(&mut self, depth: usize, allow_fk: bool) -> Kind {
        let mut w = self.cfg.w_kinds;
        if depth >= self.cfg.sub_depth {
            w[5] = 0;
        }
        if !allow_fk {
            w[6] = 0;
        }
        if w.iter().all(|x| *x == 0) {
            return Kind::Plain;
        }
        KINDS[self.t.weighted(&w)]
    }

    fn value_of_kind(&mut self, kind: Kind, tag: &str, depth: usize, names: &mut NameSrc) -> Value {
        match kind {
            Kind::Plain => {
                // one plain value in twelve is the empty string (a defined value, not `null`)
                if self.t.chance(1, 12) {
                    Value::Str(vec![])
                } else {
                    Value::Str(self.pieces(tag, 0, false))
                }
            }
            Kind::Interp => Value::Str(self.pieces(tag, 0, true)),
            Kind::Lit => self.literal(),
            Kind::Range => {
                let rich = self.t.coin();
                Value::Range(self.range_decl(tag, rich))
            }
            Kind::Plural => {
                let rich = self.t.coin();
                Value::Plural(self.plural_decl(tag, rich))
            }
            Kind::Sub => {
                // one group in ten is empty in the default locale (other locales may still write keys there: surplus)
                let n = if self.t.chance(1, 10) { 0 } else { self.t.range(1, 4) };
                let mut o = vec![];
                for _ in 0..n {
                    let k = names.next(self.t);
                    let kind = self.pick_kind(depth + 1, false);
                    let v = self.value_of_kind(kind, &format!("{tag}.{k}"), depth + 1, names);
                    o.push((k, v));
                }
                Value::Sub(o)
            }
            Kind::Fk => Value::Str(vec![]), // filled in later
        }
    }

    /// skeleton of the default locale: (key, kind, value) in file order
    fn default_obj(&mut self, tag: &str, names: &mut NameSrc) -> Obj {
        let n = self.t.range(self.cfg.keys.0, self.cfg.keys.1);
        let mut o = vec![];
        for _ in 0..n {
            let k = names.next(self.t);
            let kind = self.pick_kind(0, false);
            let v = self.value_of_kind(kind, &format!("{tag}:{k}"), 0, names);
            o.push((k, v));
        }
        o
    }

    /// derive another locale's object from the default skeleton
    fn derive_obj(&mut self, base: &Obj, tag: &str, depth: usize, names: &mut NameSrc, allow_absent: bool) -> Obj {
        let mut o = vec![];
        for (k, v) in base {
            let r = self.t.pick(100) as u32;
            if allow_absent && r < self.cfg.p_absent {
                continue;
            }
            if r < self.cfg.p_absent + self.cfg.p_null {
                o.push((k.clone(), Value::Null));
                continue;
            }
            let t2 = format!("{tag}:{k}");
            let nv = match v {
                Value::Sub(inner) => Value::Sub(self.derive_obj(inner, &t2, depth + 1, names, allow_absent)),
                other => {
                    let same_kind = match other {
                        Value::Str(p) => {
                            if p.iter().any(|x| !matches!(x, Piece::Text(_))) {
                                Kind::Interp
                            } else {
                                Kind::Plain
                            }
                        }
                        Value::Range(_) => Kind::Range,
                        Value::Plural(_) => Kind::Plural,
                        _ => Kind::Lit,
                    };
                    let mut kind = if r >= 100 - self.cfg.p_kind_varies {
                        // any non-subkey kind
                        let mut w = self.cfg.w_kinds;
                        w[5] = 0;
                        w[6] = 0;
                        KINDS[self.t.weighted(&w)]
                    } else {
                        same_kind
                    };
                    // keep the count variable consistent across locales (one range type, or plural),
                    // unless a conflict is asked for
                    let conflict = (self.t.pick(100) as u32) < self.cfg.p_count_conflict;
                    if !conflict {
                        match (other, kind) {
                            (Value::Range(_), Kind::Plural) => kind = Kind::Range,
                            (Value::Plural(_), Kind::Range) => kind = Kind::Plural,
                            (Value::Range(_), _) | (Value::Plural(_), _) => {}
                            (_, Kind::Range) | (_, Kind::Plural) => kind = Kind::Interp,
                            _ => {}
                        }
                    }
                    match (other, kind) {
                        (Value::Range(br), Kind::Range) if !conflict => {
                            let rich = self.t.coin();
                            Value::Range(self.range_decl_ty(&t2, rich, Some(br.ty)))
                        }
                        _ => self.value_of_kind(kind, &t2, depth, names),
                    }
                }
            };
            o.push((k.clone(), nv));
        }
        if depth > 0 && (self.t.pick(100) as u32) < self.cfg.p_surplus {
            // surplus key (or surplus group) below the top level
            let k = names.next(self.t);
            let rich = self.t.coin();
            let v = if self.t.chance(1, 4) {
                let k2 = names.next(self.t);
                let p = self.pieces(&format!("{tag}:{k}.{k2}"), 0, rich);
                Value::Sub(vec![(k2, Value::Str(p))])
            } else if self.t.chance(1, 4) {
                // a surplus key may hold `null` (a key removed from the default locale only): still surplus
                Value::Null
            } else {
                Value::Str(self.pieces(&format!("{tag}:{k}"), 0, rich))
            };
            o.push((k, v));
        }
        let perm = self.t.permutation(o.len());
        perm.into_iter().map(|i| o[i].clone()).collect()
    }

    pub fn project(&mut self) -> Project {
        let nloc = self.t.range(self.cfg.locales.0, self.cfg.locales.1);
        let perm = self.t.permutation(self.cfg.locale_pool.len());
        let locales: Vec<String> = perm.iter().take(nloc).map(|i| self.cfg.locale_pool[*i].to_string()).collect();
        let namespaces: Option<Vec<String>> = if self.t.pick(100) < self.cfg.p_namespaces as usize {
            let n = self.t.range(1, 3);
            let perm = self.t.permutation(NS_POOL.len());
            Some(perm.iter().take(n).map(|i| NS_POOL[*i].to_string()).collect())
        } else {
            None
        };
        let mut inherits = BTreeMap::new();
        for l in locales.iter().skip(1) {
            if (self.t.pick(100) as u32) < self.cfg.p_inherits {
                let target = locales[self.t.pick(locales.len())].clone();
                inherits.insert(l.clone(), target);
            }
        }
        let locales_dir = if self.t.chance(1, 6) { "i18n/data".to_string() } else { "locales".to_string() };
        let mut files = BTreeMap::new();
        let ns_list: Vec<Option<String>> = match &namespaces {
            None => vec![None],
            Some(v) => v.iter().cloned().map(Some).collect(),
        };
        for ns in &ns_list {
            let hyphen = self.cfg.hyphen_keys && self.t.chance(1, 3);
            let mut names = NameSrc::new(self.t);
            names.hyphen = hyphen;
            let tag0 = format!("{}{}", locales[0], ns.as_deref().map(|n| format!("/{n}")).unwrap_or_default());
            let base = self.default_obj(&tag0, &mut names);
            for (i, l) in locales.iter().enumerate() {
                if i == 0 {
                    continue;
                }
                let tag = format!("{}{}", l, ns.as_deref().map(|n| format!("/{n}")).unwrap_or_default());
                let mut o = self.derive_obj(&base, &tag, 0, &mut names, true);
                if (self.t.pick(100) as u32) < self.cfg.p_surplus {
                    let k = names.next(self.t);
                    let rich = self.t.coin();
                    let p = self.pieces(&format!("{tag}:{k}"), 0, rich);
                    if self.t.chance(1, 4) {
                        let k2 = names.next(self.t);
                        o.push((k, Value::Sub(vec![(k2, Value::Str(p))])));
                    } else if self.t.chance(1, 4) {
                        o.push((k, Value::Null));
                    } else {
                        o.push((k, Value::Str(p)));
                    }
                }
                files.insert((ns.clone(), l.clone()), o);
            }
            files.insert((ns.clone(), locales[0].clone()), base);
        }
        let mut p = Project {
            locales,
            inherits,
            namespaces,
            locales_dir,
            files,
        };
        if self.cfg.precise_float_key {
            const PRECISE: &[f64] = &[8.988465674311579e307, -8.988465674311579e307, 3.4028234663852886e38, -3.4028234663852886e38, 9.999999680285692e-41];
            let ns = p.ns_list()[0].clone();
            for l in p.locales.clone() {
                let v = *self.t.choose(PRECISE);
                if let Some(o) = p.files.get_mut(&(ns.clone(), l)) {
                    o.push(("preciseflt".to_string(), Value::F(v)));
                }
            }
        }
        if self.cfg.w_kinds[6] > 0 {
            self.add_foreign_keys(&mut p);
        }
        p
    }

    /// add keys that reference existing keys: acyclic by construction (a reference only targets
    /// keys that existed before it was created); the new key is present in every locale
    pub fn add_foreign_keys(&mut self, p: &mut Project) {
        let nfk = self.t.range(0, 1 + self.cfg.w_kinds[6] as usize);
        let ns_list = p.ns_list();
        for round in 0..nfk {
            let ns = ns_list[self.t.pick(ns_list.len())].clone();
            // the new key name
            // names used at the top level of any locale's file (surplus keys included)
            let used: Vec<String> = p
                .files
                .iter()
                .filter(|((n, _), _)| *n == ns)
                .flat_map(|(_, o)| o.iter().map(|(k, _)| k.clone()))
                .collect();
            let mut name = None;
            let perm = self.t.permutation(KEY_POOL.len());
            for i in perm {
                let cand = format!("{}{}", KEY_POOL[i], if round % 2 == 0 { "" } else { "_ref" });
                if !used.iter().any(|u| u == &cand || u.starts_with(&format!("{cand}_"))) {
                    name = Some(cand);
                    break;
                }
            }
            let Some(mut name) = name else { continue };
            // one reference key in six is named like a plural form of a sibling key (`title_one` next to `title`)
            // without being a plural (no `_other` companion): it is an ordinary key
            if self.t.chance(1, 6) {
                // the sibling must not be a plural in any locale (a locale may use another kind for the same key):
                // its forms would be written under the very name chosen here
                let plural_somewhere = |k: &str| p.files.iter().any(|((n, _), o)| *n == ns && o.iter().any(|(kk, v)| kk == k && matches!(v, Value::Plural(_))));
                let siblings: Vec<String> = p
                    .file(ns.as_deref(), p.default_locale())
                    .map(|o| o.iter().filter(|(k, _)| !plural_somewhere(k)).map(|(k, _)| k.clone()).collect())
                    .unwrap_or_default();
                if !siblings.is_empty() {
                    let sib = siblings[self.t.pick(siblings.len())].clone();
                    let form = *self.t.choose(&["one", "two", "few", "many", "zero", "ordinal_one", "ordinal_few"]);
                    let cand = format!("{sib}_{form}");
                    let clash = used.iter().any(|u| u == &cand || u.starts_with(&format!("{sib}_")) || cand.starts_with(&format!("{u}_")) && u != &sib);
                    if !clash {
                        name = cand;
                    }
                }
            }
            let nrefs = if self.cfg.fk_refs_min > 0 { self.t.range(self.cfg.fk_refs_min, self.cfg.fk_refs_min + 4) } else { self.t.weighted(&[5, 2, 1]) + 1 };
            let locales = p.locales.clone();
            // choose target paths from the default locale's leaves (any namespace)
            let mut targets: Vec<(Option<String>, Vec<String>)> = vec![];
            for _ in 0..nrefs {
                let tns = ns_list[self.t.pick(ns_list.len())].clone();
                let mut leaves = vec![];
                if let Some(o) = p.file(tns.as_deref(), p.default_locale()) {
                    leaf_paths(o, &mut vec![], &mut leaves);
                }
                if leaves.is_empty() {
                    continue;
                }
                // one time in three prefer a range / plural target (references that pass or share a count)
                let counted: Vec<Vec<String>> = leaves
                    .iter()
                    .filter(|path| matches!(p.file(tns.as_deref(), p.default_locale()).map(|o| crate::sem::lookup(o, path)), Some(crate::sem::Lookup::Val(Value::Range(_) | Value::Plural(_)))))
                    .cloned()
                    .collect();
                let path = if !counted.is_empty() && (self.t.pick(100) as u32) < self.cfg.p_fk_counted { counted[self.t.pick(counted.len())].clone() } else { leaves[self.t.pick(leaves.len())].clone() };
                targets.push((tns, path));
            }
            if targets.is_empty() {
                continue;
            }
            // where the references are written: 0 = a plain string, 1 = inside the forms of a plural,
            // 2 = inside the branches of a range (only when no target brings its own count variable)
            let targets_have_count = targets.iter().any(|(tns, path)| {
                p.locales.iter().any(|l| matches!(p.file(tns.as_deref(), l).map(|o| crate::sem::lookup(o, path)), Some(crate::sem::Lookup::Val(Value::Range(_) | Value::Plural(_)))))
            });
            let container = if targets_have_count || !self.cfg.fk_in_plural_or_range { 0 } else { self.t.weighted(&[5, 1, 1]) };
            for loc in &locales {
                let tag = format!("{}:{}", loc, name);
                let mut pieces: Vec<Piece> = vec![];
                let mut ok = true;
                for (tns, path) in &targets {
                    if self.t.coin() {
                        pieces.push(Piece::Text(self.text(&tag)));
                    }
                    let tv = match p.file(tns.as_deref(), loc).map(|o| crate::sem::lookup(o, path)) {
                        Some(crate::sem::Lookup::Val(v)) => v.clone(),
                        _ => {
                            ok = false;
                            break;
                        }
                    };
                    match &tv {
                        Value::Sub(_) => {
                            ok = false;
                            break;
                        }
                        Value::Null => {
                            if !self.cfg.fk_to_null || loc == p.default_locale() {
                                ok = false;
                                break;
                            }
                        }
                        v => {
                            if !self.cfg.fk_chains && value_contains_fk(v) {
                                ok = false;
                                break;
                            }
                        }
                    }
                    // variables the target exposes once its own references are substituted
                    let tvars: Vec<String> = {
                        let sem = crate::sem::Sem::new(p);
                        let eff = sem.effective_locale(tns.as_deref(), loc, path);
                        match sem.resolve_at(tns.as_deref(), &eff, path) {
                            Ok(r) => {
                                let mut sig = crate::sem::Signature::default();
                                crate::sem::signature(&r, &mut sig);
                                sig.vars.into_iter().filter(|v| !sig.counts.contains_key(v)).collect()
                            }
                            Err(_) => vec![],
                        }
                    };
                    let fk = self.fk_to(tns.clone(), path.clone(), &tv, &tvars, &tag);
                    // the run-time count of a referenced range / plural may also be shown next to the
                    // reference (the same variable is then used after the range consumed it)
                    let count_name: Option<String> = if matches!(tv, Value::Range(_) | Value::Plural(_)) {
                        match fk.args.iter().find(|(k, _)| k == "count") {
                            None => Some("count".to_string()),
                            Some((_, Arg::Str(ps))) => match ps.as_slice() {
                                [Piece::Var { name, .. }] => Some(name.clone()),
                                _ => None,
                            },
                            Some(_) => None,
                        }
                    } else {
                        None
                    };
                    pieces.push(Piece::Fk(fk));
                    if let Some(cn) = count_name {
                        if (self.t.pick(100) as u32) < self.cfg.p_count_reuse {
                            pieces.push(Piece::Text(self.text(&tag)));
                            pieces.push(self.var_piece(&cn));
                        }
                    }
                }
                if self.t.coin() {
                    pieces.push(Piece::Text(self.text(&tag)));
                }
                let value = if loc != p.default_locale() && self.cfg.fk_to_null && (self.t.pick(100) as u32) < self.cfg.p_null.max(10) {
                    // the reference key itself is an explicit default here: later references to it
                    // in this locale must follow the fallback chain to a value that is itself a reference
                    Value::Null
                } else if ok && container == 1 {
                    let body = Self::finish_pieces(pieces);
                    let mut other = body.clone();
                    other.push(self.var_piece("count"));
                    Value::Plural(PluralDecl {
                        ordinal: false,
                        forms: vec![(Form::One, body), (Form::Other, normalize_pieces(other))],
                    })
                } else if ok && container == 2 {
                    let body = Self::finish_pieces(pieces);
                    let fb = vec![Piece::Text(self.text(&tag))];
                    Value::Range(RangeDecl {
                        ty: RangeTy::I32,
                        ty_written: false,
                        branches: vec![
                            Branch {
                                specs: vec![CountSpec::Bounds { start: Some(Num::Int(0)), end: Some((Num::Int(5), false)) }],
                                body,
                                syntax: 0,
                                fallback_spelling: 0,
                                ws: 0,
                            },
                            Branch {
                                specs: vec![],
                                body: fb,
                                syntax: 0,
                                fallback_spelling: 0,
                                ws: 0,
                            },
                        ],
                    })
                } else if ok {
                    Value::Str(Self::finish_pieces(pieces))
                } else if loc == p.default_locale() {
                    // cannot reference in the default locale: make it a plain key instead
                    Value::Str(vec![Piece::Text(self.text(&tag))])
                } else {
                    Value::Str(vec![Piece::Text(self.text(&tag))])
                };
                if let Some(o) = p.files.get_mut(&(ns.clone(), loc.clone())) {
                    let pos = self.t.pick(o.len() + 1);
                    o.insert(pos, (name.clone(), value));
                }
            }
        }
        if self.cfg.fk_to_null && self.cfg.fk_chains && self.cfg.w_kinds[6] > 0 && self.t.chance(1, 5) {
            self.add_back_reference_pair(p);
        }
        if self.cfg.fk_chains && self.cfg.fk_args_through_chain && self.cfg.w_kinds[6] > 0 && self.t.chance(1, 3) {
            self.add_count_chain(p);
        }
    }

    /// a pair of keys whose reference runs in opposite directions in two locales: everywhere `dst` is
    /// `$t(src) ..` and `src` is plain, except in one non-default locale where `src` is `.. $t(dst)` and
    /// `dst` an explicit default. Resolving `src` there leaves the locale through the null (to the locale
    /// it inherits from or the default) and meets the key path `src` again, in another locale: acyclic.
    pub fn add_back_reference_pair(&mut self, p: &mut Project) {
        if p.locales.len() < 2 {
            return;
        }
        let ns_list = p.ns_list();
        let ns = ns_list[self.t.pick(ns_list.len())].clone();
        let (src, dst) = if self.t.coin() { ("backsrc", "backdst") } else { ("zbacksrc", "abackdst") };
        let turned = p.locales[1 + self.t.pick(p.locales.len() - 1)].clone();
        let with_var = self.t.coin();
        let fk = |path: &str| Piece::Fk(Fk { ns: ns.clone(), path: vec![path.to_string()], args: vec![], ws: Default::default() });
        for loc in p.locales.clone() {
            let tag_s = format!("{loc}:{src}");
            let tag_d = format!("{loc}:{dst}");
            let (vs, vd) = if loc == turned {
                (Value::Str(Self::finish_pieces(vec![Piece::Text(self.text(&tag_s)), fk(dst)])), Value::Null)
            } else {
                let mut sp = vec![Piece::Text(self.text(&tag_s))];
                if with_var {
                    sp.push(self.var_piece("who"));
                }
                (Value::Str(Self::finish_pieces(sp)), Value::Str(Self::finish_pieces(vec![fk(src), Piece::Text(self.text(&tag_d))])))
            };
            if let Some(o) = p.files.get_mut(&(ns.clone(), loc.clone())) {
                let pos = self.t.pick(o.len() + 1);
                o.insert(pos, (src.to_string(), vs));
                let pos = self.t.pick(o.len() + 1);
                o.insert(pos, (dst.to_string(), vd));
            }
        }
    }

    /// references that reach a range / plural through an earlier reference which renamed its count:
    /// `ccren = $t(K, {"count": "{{ nn }}"})`, then `ccfix = $t(ccren, {"nn": <literal>})` (the branch is fixed through
    /// the new name), `ccre = $t(ccren, {"n": "{{ m }}"})` (renamed again), `cctwo = $t(K, {"count": "{{ n }}"}) .. {{ count }}`
    /// and `cctwolit = $t(cctwo, {"count": 7})` (a `count` argument must not reach the range that no longer counts on
    /// `count`), and `cclit = $t(K, {"count": <literal>})` written in every locale, also where K is null.
    pub fn add_count_chain(&mut self, p: &mut Project) {
        let ns_list = p.ns_list();
        let ns = ns_list[self.t.pick(ns_list.len())].clone();
        let Some(def) = p.file(ns.as_deref(), p.default_locale()) else { return };
        // top-level keys that are a range (one type) or a plural in every locale that writes a value for them
        let mut cands: Vec<(String, Option<RangeTy>)> = vec![];
        for (k, v) in def.iter() {
            let kind = match v {
                Value::Range(r) => Some(r.ty),
                Value::Plural(_) => None,
                _ => continue,
            };
            let same_everywhere = p.locales.iter().all(|l| match p.file(ns.as_deref(), l).and_then(|o| obj_get(o, k)) {
                None | Some(Value::Null) => true,
                // (values that themselves hold references are left out: what a rename does to the counts they bring is another question)
                Some(v) if value_contains_fk(v) => false,
                Some(Value::Range(r)) => kind == Some(r.ty),
                Some(Value::Plural(_)) => kind.is_none(),
                Some(_) => false,
            });
            if same_everywhere {
                cands.push((k.clone(), kind));
            }
        }
        if cands.is_empty() {
            return;
        }
        let (k, kind) = cands[self.t.pick(cands.len())].clone();
        let used: Vec<String> = p.files.iter().filter(|((n, _), _)| *n == ns).flat_map(|(_, o)| o.iter().map(|(k, _)| k.clone())).collect();
        if used.iter().any(|u| u.starts_with("cc")) {
            return;
        }
        let lit = |t: &mut Tape| -> Arg {
            let n = t.pick(4) as u64;
            match kind {
                Some(RangeTy::F32) | Some(RangeTy::F64) => Arg::F(n as f64 + if t.coin() { 0.5 } else { 0.0 }),
                _ => Arg::U(n),
            }
        };
        let lit_fix = lit(self.t);
        let lit_direct = lit(self.t);
        let fk = |path: &str, args: Vec<(String, Arg)>| Piece::Fk(Fk { ns: ns.clone(), path: vec![path.to_string()], args, ws: Default::default() });
        for loc in p.locales.clone() {
            let var_n = self.var_piece("nn");
            let var_n2 = self.var_piece("nn");
            let var_m = self.var_piece("mm");
            let var_count = self.var_piece("count");
            let t1 = self.text(&format!("{loc}:cctwo"));
            let t2 = self.text(&format!("{loc}:cclit"));
            let entries: Vec<(String, Value)> = vec![
                ("ccren".into(), Value::Str(vec![fk(&k, vec![("count".into(), Arg::Str(vec![var_n]))])])),
                ("ccfix".into(), Value::Str(vec![fk("ccren", vec![("nn".into(), lit_fix.clone())])])),
                ("ccre".into(), Value::Str(vec![fk("ccren", vec![("nn".into(), Arg::Str(vec![var_m]))])])),
                ("cctwo".into(), Value::Str(Self::finish_pieces(vec![fk(&k, vec![("count".into(), Arg::Str(vec![var_n2]))]), Piece::Text(t1), var_count]))),
                ("cctwolit".into(), Value::Str(vec![fk("cctwo", vec![("count".into(), Arg::U(7))])])),
                ("cclit".into(), Value::Str(Self::finish_pieces(vec![Piece::Text(t2), fk(&k, vec![("count".into(), lit_direct.clone())])]))),
            ];
            if let Some(o) = p.files.get_mut(&(ns.clone(), loc.clone())) {
                for e in entries {
                    let pos = self.t.pick(o.len() + 1);
                    o.insert(pos, e);
                }
            }
        }
    }

    /// a reference to `target` (value in the same locale) with arguments for some of its variables
    pub fn fk_to(&mut self, ns: Option<String>, path: Vec<String>, target: &Value, target_vars: &[String], tag: &str) -> Fk {
        let mut args: Vec<(String, Arg)> = vec![];
        let allow_args = self.cfg.fk_args_through_chain || !value_contains_fk(target);
        if allow_args {
            for v in target_vars.iter().cloned() {
                if v == "count" {
                    continue;
                }
                if self.t.chance(1, 2) {
                    let arg = match self.t.weighted(&[3, 2, 1, 1, 1]) {
                        0 => {
                            let mut txt = sanitize_arg_text(&self.text(tag));
                            // one plain string argument in six holds a lone brace (`"smile :-}"`): text, not syntax
                            if self.t.chance(1, 6) {
                                txt.push_str(*self.t.choose(&[" :-}", " {", "} ", " a } b { c"]));
                            }
                            Arg::Str(vec![Piece::Text(txt)])
                        }
                        1 => {
                            // interpolated string argument
                            let mut p = vec![Piece::Text(sanitize_arg_text(&self.text(tag)))];
                            let nv = format!("{}_arg", v);
                            p.push(self.var_piece(&nv));
                            Arg::Str(normalize_pieces(p))
                        }
                        2 => Arg::U(self.t.range(0, 100) as u64),
                        3 => Arg::B(self.t.coin()),
                        _ => Arg::I(-(self.t.range(1, 100) as i64)),
                    };
                    args.push((v, arg));
                }
            }
            // count argument for ranges / plurals
            match target {
                Value::Range(r) => match self.t.pick(3) {
                    0 => {}
                    1 => {
                        let nv = "renamed_count".to_string();
                        args.push(("count".into(), Arg::Str(vec![self.var_piece(&nv)])));
                    }
                    _ => {
                        // two times in three the literal count sits on or next to a bound of the referenced range
                        // (the parse-time selection must agree with the run-time one exactly there)
                        let specs: Vec<&CountSpec> = r.branches.iter().flat_map(|b| b.specs.iter()).collect();
                        let probes = crate::sem::range_probe_counts(&specs, r.ty);
                        let mut exact_bounds: Vec<Num> = vec![];
                        for sp in &specs {
                            match sp {
                                CountSpec::Exact { v, .. } => exact_bounds.push(*v),
                                CountSpec::Bounds { start, end } => {
                                    if let Some(s) = start {
                                        exact_bounds.push(*s);
                                    }
                                    if let Some((e, _)) = end {
                                        exact_bounds.push(*e);
                                    }
                                }
                            }
                        }
                        // whole numbers written as integer tokens on float ranges are passed as floats here
                        let exact_bounds: Vec<Num> = exact_bounds.into_iter().map(|b| if r.ty.is_float() { Num::Float(crate::sem::bound_f64(&b, r.ty)) } else { b }).collect();
                        let near_bound = if !exact_bounds.is_empty() && self.t.chance(1, 2) {
                            Some(exact_bounds[self.t.pick(exact_bounds.len())])
                        } else if !probes.is_empty() && self.t.chance(2, 3) {
                            Some(probes[self.t.pick(probes.len())])
                        } else {
                            None
                        };
                        let n = match near_bound {
                            Some(Num::Float(f)) => Arg::F(f),
                            Some(Num::Int(v)) if v >= i64::MIN as i128 && v <= u64::MAX as i128 => {
                                if v < 0 {
                                    Arg::I(v as i64)
                                } else {
                                    Arg::U(v as u64)
                                }
                            }
                            _ => {
                                if r.ty.is_float() {
                                    Arg::F(self.float_val(r.ty))
                                } else {
                                    let (lo, hi) = r.ty.min_max();
                                    let v = self.int_in(lo.max(i64::MIN as i128), hi.min(u64::MAX as i128));
                                    if v < 0 {
                                        Arg::I(v as i64)
                                    } else {
                                        Arg::U(v as u64)
                                    }
                                }
                            }
                        };
                        args.push(("count".into(), n));
                    }
                },
                Value::Plural(_) => match self.t.pick(3) {
                    0 => {}
                    1 => {
                        let nv = "renamed_count".to_string();
                        args.push(("count".into(), Arg::Str(vec![self.var_piece(&nv)])));
                    }
                    _ => {
                        if self.t.chance(1, 3) {
                            // decimal literal: the fraction digits matter for the plural category
                            let f = *self.t.choose(&[1.5, 0.5, 1.1, 2.5, 0.1, 10.5, 1.25, 100.75, 1.0, 2.0, 0.0, 21.5, 3.5]);
                            args.push(("count".into(), Arg::F(f)));
                        } else if self.t.chance(1, 6) {
                            // integers that an f64 cannot hold digit for digit (the category must come from the exact integer)
                            let big: i64 = *self.t.choose(&[9007199254741001, 9223372036854775801, 4503599627370497, 1000000000000000021, 9007199254740993, 100000000000000011, -9007199254741001, -1000000000000000002]);
                            args.push(("count".into(), if big < 0 { Arg::I(big) } else { Arg::U(big as u64) }));
                        } else {
                            let v = self.t.range(0, 120) as u64;
                            args.push(("count".into(), Arg::U(v)));
                        }
                    }
                },
                _ => {}
            }
        }
        Fk {
            ns,
            path,
            args,
            ws: [self.ws(), self.ws(), self.ws(), self.ws()],
        }
    }
}

/// text inside a `$t` argument object: additionally no `,`/`)` issues arise (the object is
/// brace-delimited) but braces are already excluded; keep as is
pub fn sanitize_arg_text(s: &str) -> String {
    sanitize_text(s)
}

/// source of fresh key names for one namespace (a permutation of the pool)
pub struct NameSrc {
    order: Vec<usize>,
    next: usize,
    pub hyphen: bool,
}

impl NameSrc {
    pub fn new(t: &mut Tape) -> Self {
        NameSrc {
            order: t.permutation(KEY_POOL.len()),
            next: 0,
            hyphen: false,
        }
    }
    pub fn next(&mut self, _t: &mut Tape) -> String {
        let i = self.next;
        self.next += 1;
        if i < self.order.len() {
            let n = KEY_POOL[self.order[i]].to_string();
            if self.hyphen {
                n.replace('_', "-")
            } else {
                n
            }
        } else {
            format!("gen_key{}", i)
        }
    }
}

// ------------------------------------------------------------------------------------------
// C03: the enumerated 4-locale domain as one project per inherits map

pub const C03_LOCALES: [&str; 4] = ["en", "fr", "de", "es"];

/// C08 on the enumerated 4-locale domain: as `c06_project_for_map`, but every locale names its variables
/// and components after itself (`name_fr`, `<b_fr>`), so that the member set a key requires tells from
/// which locale each value was taken; references with a `name` argument are left out.
pub fn c08_project_for_map(map: [usize; 3]) -> Project {
    let mut p = c06_project_for_map(map);
    fn rename(pieces: &mut Vec<Piece>, loc: &str) {
        let suffix = loc.replace('-', "_");
        for x in pieces.iter_mut() {
            match x {
                Piece::Var { name, .. } if name != "count" => *name = format!("{name}_{suffix}"),
                Piece::Comp { name, children, .. } => {
                    *name = format!("{name}_{suffix}");
                    rename(children, loc);
                }
                _ => {}
            }
        }
    }
    fn walk(o: &mut Obj, loc: &str) {
        o.retain(|(k, _)| !k.starts_with("rb"));
        for (_, v) in o.iter_mut() {
            match v {
                Value::Str(pc) => {
                    rename(pc, loc);
                    // one component per interpolated value, named after the locale as well
                    if pc.iter().any(|x| matches!(x, Piece::Var { .. })) {
                        pc.push(Piece::Comp {
                            name: format!("b_{}", loc.replace('-', "_")),
                            ws: [String::new(), String::new(), String::new(), String::new()],
                            children: vec![Piece::Text("!".into())],
                        });
                    }
                }
                Value::Range(r) => r.branches.iter_mut().for_each(|b| rename(&mut b.body, loc)),
                Value::Plural(pl) => pl.forms.iter_mut().for_each(|(_, b)| rename(b, loc)),
                Value::Sub(inner) => walk(inner, loc),
                _ => {}
            }
        }
    }
    for ((_, loc), obj) in p.files.iter_mut() {
        walk(obj, loc);
    }
    p
}

/// C06 on the enumerated 4-locale domain: the C03 project of an inherits map (every presence pattern of
/// every key kind) plus, per presence pattern, keys that *reference* those targets: plain, with a string
/// argument, through a subkey path, a range with a literal and with a run-time count, a plural with a
/// literal count, a reference to a reference, and a reference key that is itself `null` in two locales.
/// A locale in which the target is absent does not write the reference (then the reference key is
/// defaulted there like any other key).
pub fn c06_project_for_map(map: [usize; 3]) -> Project {
    let mut p = c03_project_for_map(map);
    fn fk(path: &[&str], args: Vec<(String, Arg)>) -> Piece {
        Piece::Fk(Fk {
            ns: None,
            path: path.iter().map(|s| s.to_string()).collect(),
            args,
            ws: [String::new(), String::new(), String::new(), String::new()],
        })
    }
    fn t(s: &str) -> Piece {
        Piece::Text(s.to_string())
    }
    for (li, loc) in C03_LOCALES.iter().enumerate() {
        let obj = p.files.get_mut(&(None, loc.to_string())).unwrap();
        for pr in 0..27usize {
            let presence = [pr % 3, (pr / 3) % 3, pr / 9];
            let pres = if li == 0 { 0 } else { presence[li - 1] };
            if pres == 2 {
                continue;
            }
            let k0 = format!("p{pr}_k0");
            let k1 = format!("p{pr}_k1");
            let k2 = format!("p{pr}_k2");
            let k3 = format!("p{pr}_k3");
            let gl = format!("gl{pr}");
            let ra = format!("ra{pr}");
            obj.push((ra.clone(), Value::Str(vec![t(&format!("ra@{loc}<")), fk(&[&k0], vec![]), t(">")])));
            obj.push((
                format!("rb{pr}"),
                Value::Str(vec![fk(&[&k1], vec![("name".to_string(), Arg::Str(vec![t(&format!("N@{loc}"))]))]), t(&format!(".rb@{loc}"))]),
            ));
            obj.push((format!("rc{pr}"), Value::Str(vec![t(&format!("rc@{loc} ")), fk(&[&gl, "leaf"], vec![])])));
            obj.push((format!("rd{pr}"), Value::Str(vec![fk(&[&k2], vec![("count".to_string(), Arg::U(0))]), t(&format!(" rd@{loc}"))])));
            obj.push((format!("re{pr}"), Value::Str(vec![t(&format!("re@{loc} ")), fk(&[&k2], vec![])])));
            obj.push((format!("rf{pr}"), Value::Str(vec![t(&format!("rf@{loc} ")), fk(&[&k3], vec![("count".to_string(), Arg::U(1))])])));
            // count 0 is `one` in fr and `other` in en / de / es: the form must follow the referencing locale,
            // also where the plural is null there and found in another locale
            obj.push((format!("rg{pr}"), Value::Str(vec![t(&format!("rg@{loc} ")), fk(&[&k3], vec![("count".to_string(), Arg::U(0))])])));
            obj.push((format!("rr{pr}"), Value::Str(vec![t("["), fk(&[&ra], vec![]), t(&format!("]rr@{loc}"))])));
            // the reference key itself is null in the second and the fourth locale
            let rn = format!("rn{pr}");
            if li == 1 || li == 3 {
                obj.push((rn, Value::Null));
            } else {
                obj.push((rn, Value::Str(vec![t(&format!("rn@{loc}:")), fk(&[&k0], vec![])])));
            }
        }
        // references that run in opposite directions in two locales: for each non-default locale T, `bd<T>` is
        // `$t(bs<T>) ..` and `bs<T>` plain everywhere, except in T where `bs<T>` is `.. $t(bd<T>)` and `bd<T>` is null.
        // Resolving `bs<T>` in T leaves T through the null (to the locale it inherits from, or the default) and
        // meets the key path `bs<T>` again, in another locale; `de` is loaded before every locale it can fall back to.
        for turned in &C03_LOCALES[1..] {
            let bs = format!("bs{turned}");
            let bd = format!("bd{turned}");
            if loc == turned {
                obj.push((bs.clone(), Value::Str(vec![t(&format!("bs@{loc} ")), fk(&[&bd], vec![])])));
                obj.push((bd, Value::Null));
            } else {
                obj.push((bs.clone(), Value::Str(vec![t(&format!("bs@{loc}"))])));
                obj.push((bd, Value::Str(vec![fk(&[&bs], vec![]), t(&format!(" bd@{loc}"))])));
            }
        }
    }
    p
}

/// One project for the inherits map `map` (entry i: locale i+1 inherits 0 = nothing, 1..=4 = that
/// locale incl. itself): for each of the 27 presence patterns {defined, null, absent}^3 and each of
/// 6 value kinds there is one key (or group) named after the pattern.
pub fn c03_project_for_map(map: [usize; 3]) -> Project {
    fn text(s: &str) -> Vec<Piece> {
        vec![Piece::Text(s.to_string())]
    }
    fn var(name: &str) -> Piece {
        Piece::Var {
            name: name.to_string(),
            ws: [" ".into(), " ".into()],
            fmt: None,
        }
    }
    fn value_of(kind: usize, tag: &str) -> Value {
        match kind {
            0 => Value::Str(text(&format!("plain@{tag}"))),
            1 => Value::Str(vec![Piece::Text(format!("hi@{tag} ")), var("name"), Piece::Text("!".into())]),
            2 => Value::Range(RangeDecl {
                ty: RangeTy::I32,
                ty_written: false,
                branches: vec![
                    Branch {
                        specs: vec![CountSpec::Exact { v: Num::Int(0), as_number: false }],
                        body: text(&format!("none@{tag}")),
                        syntax: 0,
                        fallback_spelling: 0,
                        ws: 0,
                    },
                    Branch {
                        specs: vec![],
                        body: vec![Piece::Text(format!("many@{tag} ")), var("count")],
                        syntax: 0,
                        fallback_spelling: 1,
                        ws: 0,
                    },
                ],
            }),
            _ => Value::Plural(PluralDecl {
                ordinal: false,
                forms: vec![(Form::One, text(&format!("one@{tag}"))), (Form::Other, vec![var("count"), Piece::Text(format!(" others@{tag}"))])],
            }),
        }
    }
    let locales: Vec<String> = C03_LOCALES.iter().map(|s| s.to_string()).collect();
    let mut inherits = BTreeMap::new();
    for (i, m) in map.iter().enumerate() {
        if *m > 0 {
            inherits.insert(C03_LOCALES[i + 1].to_string(), C03_LOCALES[*m - 1].to_string());
        }
    }
    let mut files = BTreeMap::new();
    for (li, loc) in C03_LOCALES.iter().enumerate() {
        let mut obj: Obj = vec![("ctl".to_string(), Value::Str(text(&format!("ctl@{loc}"))))];
        for pr in 0..27usize {
            let presence = [pr % 3, (pr / 3) % 3, pr / 9];
            let pres = if li == 0 { 0 } else { presence[li - 1] };
            for kind in 0..4usize {
                let key = format!("p{pr}_k{kind}");
                let tag = format!("{loc}:{key}");
                match pres {
                    0 => obj.push((key, value_of(kind, &tag))),
                    1 => obj.push((key, Value::Null)),
                    _ => {}
                }
            }
            // a leaf inside a group every locale has
            let mut g: Obj = vec![("stay".into(), Value::Str(text(&format!("stay@{loc}:gl{pr}"))))];
            match pres {
                0 => g.push(("leaf".into(), value_of(1, &format!("{loc}:gl{pr}.leaf")))),
                1 => g.push(("leaf".into(), Value::Null)),
                _ => {}
            }
            obj.push((format!("gl{pr}"), Value::Sub(g)));
            // a whole group defined / null / absent
            match pres {
                0 => obj.push((
                    format!("gg{pr}"),
                    Value::Sub(vec![
                        ("leaf".into(), value_of(1, &format!("{loc}:gg{pr}.leaf"))),
                        ("deep".into(), Value::Sub(vec![("x".into(), value_of(0, &format!("{loc}:gg{pr}.deep.x")))])),
                    ]),
                )),
                1 => obj.push((format!("gg{pr}"), Value::Null)),
                _ => {}
            }
        }
        files.insert((None, loc.to_string()), obj);
    }
    Project {
        locales,
        inherits,
        namespaces: None,
        locales_dir: "locales".into(),
        files,
    }
}
