//! Abstract project model: what a set of translation files *says*, independent of how it is spelt.
//! Files are printed from this AST (ser.rs) and the expected behaviour is computed from this AST
//! (sem.rs); nothing here parses translation strings.

use std::collections::BTreeMap;

#[derive(Clone, Debug, PartialEq)]
pub enum Piece {
    Text(String),
    /// `{{ name }}` / `{{ name, formatter }}`; ws = whitespace after `{{` and before `}}`
    Var {
        name: String,
        ws: [String; 2],
        fmt: Option<FmtSpec>,
    },
    /// `<name>children</name>`; ws = after `<`, before `>`, after `</`, before the closing `>`
    Comp {
        name: String,
        ws: [String; 4],
        children: Vec<Piece>,
    },
    /// `$t(ns:a.b, {"x": ...})`
    Fk(Fk),
}

#[derive(Clone, Debug, PartialEq)]
pub struct Fk {
    pub ns: Option<String>,
    pub path: Vec<String>,
    pub args: Vec<(String, Arg)>,
    /// whitespace: around the path (2), before the args object, before `)`
    pub ws: [String; 4],
}

#[derive(Clone, Debug, PartialEq)]
pub enum Arg {
    Str(Vec<Piece>),
    U(u64),
    I(i64),
    F(f64),
    B(bool),
}

/// formatter as written: name + `(k: v; k: v)` arguments, with the text to print
#[derive(Clone, Debug, PartialEq)]
pub struct FmtSpec {
    pub name: String,
    pub args: Vec<(String, String)>,
    /// exact text written after the comma (whitespace variants included)
    pub text: String,
}

#[derive(Clone, Copy, Debug, PartialEq, Eq, PartialOrd, Ord, Hash)]
pub enum RangeTy {
    I8,
    I16,
    I32,
    I64,
    U8,
    U16,
    U32,
    U64,
    F32,
    F64,
}

pub const ALL_RANGE_TYS: [RangeTy; 10] = [
    RangeTy::I32,
    RangeTy::I8,
    RangeTy::I16,
    RangeTy::I64,
    RangeTy::U8,
    RangeTy::U16,
    RangeTy::U32,
    RangeTy::U64,
    RangeTy::F32,
    RangeTy::F64,
];

impl RangeTy {
    pub fn name(self) -> &'static str {
        match self {
            RangeTy::I8 => "i8",
            RangeTy::I16 => "i16",
            RangeTy::I32 => "i32",
            RangeTy::I64 => "i64",
            RangeTy::U8 => "u8",
            RangeTy::U16 => "u16",
            RangeTy::U32 => "u32",
            RangeTy::U64 => "u64",
            RangeTy::F32 => "f32",
            RangeTy::F64 => "f64",
        }
    }
    pub fn is_float(self) -> bool {
        matches!(self, RangeTy::F32 | RangeTy::F64)
    }
    pub fn min_max(self) -> (i128, i128) {
        match self {
            RangeTy::I8 => (i8::MIN as i128, i8::MAX as i128),
            RangeTy::I16 => (i16::MIN as i128, i16::MAX as i128),
            RangeTy::I32 => (i32::MIN as i128, i32::MAX as i128),
            RangeTy::I64 => (i64::MIN as i128, i64::MAX as i128),
            RangeTy::U8 => (0, u8::MAX as i128),
            RangeTy::U16 => (0, u16::MAX as i128),
            RangeTy::U32 => (0, u32::MAX as i128),
            RangeTy::U64 => (0, u64::MAX as i128),
            RangeTy::F32 | RangeTy::F64 => (0, 0),
        }
    }
}

/// a number in a range declaration / a count: ints exact in i128, floats in f64 (f32 ranges hold
/// values that are exactly representable as f32)
#[derive(Clone, Copy, Debug, PartialEq)]
pub enum Num {
    Int(i128),
    Float(f64),
}

impl Num {
    pub fn as_f64(self) -> f64 {
        match self {
            Num::Int(i) => i as f64,
            Num::Float(f) => f,
        }
    }
}

#[derive(Clone, Debug, PartialEq)]
pub enum CountSpec {
    /// exact value; `as_number` = written as a JSON number instead of a string
    Exact { v: Num, as_number: bool },
    /// `a..b`, `a..=b`, `a..`, `..b`, `..=b`
    Bounds {
        start: Option<Num>,
        end: Option<(Num, bool)>, // (value, inclusive)
    },
}

#[derive(Clone, Debug, PartialEq)]
pub struct Branch {
    /// empty = fallback
    pub specs: Vec<CountSpec>,
    pub body: Vec<Piece>,
    /// 0: `[body, c1, c2]` sequence; 1: `{"count": .., "value": ..}` map; 2: sequence with `a | b` joined
    pub syntax: u8,
    /// fallback spelling: 0 `[body]`, 1 `[body, "_"]`, 2 `[body, ".."]`, 3 `{"value": body}`
    pub fallback_spelling: u8,
    /// whitespace seed for the count strings
    pub ws: u8,
}

#[derive(Clone, Debug, PartialEq)]
pub struct RangeDecl {
    pub ty: RangeTy,
    /// whether the type is written (`false` only allowed for i32)
    pub ty_written: bool,
    pub branches: Vec<Branch>,
}

#[derive(Clone, Copy, Debug, PartialEq, Eq, PartialOrd, Ord, Hash)]
pub enum Form {
    Zero,
    One,
    Two,
    Few,
    Many,
    Other,
}

pub const FORMS: [Form; 6] = [Form::Zero, Form::One, Form::Two, Form::Few, Form::Many, Form::Other];

impl Form {
    pub fn suffix(self) -> &'static str {
        match self {
            Form::Zero => "zero",
            Form::One => "one",
            Form::Two => "two",
            Form::Few => "few",
            Form::Many => "many",
            Form::Other => "other",
        }
    }
}

#[derive(Clone, Debug, PartialEq)]
pub struct PluralDecl {
    pub ordinal: bool,
    /// always contains `Other`; order = order in which the sibling keys are written
    pub forms: Vec<(Form, Vec<Piece>)>,
}

#[derive(Clone, Debug, PartialEq)]
pub enum Value {
    Null,
    Bool(bool),
    U(u64),
    I(i64),
    F(f64),
    Str(Vec<Piece>),
    Range(RangeDecl),
    Plural(PluralDecl),
    Sub(Obj),
}

/// object in file order
pub type Obj = Vec<(String, Value)>;

#[derive(Clone, Debug, PartialEq)]
pub struct Project {
    /// default first
    pub locales: Vec<String>,
    pub inherits: BTreeMap<String, String>,
    pub namespaces: Option<Vec<String>>,
    pub locales_dir: String,
    /// (namespace, locale) -> file content
    pub files: BTreeMap<(Option<String>, String), Obj>,
}

impl Project {
    pub fn default_locale(&self) -> &str {
        &self.locales[0]
    }
    pub fn file(&self, ns: Option<&str>, locale: &str) -> Option<&Obj> {
        self.files.get(&(ns.map(|s| s.to_string()), locale.to_string()))
    }
    pub fn ns_list(&self) -> Vec<Option<String>> {
        match &self.namespaces {
            None => vec![None],
            Some(v) => v.iter().cloned().map(Some).collect(),
        }
    }
}

pub fn obj_get<'a>(obj: &'a Obj, key: &str) -> Option<&'a Value> {
    obj.iter().find(|(k, _)| k == key).map(|(_, v)| v)
}

pub fn obj_get_mut<'a>(obj: &'a mut Obj, key: &str) -> Option<&'a mut Value> {
    obj.iter_mut().find(|(k, _)| k == key).map(|(_, v)| v)
}

/// merge adjacent Text pieces, drop empty ones (keeps the AST canonical)
pub fn normalize_pieces(pieces: Vec<Piece>) -> Vec<Piece> {
    let mut out: Vec<Piece> = vec![];
    for p in pieces {
        match p {
            Piece::Text(s) => {
                if s.is_empty() {
                    continue;
                }
                if let Some(Piece::Text(last)) = out.last_mut() {
                    last.push_str(&s);
                } else {
                    out.push(Piece::Text(s));
                }
            }
            Piece::Comp { name, ws, children } => out.push(Piece::Comp {
                name,
                ws,
                children: normalize_pieces(children),
            }),
            other => out.push(other),
        }
    }
    out
}

/// rendered output, normalised: adjacent texts merged, empty texts dropped
#[derive(Clone, Debug, PartialEq, Eq)]
pub enum Node {
    Text(String),
    Elem(String, Vec<Node>),
}

pub type Tree = Vec<Node>;

pub fn normalize_tree(t: Tree) -> Tree {
    let mut out: Tree = vec![];
    for n in t {
        match n {
            Node::Text(s) => {
                if s.is_empty() {
                    continue;
                }
                if let Some(Node::Text(last)) = out.last_mut() {
                    last.push_str(&s);
                } else {
                    out.push(Node::Text(s));
                }
            }
            Node::Elem(name, ch) => out.push(Node::Elem(name, normalize_tree(ch))),
        }
    }
    out
}

pub fn tree_to_string(t: &Tree) -> String {
    let mut s = String::new();
    for n in t {
        match n {
            Node::Text(x) => s.push_str(x),
            Node::Elem(name, ch) => {
                s.push('\u{E000}');
                s.push_str(name);
                s.push('\u{E001}');
                s.push_str(&tree_to_string(ch));
                s.push('\u{E002}');
            }
        }
    }
    s
}

/// parse the sentinel encoding written by string back-ends (`\u{E000}name\u{E001}..\u{E002}`)
pub fn tree_from_sentinels(s: &str) -> Option<Tree> {
    fn inner(chars: &mut std::iter::Peekable<std::str::Chars>, top: bool) -> Option<Tree> {
        let mut out = vec![];
        let mut cur = String::new();
        loop {
            match chars.peek().copied() {
                None => {
                    if !top {
                        return None;
                    }
                    break;
                }
                Some('\u{E002}') => {
                    if top {
                        return None;
                    }
                    chars.next();
                    break;
                }
                Some('\u{E000}') => {
                    chars.next();
                    if !cur.is_empty() {
                        out.push(Node::Text(std::mem::take(&mut cur)));
                    }
                    let mut name = String::new();
                    loop {
                        match chars.next()? {
                            '\u{E001}' => break,
                            c => name.push(c),
                        }
                    }
                    let ch = inner(chars, false)?;
                    out.push(Node::Elem(name, ch));
                }
                Some(c) => {
                    chars.next();
                    cur.push(c);
                }
            }
        }
        if !cur.is_empty() {
            out.push(Node::Text(cur));
        }
        Some(out)
    }
    let mut it = s.chars().peekable();
    inner(&mut it, true).map(normalize_tree)
}
