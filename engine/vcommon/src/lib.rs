pub mod ctx;
pub mod gen;
pub mod model;
pub mod sem;
pub mod ser;
pub mod tape;
