//! C20, second stage: `leptos_i18n_build` linked on its own (nothing else in the build enables features of
//! `leptos_i18n_parser`), the way an xtask or a stand-alone build tool links it. The helper must read a project
//! exactly as the macro does, so `get_icu_keys()` must be the keys of the families the reference semantics needs.

use std::collections::BTreeSet;
use std::path::{Path, PathBuf};

use serde_json::json;
use vcommon::ctx::{hash_str, CaseInfo, CaseResult, Ctx, Failure};
use vcommon::gen::{Gen, GenCfg};
use vcommon::sem::{expected_errors, needed_icu_options, Sem};
use vcommon::ser::{self, Format, Style};
use vcommon::tape::Tape;

fn scratch() -> PathBuf {
    let shm = Path::new("/dev/shm");
    let base = if shm.is_dir() { shm.to_path_buf() } else { PathBuf::from("/verif/work") };
    base.join(format!("verif-lb-{}", std::process::id()))
}

fn fail(sig: &str, detail: serde_json::Value) -> Failure {
    Failure { signature: sig.into(), detail }
}

/// registered ICU4X 1.5 names of the data markers each family's constructors need; for datetime only the
/// calendar-independent ones and the Gregorian calendar are required, further `datetime/` / `calendar/` keys are allowed
fn required(fam: &str) -> &'static [&'static str] {
    match fam {
        "plurals" => &["plurals/cardinal@1", "plurals/ordinal@1"],
        "number" => &["decimal/symbols@1"],
        "list" => &["list/and@1", "list/or@1", "list/unit@1"],
        "datetime" => &["datetime/timesymbols@1", "datetime/timelengths@1", "datetime/gregory/datelengths@1", "datetime/gregory/datesymbols@1", "datetime/week_data@1", "decimal/symbols@1", "plurals/ordinal@1"],
        _ => &["currency/essentials@1", "decimal/symbols@1"],
    }
}

fn key_name(k: &str) -> String {
    // Debug of DataKey: `DataKey{decimal/symbols@1}`
    k.trim_start_matches("DataKey{").trim_end_matches('}').to_string()
}

fn judge(dir: &Path, needed: &BTreeSet<String>, what: serde_json::Value) -> Result<u64, Failure> {
    let d2 = dir.to_path_buf();
    let r = std::panic::catch_unwind(move || leptos_i18n_build::TranslationsInfos::parse_at_dir(d2).map(|i| i.get_icu_keys().map(|k| key_name(&format!("{:?}", k))).collect::<BTreeSet<String>>()).map_err(|e| e.to_string()));
    let actual = match r {
        Err(_) => return Err(fail("build-helper-panic", json!({"project": what}))),
        Ok(Err(e)) => return Err(fail("build-helper-rejects-valid-project", json!({"error": e, "project": what}))),
        Ok(Ok(a)) => a,
    };
    let mut must: BTreeSet<String> = BTreeSet::new();
    for f in needed {
        must.extend(required(f).iter().map(|s| s.to_string()));
    }
    let missing: Vec<&String> = must.difference(&actual).collect();
    if !missing.is_empty() {
        return Err(fail("icu-keys-missing", json!({"needed_families": needed, "missing": missing, "actual": actual, "project": what})));
    }
    let datetime = needed.contains("datetime");
    let extra: Vec<&String> = actual.difference(&must).filter(|k| !(datetime && (k.starts_with("datetime/") || k.starts_with("calendar/")))).collect();
    if !extra.is_empty() {
        return Err(fail("icu-keys-unneeded", json!({"needed_families": needed, "unneeded": extra, "actual": actual, "project": what})));
    }
    Ok(2)
}

fn cfg(t: &mut Tape) -> GenCfg {
    let plural_w = if t.chance(1, 3) { 2 } else { 0 };
    let fmt = t.chance(1, 2);
    GenCfg {
        locales: (1, 4),
        p_namespaces: 40,
        keys: (1, 7),
        sub_depth: 2,
        w_kinds: [4, 5, 1, 1, plural_w, 3, 3],
        p_null: 8,
        p_absent: 8,
        p_kind_varies: 25,
        p_inherits: 25,
        max_pieces: 4,
        max_comp_depth: 2,
        formatters: fmt,
        p_formatter: 10,
        p_surplus: 35,
        fk_to_null: true,
        ..GenCfg::default()
    }
}

fn case(t: &mut Tape, root: &Path) -> CaseResult {
    let c = cfg(t);
    let mut g = Gen::new(t, c);
    let p = g.project();
    let sem = Sem::new(&p);
    if !expected_errors(&p, &sem).is_empty() {
        return Ok(CaseInfo { hash: hash_str("invalid"), nontrivial: false, classes: vec!["generated-project-invalid(skipped)".into()], sample: None, observations: 0 });
    }
    let needed = needed_icu_options(&p, &sem);
    let dir = root.join("p");
    let _ = std::fs::remove_dir_all(&dir);
    ser::write_project(&p, &dir, &Style::plain(Format::Json)).map_err(|e| fail("harness-io", json!({"e": e.to_string()})))?;
    let pj = ser::project_to_json(&p);
    let obs = judge(&dir, &needed, pj.clone())?;
    let mut classes: Vec<String> = needed.iter().map(|f| format!("needs:{f}")).collect();
    if needed.is_empty() {
        classes.push("needs-nothing".into());
    }
    Ok(CaseInfo { hash: hash_str(&pj.to_string()), nontrivial: !needed.is_empty(), classes, sample: Some(json!({"needed": needed, "project": pj})), observations: obs })
}

/// files the macro reads as plain text / ordinary keys because a name is not an identifier: the helper must agree
const AGREEMENT: &[(&str, &str, &[&str])] = &[
    ("plural-forms-without-base", r#"{"_one": "first", "_other": "anything else", "greeting": "hello"}"#, &[]),
    ("plural-forms-underscore-base", r#"{"__one": "a", "__other": "b", "-_one": "c", "-_other": "d"}"#, &[]),
    ("not-a-variable-name", r#"{"k": "{{ a b, number }} and {{ 1x, currency }}"}"#, &[]),
    ("not-a-component-name", r#"{"k": "<a b>{{ n, number }}</a b>"}"#, &["number"]),
    ("real-plural-next-to-lookalike", r#"{"_one": "x", "_other": "y", "items_one": "one", "items_other": "{{ count }}"}"#, &["plurals"]),
    ("control-plain", r#"{"k": "v"}"#, &[]),
    ("control-currency", r#"{"k": "{{ p, currency }}"}"#, &["currency"]),
];

fn run_agreement(ctx: &mut Ctx, root: &Path) {
    for (name, content, fams) in AGREEMENT {
        let dir = root.join("agree");
        let _ = std::fs::remove_dir_all(&dir);
        let _ = std::fs::create_dir_all(dir.join("locales"));
        let _ = std::fs::write(dir.join("Cargo.toml"), "[package]\nname = \"x\"\n[package.metadata.leptos-i18n]\ndefault = \"en\"\nlocales = [\"en\"]\n");
        let _ = std::fs::write(dir.join("locales/en.json"), content);
        let needed: BTreeSet<String> = fams.iter().map(|s| s.to_string()).collect();
        match judge(&dir, &needed, json!({"name": name, "en.json": content})) {
            Ok(obs) => ctx.record(CaseInfo { hash: hash_str(name), nontrivial: true, classes: vec!["macro-helper-agreement-input".into()], sample: Some(json!({"name": name, "en.json": content, "needed": needed})), observations: obs }),
            Err(mut f) => {
                f.signature = format!("helper-disagrees-with-macro:{}", f.signature);
                ctx.fail("lb-agreement", None, &f);
            }
        }
    }
}

fn main() {
    std::panic::set_hook(Box::new(|_| {}));
    let prop = std::env::args().nth(1).unwrap_or_default();
    if prop != "C20" {
        eprintln!("harness error: unknown property {prop:?}");
        std::process::exit(2);
    }
    let mut ctx = Ctx::from_env(&prop);
    let root = scratch();
    let _ = std::fs::create_dir_all(&root);
    if let Some(path) = ctx.replay.clone() {
        if Ctx::replay_engine(&path).as_deref() == Some("lb-agreement") {
            run_agreement(&mut ctx, &root);
        } else {
            ctx.replay_tape("lb", &path, |t| case(t, &root));
        }
    } else {
        run_agreement(&mut ctx, &root);
        let cases = ctx.tier.scale(1500, 40000);
        ctx.run_tapes("lb", cases, 400, |t| case(t, &root));
    }
    let _ = std::fs::remove_dir_all(&root);
    ctx.finish(
        "the build helper linked on its own (no other crate of the build enables features of leptos_i18n_parser): generated projects as in \
         stage 1, plus fixed inputs whose names the macro does not accept as identifiers (plural forms without a base name, `{{ a b, number }}`, \
         `<a b>`): TranslationsInfos::get_icu_keys() must hold the registered ICU4X 1.5 names of the data markers of every family the \
         reference semantics needs (hand table, independent of Options::into_data_keys) and nothing else (further datetime/ and calendar/ \
         keys are allowed when datetime is needed). non-trivial = at least one family needed, or an agreement input; distinct = hash of the project",
        &["projects the reference semantics rejects are skipped (counted as trivial)"],
        20,
    )
}
