//! C18 — formatters apply the declared options for the locale being rendered.
//!
//! Engines
//!   * `parse`  (exhaustive loops): every formatter name x every state of every argument
//!     {omitted, each valid value, unknown value, wrong-case value, misspelt argument name,
//!     duplicated, unknown value followed by a valid one} x argument order x unknown extra arguments
//!     x whitespace variants, through `Formatter::from_name_and_args` and through the string form
//!     `ParsedValue::new("{{ v, name(args) }}")`; oracle = model of the documented defaults.
//!   * `macro`  (exhaustive, static): the complete option matrix written with the real macros
//!     (`td_format_string!`, `td_format_display!`, and `td_string!` / `td_display!` on a
//!     `declare_locales!` project) x 8 locales; oracle = freshly built ICU4X formatter.
//!   * `matrix` (exhaustive loops, in process): `__private::format_*_to_display / _to_formatter /
//!     _to_view` for every formatter x option combination x 8 locales x a value pool; oracle = fresh ICU4X.
//!   * `seq`    (generated): call histories (<= 60 calls, optionally starting with k <= 8 threads released
//!     by a barrier for concurrent first uses). Each history runs in a *fresh child process* (the
//!     formatter cache is process-global and cannot be reset), so a replay reproduces exactly the
//!     same cache history; oracle = fresh ICU4X for every single call.

use std::collections::BTreeSet;
use std::fmt::{self, Display};
use std::io::{Read, Write};
use std::panic::{catch_unwind, AssertUnwindSafe};
use std::process::{Command, Stdio};
use std::sync::{Arc, Barrier};

use fixed_decimal::{FixedDecimal, FloatPrecision};
use icu_calendar::{AnyCalendar, Date, DateTime, Time};
use icu_datetime::options::length;
use icu_datetime::{DateFormatter, DateTimeFormatter, TimeFormatter};
use icu_decimal::options::{FixedDecimalFormatterOptions, GroupingStrategy};
use icu_decimal::FixedDecimalFormatter;
use icu_experimental::dimension::currency::formatter::{CurrencyCode, CurrencyFormatter};
use icu_experimental::dimension::currency::options::{CurrencyFormatterOptions, Width};
use icu_list::{ListFormatter, ListLength};
use leptos::prelude::*;
use leptos_i18n::Locale as _;
use leptos_i18n::__private as lp;
use leptos_i18n_parser::parse_locales::parsed_value::ParsedValue;
use leptos_i18n_parser::parse_locales::ForeignKeysPaths;
use leptos_i18n_parser::utils::formatter as pf;
use leptos_i18n_parser::utils::{Key, KeyPath};
use serde_json::{json, Value};
use tinystr::TinyAsciiStr;
use vcommon::ctx::{hash_str, CaseInfo, CaseResult, Ctx, Failure};
use vcommon::tape::Tape;
use writeable::Writeable;

// ------------------------------------------------------------------------------------------------
// the locales (a real generated enum) and the static end-to-end keys

macro_rules! declare {
    (keys = $keys:tt; $(($loc:ident, $name:literal)),*) => {
        leptos_i18n::declare_locales! {
            path: leptos_i18n,
            interpolate_display,
            default: "en",
            locales: [$($name),*],
            $($loc: $keys,)*
        }
    };
}

declare! {
    keys = {
        n_default: "{{ v, number }}",
        n_auto: "{{ v, number(grouping_strategy: auto) }}",
        n_never: "{{ v, number(grouping_strategy: never) }}",
        n_always: "{{ v, number(grouping_strategy: always) }}",
        n_min2: "{{ v, number(grouping_strategy: min2) }}",
        n_ws: "{{v,number(grouping_strategy:always)}}",
        n_unknown_arg: "{{ v, number(foo: bar; grouping_strategy: never) }}",
        n_bad_value: "{{ v, number(grouping_strategy: sometimes) }}",
        c_default: "{{ v, currency }}",
        c_narrow_eur: "{{ v, currency(width: narrow; currency_code: EUR) }}",
        c_jpy: "{{ v, currency(currency_code: JPY) }}",
        d_default: "{{ v, date }}",
        d_full: "{{ v, date(date_length: full) }}",
        d_long: "{{ v, date(date_length: long) }}",
        d_medium: "{{ v, date(date_length: medium) }}",
        d_short: "{{ v, date(date_length: short) }}",
        t_default: "{{ v, time }}",
        t_full: "{{ v, time(time_length: full) }}",
        t_long: "{{ v, time(time_length: long) }}",
        t_medium: "{{ v, time(time_length: medium) }}",
        t_short: "{{ v, time(time_length: short) }}",
        dt_default: "{{ v, datetime }}",
        dt_short_full: "{{ v, datetime(date_length: short; time_length: full) }}",
        dt_full_short: "{{ v, datetime(time_length: short; date_length: full) }}",
        dt_long_medium: "{{ v, datetime(date_length: long; time_length: medium) }}",
        dt_time_only: "{{ v, datetime(time_length: long) }}",
        l_default: "{{ v, list }}",
        l_and_wide: "{{ v, list(list_type: and; list_style: wide) }}",
        l_or_short: "{{ v, list(list_type: or; list_style: short) }}",
        l_unit_narrow: "{{ v, list(list_style: narrow; list_type: unit) }}",
        l_and: "{{ v, list(list_type: and) }}",
        l_or_narrow: "{{ v, list(list_type: or; list_style: narrow) }}",
    };
    (en, "en"), (fr, "fr"), (de, "de"), (es, "es"), (ar, "ar"), (ja, "ja"), (hi, "hi"), (ru, "ru")
}

use i18n::Locale;
use leptos_i18n::formatting::{td_format_display, td_format_string};
use leptos_i18n::{td_display, td_string};

const LOCALES: [Locale; 8] = [Locale::en, Locale::fr, Locale::de, Locale::es, Locale::ar, Locale::ja, Locale::hi, Locale::ru];

// ------------------------------------------------------------------------------------------------
// option model (own enums: the oracle never reuses the crate's parsing)

const GS: [&str; 4] = ["auto", "never", "always", "min2"];
const LEN4: [&str; 4] = ["full", "long", "medium", "short"];
const WIDTHS: [&str; 2] = ["short", "narrow"];
const LTYPES: [&str; 3] = ["and", "or", "unit"];
const LSTYLES: [&str; 3] = ["wide", "short", "narrow"];
const CODES: [&str; 4] = ["USD", "EUR", "JPY", "GBP"];

fn gs_icu(i: usize) -> GroupingStrategy {
    [GroupingStrategy::Auto, GroupingStrategy::Never, GroupingStrategy::Always, GroupingStrategy::Min2][i]
}
fn date_icu(i: usize) -> length::Date {
    [length::Date::Full, length::Date::Long, length::Date::Medium, length::Date::Short][i]
}
fn time_icu(i: usize) -> length::Time {
    [length::Time::Full, length::Time::Long, length::Time::Medium, length::Time::Short][i]
}
fn width_icu(i: usize) -> Width {
    [Width::Short, Width::Narrow][i]
}
fn ltype_crate(i: usize) -> lp::ListType {
    [lp::ListType::And, lp::ListType::Or, lp::ListType::Unit][i]
}
fn lstyle_icu(i: usize) -> ListLength {
    [ListLength::Wide, ListLength::Short, ListLength::Narrow][i]
}
fn code_icu(code: &str) -> CurrencyCode {
    CurrencyCode(TinyAsciiStr::from_str(code).expect("3-letter code"))
}

/// options of one formatter call, as indices into the tables above
#[derive(Clone, Debug, PartialEq, Eq, PartialOrd, Ord)]
enum Opts {
    Number { gs: usize },
    Currency { width: usize, code: usize },
    Date { len: usize },
    Time { len: usize },
    DateTime { date: usize, time: usize },
    List { ty: usize, style: usize },
}

// documented defaults
const D_GS: usize = 0; // auto
const D_DATE: usize = 2; // medium
const D_TIME: usize = 3; // short
const D_WIDTH: usize = 0; // short
const D_CODE: usize = 0; // USD
const D_LTYPE: usize = 2; // unit
const D_LSTYLE: usize = 0; // wide

impl Opts {
    fn kind(&self) -> &'static str {
        match self {
            Opts::Number { .. } => "number",
            Opts::Currency { .. } => "currency",
            Opts::Date { .. } => "date",
            Opts::Time { .. } => "time",
            Opts::DateTime { .. } => "datetime",
            Opts::List { .. } => "list",
        }
    }
    fn non_default(&self) -> bool {
        match self {
            Opts::Number { gs } => *gs != D_GS,
            Opts::Currency { width, code } => *width != D_WIDTH || *code != D_CODE,
            Opts::Date { len } => *len != D_DATE,
            Opts::Time { len } => *len != D_TIME,
            Opts::DateTime { date, time } => *date != D_DATE || *time != D_TIME,
            Opts::List { ty, style } => *ty != D_LTYPE || *style != D_LSTYLE,
        }
    }
    /// ICU4X 1.5 cannot build a TimeFormatter / DateTimeFormatter with a `full` or `long` time
    /// (those lengths contain a time-zone field): there is no ICU4X output to compare with
    fn icu_can_build(&self) -> bool {
        match self {
            Opts::Time { len } => *len >= 2,
            Opts::DateTime { time, .. } => *time >= 2,
            _ => true,
        }
    }
    fn describe(&self) -> String {
        match self {
            Opts::Number { gs } => format!("number(grouping_strategy: {})", GS[*gs]),
            Opts::Currency { width, code } => format!("currency(width: {}; currency_code: {})", WIDTHS[*width], CODES[*code]),
            Opts::Date { len } => format!("date(date_length: {})", LEN4[*len]),
            Opts::Time { len } => format!("time(time_length: {})", LEN4[*len]),
            Opts::DateTime { date, time } => format!("datetime(date_length: {}; time_length: {})", LEN4[*date], LEN4[*time]),
            Opts::List { ty, style } => format!("list(list_type: {}; list_style: {})", LTYPES[*ty], LSTYLES[*style]),
        }
    }
    /// the parser crate's value the model expects for these options
    fn to_parser(&self) -> pf::Formatter {
        let gs = [pf::GroupingStrategy::Auto, pf::GroupingStrategy::Never, pf::GroupingStrategy::Always, pf::GroupingStrategy::Min2];
        let dl = [pf::DateLength::Full, pf::DateLength::Long, pf::DateLength::Medium, pf::DateLength::Short];
        let tl = [pf::TimeLength::Full, pf::TimeLength::Long, pf::TimeLength::Medium, pf::TimeLength::Short];
        let w = [pf::CurrencyWidth::Short, pf::CurrencyWidth::Narrow];
        let lt = [pf::ListType::And, pf::ListType::Or, pf::ListType::Unit];
        let ls = [pf::ListStyle::Wide, pf::ListStyle::Short, pf::ListStyle::Narrow];
        match self {
            Opts::Number { gs: i } => pf::Formatter::Number(gs[*i]),
            Opts::Currency { width, code } => {
                pf::Formatter::Currency(w[*width], pf::CurrencyCode(TinyAsciiStr::from_str(CODES[*code]).unwrap()))
            }
            Opts::Date { len } => pf::Formatter::Date(dl[*len]),
            Opts::Time { len } => pf::Formatter::Time(tl[*len]),
            Opts::DateTime { date, time } => pf::Formatter::DateTime(dl[*date], tl[*time]),
            Opts::List { ty, style } => pf::Formatter::List(lt[*ty], ls[*style]),
        }
    }
}

// ------------------------------------------------------------------------------------------------
// values

#[derive(Clone, Debug, PartialEq)]
enum Num {
    I(i64),
    U(u64),
    F(f64),
    /// FixedDecimal::from(mantissa).multiplied_pow10(pow)
    Dec(i64, i16),
}

const NUMS: &[Num] = &[
    Num::I(0),
    Num::I(7),
    Num::I(999),
    Num::I(1000),
    Num::I(1234),
    Num::I(12345),
    Num::I(1234567),
    Num::I(-1234567),
    Num::U(u64::MAX),
    Num::I(i64::MIN),
    Num::F(2000.5),
    Num::F(0.001),
    Num::F(-1234.5678),
    // whole numbers that only a float holds: the documented conversion prints the shortest digits, not the exact integer
    Num::F(9223372036854775808.0),
    Num::F(36028797018963968.0),
    Num::F(-72057594037927952.0),
    Num::F(1e21),
    Num::F(9007199254740993.0),
    Num::Dec(200050, -2),
    Num::Dec(1, 6),
    Num::Dec(-5, -3),
];
const DATES: &[(i32, u8, u8)] = &[(1970, 1, 2), (2024, 2, 29), (1999, 12, 31), (2023, 7, 4), (1, 1, 1)];
const TIMES: &[(u8, u8, u8)] = &[(14, 34, 28), (0, 0, 0), (23, 59, 59), (9, 5, 0), (12, 0, 0)];
const LISTS: &[&[&str]] = &[&[], &["A"], &["A", "B"], &["A", "B", "C"], &["x", "y & z", "<w>", "v"], &["один", "два", "три"]];

impl Num {
    fn to_fd(&self) -> FixedDecimal {
        match self {
            Num::I(v) => FixedDecimal::from(*v),
            Num::U(v) => FixedDecimal::from(*v),
            // the documented conversion for floats (book: `try_from_f64` with the floating precision)
            Num::F(v) => FixedDecimal::try_from_f64(*v, FloatPrecision::Floating).expect("finite"),
            Num::Dec(m, p) => FixedDecimal::from(*m).multiplied_pow10(*p),
        }
    }
}

fn mk_date(d: (i32, u8, u8)) -> Date<AnyCalendar> {
    Date::try_new_iso_date(d.0, d.1, d.2).expect("valid date").to_any()
}
fn mk_time(t: (u8, u8, u8)) -> Time {
    Time::try_new(t.0, t.1, t.2, 0).expect("valid time")
}

#[derive(Clone, Copy, Debug, PartialEq)]
enum Val {
    Num(usize),
    Date(usize),
    Time(usize),
    DateTime(usize, usize),
    List(usize),
}

#[derive(Clone, Debug, PartialEq)]
struct Step {
    opts: Opts,
    locale: usize,
    val: Val,
    /// 0 = *_to_display, 1 = *_to_formatter, 2 = *_to_view (main thread only)
    flavour: u8,
}

fn step_json(s: &Step) -> Value {
    let val = match &s.val {
        Val::Num(i) => format!("{:?}", NUMS[*i]),
        Val::Date(i) => format!("date{:?}", DATES[*i]),
        Val::Time(i) => format!("time{:?}", TIMES[*i]),
        Val::DateTime(d, t) => format!("datetime{:?}{:?}", DATES[*d], TIMES[*t]),
        Val::List(i) => format!("{:?}", LISTS[*i]),
    };
    let flavour = ["format_*_to_display", "format_*_to_formatter", "format_*_to_view"][s.flavour as usize];
    json!({
        "formatter": s.opts.describe(),
        "locale": LOCALES[s.locale].as_str(),
        "value": val,
        "flavour": flavour,
    })
}

// ------------------------------------------------------------------------------------------------
// oracle: a freshly constructed ICU4X formatter

fn icu_expected(s: &Step) -> Result<String, String> {
    let icu_locale = LOCALES[s.locale].as_icu_locale();
    let dl = icu_provider::DataLocale::from(icu_locale);
    match (&s.opts, &s.val) {
        (Opts::Number { gs }, Val::Num(v)) => {
            let f = FixedDecimalFormatter::try_new(&dl, FixedDecimalFormatterOptions::from(gs_icu(*gs))).map_err(|e| e.to_string())?;
            Ok(f.format_to_string(&NUMS[*v].to_fd()))
        }
        (Opts::Currency { width, code }, Val::Num(v)) => {
            let f = CurrencyFormatter::try_new(&dl, CurrencyFormatterOptions::from(width_icu(*width))).map_err(|e| e.to_string())?;
            let fd = NUMS[*v].to_fd();
            Ok(f.format_fixed_decimal(&fd, code_icu(CODES[*code])).write_to_string().into_owned())
        }
        (Opts::Date { len }, Val::Date(d)) => {
            let f = DateFormatter::try_new_with_length(&dl, date_icu(*len)).map_err(|e| e.to_string())?;
            f.format_to_string(&mk_date(DATES[*d])).map_err(|e| e.to_string())
        }
        (Opts::Time { len }, Val::Time(t)) => {
            let f = TimeFormatter::try_new_with_length(&dl, time_icu(*len)).map_err(|e| e.to_string())?;
            Ok(f.format_to_string(&mk_time(TIMES[*t])))
        }
        (Opts::DateTime { date, time }, Val::DateTime(d, t)) => {
            let bag = length::Bag::from_date_time_style(date_icu(*date), time_icu(*time));
            let f = DateTimeFormatter::try_new(&dl, bag.into()).map_err(|e| e.to_string())?;
            f.format_to_string(&DateTime::new(mk_date(DATES[*d]), mk_time(TIMES[*t]))).map_err(|e| e.to_string())
        }
        (Opts::List { ty, style }, Val::List(l)) => {
            let len = lstyle_icu(*style);
            let f = match ty {
                0 => ListFormatter::try_new_and_with_length(&dl, len),
                1 => ListFormatter::try_new_or_with_length(&dl, len),
                _ => ListFormatter::try_new_unit_with_length(&dl, len),
            }
            .map_err(|e| e.to_string())?;
            Ok(f.format_to_string(LISTS[*l].iter().copied()))
        }
        _ => Err("harness: value kind does not fit the formatter".into()),
    }
}

/// how leptos renders a text node with this content in `to_html()` (an empty text is emitted as one
/// space so that the node exists for hydration)
fn html_escape(s: &str) -> String {
    if s.is_empty() {
        return " ".to_string();
    }
    s.replace('&', "&amp;").replace('<', "&lt;").replace('>', "&gt;")
}

// ------------------------------------------------------------------------------------------------
// observation: the crate's helpers

struct ViaFormatter<F: Fn(&mut fmt::Formatter<'_>) -> fmt::Result>(F);
impl<F: Fn(&mut fmt::Formatter<'_>) -> fmt::Result> Display for ViaFormatter<F> {
    fn fmt(&self, f: &mut fmt::Formatter<'_>) -> fmt::Result {
        (self.0)(f)
    }
}

fn render_view(v: impl IntoView) -> String {
    let owner = Owner::new();
    let out = owner.with(|| v.to_html());
    drop(owner);
    out
}

macro_rules! num_dispatch {
    ($num:expr, |$v:ident| $body:expr) => {
        match $num {
            Num::I(x) => {
                let $v = *x;
                $body
            }
            Num::U(x) => {
                let $v = *x;
                $body
            }
            Num::F(x) => {
                let $v = *x;
                $body
            }
            Num::Dec(m, p) => {
                let $v = FixedDecimal::from(*m).multiplied_pow10(*p);
                $body
            }
        }
    };
}

fn crate_actual_inner(s: &Step) -> String {
    let l = LOCALES[s.locale];
    match (&s.opts, &s.val) {
        (Opts::Number { gs }, Val::Num(v)) => {
            let g = gs_icu(*gs);
            num_dispatch!(&NUMS[*v], |x| match s.flavour {
                0 => lp::format_number_to_display(l, x.clone(), g).to_string(),
                1 => ViaFormatter(|f: &mut fmt::Formatter<'_>| lp::format_number_to_formatter(f, l, x.clone(), g)).to_string(),
                _ => {
                    let y = x.clone();
                    render_view(lp::format_number_to_view(l, move || y.clone(), g))
                }
            })
        }
        (Opts::Currency { width, code }, Val::Num(v)) => {
            let w = width_icu(*width);
            let c = code_icu(CODES[*code]);
            num_dispatch!(&NUMS[*v], |x| match s.flavour {
                0 => lp::format_currency_to_display(l, x.clone(), w, c).to_string(),
                1 => ViaFormatter(|f: &mut fmt::Formatter<'_>| lp::format_currency_to_formatter(f, l, x.clone(), w, c)).to_string(),
                _ => {
                    let y = x.clone();
                    render_view(lp::format_currency_to_view(l, move || y.clone(), w, c))
                }
            })
        }
        (Opts::Date { len }, Val::Date(d)) => {
            let date = mk_date(DATES[*d]);
            let ln = date_icu(*len);
            match s.flavour {
                0 => lp::format_date_to_display(l, &date, ln).to_string(),
                1 => ViaFormatter(|f: &mut fmt::Formatter<'_>| lp::format_date_to_formatter(f, l, &date, ln)).to_string(),
                _ => {
                    let dd = DATES[*d];
                    render_view(lp::format_date_to_view(l, move || mk_date(dd), ln))
                }
            }
        }
        (Opts::Time { len }, Val::Time(t)) => {
            let time = mk_time(TIMES[*t]);
            let ln = time_icu(*len);
            match s.flavour {
                0 => lp::format_time_to_display(l, &time, ln).to_string(),
                1 => ViaFormatter(|f: &mut fmt::Formatter<'_>| lp::format_time_to_formatter(f, l, &time, ln)).to_string(),
                _ => {
                    let tt = TIMES[*t];
                    render_view(lp::format_time_to_view(l, move || mk_time(tt), ln))
                }
            }
        }
        (Opts::DateTime { date, time }, Val::DateTime(d, t)) => {
            let dt = DateTime::new(mk_date(DATES[*d]), mk_time(TIMES[*t]));
            let (dln, tln) = (date_icu(*date), time_icu(*time));
            match s.flavour {
                0 => lp::format_datetime_to_display(l, &dt, dln, tln).to_string(),
                1 => ViaFormatter(|f: &mut fmt::Formatter<'_>| lp::format_datetime_to_formatter(f, l, &dt, dln, tln)).to_string(),
                _ => {
                    let (dd, tt) = (DATES[*d], TIMES[*t]);
                    render_view(lp::format_datetime_to_view(l, move || DateTime::new(mk_date(dd), mk_time(tt)), dln, tln))
                }
            }
        }
        (Opts::List { ty, style }, Val::List(li)) => {
            let items: Vec<&'static str> = LISTS[*li].to_vec();
            let (lt, ls) = (ltype_crate(*ty), lstyle_icu(*style));
            match s.flavour {
                0 => lp::format_list_to_display(l, items.clone(), lt, ls).to_string(),
                1 => ViaFormatter(|f: &mut fmt::Formatter<'_>| lp::format_list_to_formatter(f, l, items.clone(), lt, ls)).to_string(),
                _ => render_view(lp::format_list_to_view(l, move || items.clone(), lt, ls)),
            }
        }
        _ => "harness: value kind does not fit the formatter".into(),
    }
}

fn panic_msg(e: Box<dyn std::any::Any + Send>) -> String {
    if let Some(s) = e.downcast_ref::<&str>() {
        s.to_string()
    } else if let Some(s) = e.downcast_ref::<String>() {
        s.clone()
    } else {
        "panic".into()
    }
}

/// Err = the crate panicked
fn crate_actual(s: &Step) -> Result<String, String> {
    catch_unwind(AssertUnwindSafe(|| crate_actual_inner(s))).map_err(panic_msg)
}

fn failure_signature(s: &Step, actual: &Result<String, String>) -> String {
    match actual {
        // the crate keeps its formatters behind one global RwLock; a panic while it is held (e.g. a
        // formatter ICU4X cannot build) poisons it and every later call of any formatter panics
        Err(msg) if msg.contains("PoisonError") => "history-dependent:cache-lock-poisoned".to_string(),
        _ => format!("format-differs-from-icu:{}", s.opts.kind()),
    }
}

/// compare one call with the oracle; `Ok(())` or the failure detail
fn check_step(s: &Step) -> Result<(), (String, Value)> {
    let expected = icu_expected(s).map(|e| if s.flavour == 2 { html_escape(&e) } else { e });
    let actual = crate_actual(s);
    let same = match (&expected, &actual) {
        (Ok(e), Ok(a)) => e == a,
        // ICU itself cannot format this input: the crate is allowed to fail too (it panics on `expect`)
        (Err(_), Err(_)) => true,
        _ => false,
    };
    if same {
        Ok(())
    } else {
        Err((
            failure_signature(s, &actual),
            json!({"call": step_json(s), "expected (fresh ICU4X formatter, same options and locale)": expected.clone().unwrap_or_else(|e| format!("<error: {e}>")),
                   "actual": actual.clone().unwrap_or_else(|e| format!("<panic: {e}>"))}),
        ))
    }
}

// ------------------------------------------------------------------------------------------------
// engine `matrix`: the complete option matrix, in process

fn all_opts() -> Vec<Opts> {
    let mut v = vec![];
    for gs in 0..4 {
        v.push(Opts::Number { gs });
    }
    for width in 0..2 {
        for code in 0..CODES.len() {
            v.push(Opts::Currency { width, code });
        }
    }
    for len in 0..4 {
        v.push(Opts::Date { len });
        v.push(Opts::Time { len });
    }
    for date in 0..4 {
        for time in 0..4 {
            v.push(Opts::DateTime { date, time });
        }
    }
    for ty in 0..3 {
        for style in 0..3 {
            v.push(Opts::List { ty, style });
        }
    }
    v
}

fn values_for(o: &Opts) -> Vec<Val> {
    match o {
        Opts::Number { .. } | Opts::Currency { .. } => (0..NUMS.len()).map(Val::Num).collect(),
        Opts::Date { .. } => (0..DATES.len()).map(Val::Date).collect(),
        Opts::Time { .. } => (0..TIMES.len()).map(Val::Time).collect(),
        Opts::DateTime { .. } => (0..DATES.len().min(TIMES.len())).map(|i| Val::DateTime(i, i)).collect(),
        Opts::List { .. } => (0..LISTS.len()).map(Val::List).collect(),
    }
}

fn run_matrix(ctx: &mut Ctx) -> bool {
    let mut complete = true;
    // locales outermost *inside* options: consecutive calls share the options and differ by locale,
    // which is the order that exposes a cache that forgets the locale
    for opts in all_opts() {
        if !opts.icu_can_build() {
            // calling the crate here panics inside its cache lock and poisons it for the whole
            // process: that defect has its own engine (`seq-unsupported`, child processes)
            ctx.class("matrix: skipped, ICU4X cannot build this formatter (time length full/long)");
            continue;
        }
        for val in values_for(&opts) {
            for locale in 0..LOCALES.len() {
                for flavour in 0..3u8 {
                    let s = Step { opts: opts.clone(), locale, val: val.clone(), flavour };
                    let sj = step_json(&s);
                    match check_step(&s) {
                        Ok(()) => ctx.record(CaseInfo {
                            hash: hash_str(&format!("matrix:{sj}")),
                            nontrivial: opts.non_default(),
                            classes: vec![format!("matrix:{}", opts.kind())],
                            sample: None,
                            observations: 1,
                        }),
                        Err((signature, detail)) => {
                            complete = false;
                            if ctx.fail("matrix", None, &Failure { signature, detail }) {
                                return false;
                            }
                        }
                    }
                }
            }
        }
    }
    complete
}

// ------------------------------------------------------------------------------------------------
// engine `macro`: the option matrix written with the real macros

struct MacroCase {
    label: &'static str,
    opts: Opts,
    /// (locale, value) -> output of the macro
    run: Box<dyn Fn(Locale, &Val) -> String>,
}

fn val_num(v: &Val) -> FixedDecimal {
    match v {
        Val::Num(i) => NUMS[*i].to_fd(),
        _ => unreachable!(),
    }
}
fn val_date(v: &Val) -> Date<AnyCalendar> {
    match v {
        Val::Date(i) => mk_date(DATES[*i]),
        _ => unreachable!(),
    }
}
fn val_time(v: &Val) -> Time {
    match v {
        Val::Time(i) => mk_time(TIMES[*i]),
        _ => unreachable!(),
    }
}
fn val_datetime(v: &Val) -> DateTime<AnyCalendar> {
    match v {
        Val::DateTime(d, t) => DateTime::new(mk_date(DATES[*d]), mk_time(TIMES[*t])),
        _ => unreachable!(),
    }
}
fn val_list(v: &Val) -> Vec<&'static str> {
    match v {
        Val::List(i) => LISTS[*i].to_vec(),
        _ => unreachable!(),
    }
}

/// `tf!(out, opts, conv, by_ref?, formatter tokens...)` adds the `td_format_string!` and the
/// `td_format_display!` spelling of one formatter
macro_rules! tf {
    ($out:ident, $opts:expr, $conv:ident, val, $($fmt:tt)*) => {
        $out.push(MacroCase {
            label: concat!("td_format_string!(l, v, formatter: ", stringify!($($fmt)*), ")"),
            opts: $opts,
            run: Box::new(|l: Locale, v: &Val| { let x = $conv(v); td_format_string!(l, x, formatter: $($fmt)*) }),
        });
        $out.push(MacroCase {
            label: concat!("td_format_display!(l, v, formatter: ", stringify!($($fmt)*), ")"),
            opts: $opts,
            run: Box::new(|l: Locale, v: &Val| { let x = $conv(v); td_format_display!(l, x, formatter: $($fmt)*).to_string() }),
        });
    };
    ($out:ident, $opts:expr, $conv:ident, by_ref, $($fmt:tt)*) => {
        $out.push(MacroCase {
            label: concat!("td_format_string!(l, &v, formatter: ", stringify!($($fmt)*), ")"),
            opts: $opts,
            run: Box::new(|l: Locale, v: &Val| { let x = $conv(v); td_format_string!(l, &x, formatter: $($fmt)*) }),
        });
        $out.push(MacroCase {
            label: concat!("td_format_display!(l, &v, formatter: ", stringify!($($fmt)*), ")"),
            opts: $opts,
            run: Box::new(|l: Locale, v: &Val| { let x = $conv(v); td_format_display!(l, &x, formatter: $($fmt)*).to_string() }),
        });
    };
}

/// `tk!(out, opts, conv, by_ref?, key)` adds the `td_string!` / `td_display!` spelling of a key of the declared project
macro_rules! tk {
    ($out:ident, $opts:expr, $conv:ident, val, $key:ident) => {
        $out.push(MacroCase {
            label: concat!("td_string!(l, ", stringify!($key), ", v = v)"),
            opts: $opts,
            run: Box::new(|l: Locale, v: &Val| { let x = $conv(v); td_string!(l, $key, v = x).to_string() }),
        });
        $out.push(MacroCase {
            label: concat!("td_display!(l, ", stringify!($key), ", v = v)"),
            opts: $opts,
            run: Box::new(|l: Locale, v: &Val| { let x = $conv(v); td_display!(l, $key, v = x).to_string() }),
        });
    };
    ($out:ident, $opts:expr, $conv:ident, by_ref, $key:ident) => {
        $out.push(MacroCase {
            label: concat!("td_string!(l, ", stringify!($key), ", v = &v)"),
            opts: $opts,
            run: Box::new(|l: Locale, v: &Val| { let x = $conv(v); td_string!(l, $key, v = &x).to_string() }),
        });
        $out.push(MacroCase {
            label: concat!("td_display!(l, ", stringify!($key), ", v = &v)"),
            opts: $opts,
            run: Box::new(|l: Locale, v: &Val| { let x = $conv(v); td_display!(l, $key, v = &x).to_string() }),
        });
    };
}

fn macro_cases() -> Vec<MacroCase> {
    let mut o: Vec<MacroCase> = vec![];
    // ---- t*_format! family: complete matrix
    tf!(o, Opts::Number { gs: D_GS }, val_num, val, number);
    tf!(o, Opts::Number { gs: 0 }, val_num, val, number(grouping_strategy: auto));
    tf!(o, Opts::Number { gs: 1 }, val_num, val, number(grouping_strategy: never));
    tf!(o, Opts::Number { gs: 2 }, val_num, val, number(grouping_strategy: always));
    tf!(o, Opts::Number { gs: 3 }, val_num, val, number(grouping_strategy: min2));
    tf!(o, Opts::Number { gs: D_GS }, val_num, val, number(grouping_strategy: sometimes));
    tf!(o, Opts::Number { gs: 1 }, val_num, val, number(foo: bar; grouping_strategy: never));
    tf!(o, Opts::Currency { width: D_WIDTH, code: D_CODE }, val_num, val, currency);
    tf!(o, Opts::Currency { width: 0, code: 0 }, val_num, val, currency(width: short; currency_code: USD));
    tf!(o, Opts::Currency { width: 1, code: 0 }, val_num, val, currency(width: narrow));
    tf!(o, Opts::Currency { width: 0, code: 1 }, val_num, val, currency(currency_code: EUR));
    tf!(o, Opts::Currency { width: 1, code: 1 }, val_num, val, currency(currency_code: EUR; width: narrow));
    tf!(o, Opts::Currency { width: 1, code: 2 }, val_num, val, currency(width: narrow; currency_code: JPY));
    tf!(o, Opts::Currency { width: 0, code: 3 }, val_num, val, currency(currency_code: GBP));
    tf!(o, Opts::Date { len: D_DATE }, val_date, by_ref, date);
    tf!(o, Opts::Date { len: 0 }, val_date, by_ref, date(date_length: full));
    tf!(o, Opts::Date { len: 1 }, val_date, by_ref, date(date_length: long));
    tf!(o, Opts::Date { len: 2 }, val_date, by_ref, date(date_length: medium));
    tf!(o, Opts::Date { len: 3 }, val_date, by_ref, date(date_length: short));
    tf!(o, Opts::Date { len: D_DATE }, val_date, by_ref, date(time_length: full));
    tf!(o, Opts::Time { len: D_TIME }, val_time, by_ref, time);
    tf!(o, Opts::Time { len: 0 }, val_time, by_ref, time(time_length: full));
    tf!(o, Opts::Time { len: 1 }, val_time, by_ref, time(time_length: long));
    tf!(o, Opts::Time { len: 2 }, val_time, by_ref, time(time_length: medium));
    tf!(o, Opts::Time { len: 3 }, val_time, by_ref, time(time_length: short));
    tf!(o, Opts::Time { len: D_TIME }, val_time, by_ref, time(date_length: full));
    tf!(o, Opts::DateTime { date: D_DATE, time: D_TIME }, val_datetime, by_ref, datetime);
    tf!(o, Opts::DateTime { date: 0, time: 0 }, val_datetime, by_ref, datetime(date_length: full; time_length: full));
    tf!(o, Opts::DateTime { date: 0, time: 1 }, val_datetime, by_ref, datetime(date_length: full; time_length: long));
    tf!(o, Opts::DateTime { date: 0, time: 2 }, val_datetime, by_ref, datetime(date_length: full; time_length: medium));
    tf!(o, Opts::DateTime { date: 0, time: 3 }, val_datetime, by_ref, datetime(date_length: full; time_length: short));
    tf!(o, Opts::DateTime { date: 1, time: 0 }, val_datetime, by_ref, datetime(date_length: long; time_length: full));
    tf!(o, Opts::DateTime { date: 1, time: 1 }, val_datetime, by_ref, datetime(date_length: long; time_length: long));
    tf!(o, Opts::DateTime { date: 1, time: 2 }, val_datetime, by_ref, datetime(date_length: long; time_length: medium));
    tf!(o, Opts::DateTime { date: 1, time: 3 }, val_datetime, by_ref, datetime(date_length: long; time_length: short));
    tf!(o, Opts::DateTime { date: 2, time: 0 }, val_datetime, by_ref, datetime(date_length: medium; time_length: full));
    tf!(o, Opts::DateTime { date: 2, time: 1 }, val_datetime, by_ref, datetime(date_length: medium; time_length: long));
    tf!(o, Opts::DateTime { date: 2, time: 2 }, val_datetime, by_ref, datetime(date_length: medium; time_length: medium));
    tf!(o, Opts::DateTime { date: 2, time: 3 }, val_datetime, by_ref, datetime(date_length: medium; time_length: short));
    tf!(o, Opts::DateTime { date: 3, time: 0 }, val_datetime, by_ref, datetime(date_length: short; time_length: full));
    tf!(o, Opts::DateTime { date: 3, time: 1 }, val_datetime, by_ref, datetime(date_length: short; time_length: long));
    tf!(o, Opts::DateTime { date: 3, time: 2 }, val_datetime, by_ref, datetime(date_length: short; time_length: medium));
    tf!(o, Opts::DateTime { date: 3, time: 3 }, val_datetime, by_ref, datetime(date_length: short; time_length: short));
    tf!(o, Opts::DateTime { date: 0, time: 3 }, val_datetime, by_ref, datetime(time_length: short; date_length: full));
    tf!(o, Opts::DateTime { date: D_DATE, time: 1 }, val_datetime, by_ref, datetime(time_length: long));
    tf!(o, Opts::DateTime { date: 3, time: D_TIME }, val_datetime, by_ref, datetime(date_length: short));
    tf!(o, Opts::List { ty: D_LTYPE, style: D_LSTYLE }, val_list, val, list);
    tf!(o, Opts::List { ty: 0, style: 0 }, val_list, val, list(list_type: and; list_style: wide));
    tf!(o, Opts::List { ty: 0, style: 1 }, val_list, val, list(list_type: and; list_style: short));
    tf!(o, Opts::List { ty: 0, style: 2 }, val_list, val, list(list_type: and; list_style: narrow));
    tf!(o, Opts::List { ty: 1, style: 0 }, val_list, val, list(list_type: or; list_style: wide));
    tf!(o, Opts::List { ty: 1, style: 1 }, val_list, val, list(list_type: or; list_style: short));
    tf!(o, Opts::List { ty: 1, style: 2 }, val_list, val, list(list_type: or; list_style: narrow));
    tf!(o, Opts::List { ty: 2, style: 0 }, val_list, val, list(list_type: unit; list_style: wide));
    tf!(o, Opts::List { ty: 2, style: 1 }, val_list, val, list(list_type: unit; list_style: short));
    tf!(o, Opts::List { ty: 2, style: 2 }, val_list, val, list(list_type: unit; list_style: narrow));
    tf!(o, Opts::List { ty: 1, style: D_LSTYLE }, val_list, val, list(list_type: or));
    tf!(o, Opts::List { ty: D_LTYPE, style: 2 }, val_list, val, list(list_style: narrow));
    // ---- keys of the declared project (string form in translation values)
    tk!(o, Opts::Number { gs: D_GS }, val_num, val, n_default);
    tk!(o, Opts::Number { gs: 0 }, val_num, val, n_auto);
    tk!(o, Opts::Number { gs: 1 }, val_num, val, n_never);
    tk!(o, Opts::Number { gs: 2 }, val_num, val, n_always);
    tk!(o, Opts::Number { gs: 3 }, val_num, val, n_min2);
    tk!(o, Opts::Number { gs: 2 }, val_num, val, n_ws);
    tk!(o, Opts::Number { gs: 1 }, val_num, val, n_unknown_arg);
    tk!(o, Opts::Number { gs: D_GS }, val_num, val, n_bad_value);
    tk!(o, Opts::Currency { width: D_WIDTH, code: D_CODE }, val_num, val, c_default);
    tk!(o, Opts::Currency { width: 1, code: 1 }, val_num, val, c_narrow_eur);
    tk!(o, Opts::Currency { width: D_WIDTH, code: 2 }, val_num, val, c_jpy);
    tk!(o, Opts::Date { len: D_DATE }, val_date, val, d_default);
    tk!(o, Opts::Date { len: 0 }, val_date, val, d_full);
    tk!(o, Opts::Date { len: 1 }, val_date, val, d_long);
    tk!(o, Opts::Date { len: 2 }, val_date, val, d_medium);
    tk!(o, Opts::Date { len: 3 }, val_date, val, d_short);
    tk!(o, Opts::Time { len: D_TIME }, val_time, val, t_default);
    tk!(o, Opts::Time { len: 0 }, val_time, val, t_full);
    tk!(o, Opts::Time { len: 1 }, val_time, val, t_long);
    tk!(o, Opts::Time { len: 2 }, val_time, val, t_medium);
    tk!(o, Opts::Time { len: 3 }, val_time, val, t_short);
    tk!(o, Opts::DateTime { date: D_DATE, time: D_TIME }, val_datetime, val, dt_default);
    tk!(o, Opts::DateTime { date: 3, time: 0 }, val_datetime, val, dt_short_full);
    tk!(o, Opts::DateTime { date: 0, time: 3 }, val_datetime, val, dt_full_short);
    tk!(o, Opts::DateTime { date: 1, time: 2 }, val_datetime, val, dt_long_medium);
    tk!(o, Opts::DateTime { date: D_DATE, time: 1 }, val_datetime, val, dt_time_only);
    tk!(o, Opts::List { ty: D_LTYPE, style: D_LSTYLE }, val_list, val, l_default);
    tk!(o, Opts::List { ty: 0, style: 0 }, val_list, val, l_and_wide);
    tk!(o, Opts::List { ty: 1, style: 1 }, val_list, val, l_or_short);
    tk!(o, Opts::List { ty: 2, style: 2 }, val_list, val, l_unit_narrow);
    tk!(o, Opts::List { ty: 0, style: D_LSTYLE }, val_list, val, l_and);
    tk!(o, Opts::List { ty: 1, style: 2 }, val_list, val, l_or_narrow);
    o
}

fn run_macro(ctx: &mut Ctx) -> bool {
    let mut complete = true;
    for mc in macro_cases() {
        if !mc.opts.icu_can_build() {
            ctx.class("macro: skipped, ICU4X cannot build this formatter (time length full/long)");
            continue;
        }
        // two values per formatter are enough here: the value axis is covered by `matrix`
        let vals: Vec<Val> = values_for(&mc.opts).into_iter().skip(2).step_by(4).take(3).collect();
        for val in vals {
            for (li, l) in LOCALES.iter().enumerate() {
                let s = Step { opts: mc.opts.clone(), locale: li, val: val.clone(), flavour: 0 };
                let expected = icu_expected(&s);
                let actual = catch_unwind(AssertUnwindSafe(|| (mc.run)(*l, &val))).map_err(panic_msg);
                let same = match (&expected, &actual) {
                    (Ok(e), Ok(a)) => e == a,
                    (Err(_), Err(_)) => true,
                    _ => false,
                };
                let sj = step_json(&s);
                if same {
                    ctx.record(CaseInfo {
                        hash: hash_str(&format!("macro:{}:{sj}", mc.label)),
                        nontrivial: mc.opts.non_default(),
                        classes: vec![format!("macro:{}", mc.opts.kind())],
                        sample: None,
                        observations: 1,
                    });
                } else {
                    complete = false;
                    let f = Failure {
                        signature: format!("macro-format-differs-from-icu:{}", mc.opts.kind()),
                        detail: json!({
                            "macro": mc.label, "model_options": mc.opts.describe(), "locale": l.as_str(), "value": sj["value"],
                            "expected (fresh ICU4X formatter with the documented meaning of the arguments)": expected.unwrap_or_else(|e| format!("<error: {e}>")),
                            "actual": actual.unwrap_or_else(|e| format!("<panic: {e}>")),
                        }),
                    };
                    if ctx.fail("macro", None, &f) {
                        return false;
                    }
                }
            }
        }
    }
    complete
}

// ------------------------------------------------------------------------------------------------
// engine `reactive`: the context-taking macros on a live context whose locale is switched
//
// A history creates views with `t_format!` / `tu_format!` / `t!` (kept and rendered again later) and
// "evaluate now" observers with `t_format_string!` / `t_format_display!` / `t_string!`, interleaved
// with `set_locale`. After every step every live view and observer must show the ICU4X formatting for
// the locale the context has *now* ("the locale being rendered"), whatever it was at creation time.

use leptos_i18n::context::{init_i18n_context_with_options, CookieOptions, I18nContextOptions, UseLocalesOptions};
use leptos_i18n::formatting::{t_format, t_format_display, t_format_string, tu_format};
use leptos_i18n::{t, t_string, I18nContext};

type Observer = Box<dyn Fn() -> String>;

struct Maker {
    label: &'static str,
    opts: Opts,
    /// html-escaped output expected (views) or plain (strings)
    is_view: bool,
    make: fn(I18nContext<Locale>, Val) -> Observer,
}

macro_rules! rarg {
    (val, $x:ident) => {
        $x
    };
    (by_ref, $x:ident) => {
        &$x
    };
}

macro_rules! rv {
    ($out:ident, $opts:expr, $conv:ident, $mode:ident, $($fmt:tt)*) => {
        $out.push(Maker {
            label: concat!("t_format!(i18n, v, formatter: ", stringify!($($fmt)*), ") kept and rendered again"),
            opts: $opts,
            is_view: true,
            make: |i18n, v| {
                let view = t_format!(i18n, move || $conv(&v), formatter: $($fmt)*);
                Box::new(move || render_view(view.clone()))
            },
        });
        $out.push(Maker {
            label: concat!("tu_format!(i18n, v, formatter: ", stringify!($($fmt)*), ") kept and rendered again"),
            opts: $opts,
            is_view: true,
            make: |i18n, v| {
                let view = tu_format!(i18n, move || $conv(&v), formatter: $($fmt)*);
                Box::new(move || render_view(view.clone()))
            },
        });
        $out.push(Maker {
            label: concat!("t_format_string!(i18n, v, formatter: ", stringify!($($fmt)*), ") evaluated at each observation"),
            opts: $opts,
            is_view: false,
            make: |i18n, v| Box::new(move || { let x = $conv(&v); t_format_string!(i18n, rarg!($mode, x), formatter: $($fmt)*) }),
        });
        $out.push(Maker {
            label: concat!("t_format_display!(i18n, v, formatter: ", stringify!($($fmt)*), ") evaluated at each observation"),
            opts: $opts,
            is_view: false,
            make: |i18n, v| Box::new(move || { let x = $conv(&v); t_format_display!(i18n, rarg!($mode, x), formatter: $($fmt)*).to_string() }),
        });
    };
}

macro_rules! rk {
    ($out:ident, $opts:expr, $conv:ident, $key:ident) => {
        $out.push(Maker {
            label: concat!("t!(i18n, ", stringify!($key), ", v = ..) kept and rendered again"),
            opts: $opts,
            is_view: true,
            make: |i18n, v| {
                let view = t!(i18n, $key, v = move || $conv(&v));
                Box::new(move || render_view(view.clone()))
            },
        });
        $out.push(Maker {
            label: concat!("t_string!(i18n, ", stringify!($key), ", v = ..) evaluated at each observation"),
            opts: $opts,
            is_view: false,
            make: |i18n, v| Box::new(move || t_string!(i18n, $key, v = $conv(&v)).to_string()),
        });
    };
}

fn reactive_makers() -> Vec<Maker> {
    let mut o: Vec<Maker> = vec![];
    rv!(o, Opts::Number { gs: D_GS }, val_num, val, number);
    rv!(o, Opts::Number { gs: 2 }, val_num, val, number(grouping_strategy: always));
    rv!(o, Opts::Currency { width: 1, code: 1 }, val_num, val, currency(width: narrow; currency_code: EUR));
    rv!(o, Opts::Date { len: 0 }, val_date, by_ref, date(date_length: full));
    rv!(o, Opts::Time { len: 2 }, val_time, by_ref, time(time_length: medium));
    rv!(o, Opts::DateTime { date: 1, time: 3 }, val_datetime, by_ref, datetime(date_length: long; time_length: short));
    rv!(o, Opts::List { ty: 0, style: 1 }, val_list, val, list(list_type: and; list_style: short));
    rk!(o, Opts::Number { gs: 2 }, val_num, n_always);
    rk!(o, Opts::Currency { width: 1, code: 1 }, val_num, c_narrow_eur);
    rk!(o, Opts::Date { len: 0 }, val_date, d_full);
    rk!(o, Opts::DateTime { date: 1, time: 2 }, val_datetime, dt_long_medium);
    rk!(o, Opts::List { ty: 1, style: 1 }, val_list, l_or_short);
    o
}

#[derive(Clone, Debug)]
enum ROp {
    Make { maker: usize, val: Val },
    Set { locale: usize },
    Drop { slot: usize },
}

fn gen_reactive(t: &mut Tape, makers: &[Maker]) -> Vec<ROp> {
    let n = t.range(3, 14);
    let mut ops = vec![];
    for _ in 0..n {
        match t.weighted(&[4, 5, 1]) {
            0 => {
                let maker = t.pick(makers.len());
                let vals = values_for(&makers[maker].opts);
                // an empty list renders as one space in views: keep the value axis to non-empty outputs here
                let vals: Vec<Val> = vals.into_iter().filter(|v| !matches!(v, Val::List(0))).collect();
                let val = vals[t.pick(vals.len())].clone();
                ops.push(ROp::Make { maker, val });
            }
            1 => ops.push(ROp::Set { locale: t.pick(LOCALES.len()) }),
            _ => ops.push(ROp::Drop { slot: t.pick(8) }),
        }
    }
    ops
}

fn reactive_case(t: &mut Tape) -> CaseResult {
    let makers = reactive_makers();
    let ops = gen_reactive(t, &makers);
    let history: Vec<Value> = ops
        .iter()
        .map(|o| match o {
            ROp::Make { maker, val } => json!({"make": makers[*maker].label, "value": step_json(&Step { opts: makers[*maker].opts.clone(), locale: 0, val: val.clone(), flavour: 0 })["value"]}),
            ROp::Set { locale } => json!({"set_locale": LOCALES[*locale].as_str()}),
            ROp::Drop { slot } => json!({"drop_view_slot": slot}),
        })
        .collect();
    let owner = Owner::new();
    let mut switches_with_live = 0u64;
    let mut observations = 0u64;
    let mut kinds: BTreeSet<String> = BTreeSet::new();
    let result: Result<(), Failure> = owner.with(|| {
        let opts = I18nContextOptions::<Locale>::default()
            .cookie_options(CookieOptions::<Locale>::default().ssr_cookies_header_getter(|| None).ssr_set_cookie(|_: &_| {}).on_error(std::sync::Arc::new(|_| {})))
            .ssr_lang_header_getter(UseLocalesOptions::default().ssr_lang_header_getter(|| None));
        let i18n = init_i18n_context_with_options(opts);
        crate::exec::tick();
        // (maker index, value, locale index at creation, observer)
        let mut live: Vec<(usize, Val, usize, Observer)> = vec![];
        let mut current = LOCALES.iter().position(|l| *l == i18n.get_locale_untracked()).unwrap_or(0);
        for (step, op) in ops.iter().enumerate() {
            match op {
                ROp::Make { maker, val } => {
                    let m = &makers[*maker];
                    let obs = catch_unwind(AssertUnwindSafe(|| (m.make)(i18n, val.clone())));
                    match obs {
                        Ok(o) => {
                            if live.len() >= 8 {
                                let _ = live.remove(0);
                            }
                            live.push((*maker, val.clone(), current, o));
                        }
                        Err(e) => {
                            return Err(Failure { signature: format!("reactive-panics:{}", m.opts.kind()), detail: json!({"history": history, "step": step, "panic": panic_msg(e)}) });
                        }
                    }
                }
                ROp::Set { locale } => {
                    i18n.set_locale(LOCALES[*locale]);
                    crate::exec::tick();
                    if *locale != current && !live.is_empty() {
                        switches_with_live += 1;
                    }
                    current = *locale;
                }
                ROp::Drop { slot } => {
                    if !live.is_empty() {
                        let i = slot % live.len();
                        let _ = live.remove(i);
                    }
                }
            }
            // every live view / observer shows the formatting for the current locale
            for (mi, val, made_at, obs) in &live {
                let m = &makers[*mi];
                let s = Step { opts: m.opts.clone(), locale: current, val: val.clone(), flavour: if m.is_view { 2 } else { 0 } };
                let expected = icu_expected(&s).map(|e| if m.is_view { html_escape(&e) } else { e });
                let actual = catch_unwind(AssertUnwindSafe(|| obs())).map_err(panic_msg).map(|a| if m.is_view { a.replace("<!>", "").replace("<!---->", "") } else { a });
                observations += 1;
                kinds.insert(format!("reactive:{}", if m.is_view { "kept-view" } else { "evaluated-now" }));
                let same = matches!((&expected, &actual), (Ok(e), Ok(a)) if e == a);
                if !same {
                    let stale = *made_at != current;
                    return Err(Failure {
                        signature: format!("reactive-format-differs-from-icu:{}:{}", if m.is_view { "kept-view" } else { "evaluated-now" }, if stale { "after-locale-switch" } else { "same-locale" }),
                        detail: json!({
                            "history": history, "failing_after_step": step, "observer": m.label, "model_options": m.opts.describe(),
                            "locale_at_creation": LOCALES[*made_at].as_str(), "locale_now (the locale being rendered)": LOCALES[current].as_str(),
                            "value": step_json(&s)["value"],
                            "expected (fresh ICU4X formatter for the current locale)": expected.unwrap_or_else(|e| format!("<error: {e}>")),
                            "actual": actual.unwrap_or_else(|e| format!("<panic: {e}>")),
                        }),
                    });
                }
            }
        }
        Ok(())
    });
    crate::exec::clear();
    drop(owner);
    crate::exec::clear();
    match result {
        Err(f) => Err(f),
        Ok(()) => Ok(CaseInfo {
            hash: hash_str(&format!("{history:?}")),
            nontrivial: switches_with_live >= 1,
            classes: kinds.into_iter().chain(std::iter::once(format!("reactive:locale-switches-with-live-views:{}", switches_with_live.min(4)))).collect(),
            sample: if switches_with_live >= 2 { Some(json!({"history": history})) } else { None },
            observations,
        }),
    }
}

// ------------------------------------------------------------------------------------------------
// engine `parse`: from_name_and_args + the `{{ v, name(args) }}` string form

#[derive(Clone, Debug)]
struct ArgSpec {
    name: &'static str,
    values: &'static [&'static str],
    default: usize,
}

/// one way an argument can be written; `expect` = indices the model accepts (one, or two when the
/// documentation leaves it open)
#[derive(Clone, Debug)]
struct Slot {
    label: &'static str,
    /// (name, value) pairs, in order
    pairs: Vec<(String, String)>,
    expect: Vec<usize>,
    duplicate: bool,
}

fn slots(spec: &ArgSpec) -> Vec<Slot> {
    let n = spec.values.len();
    let d = spec.default;
    let name = spec.name.to_string();
    let mut out = vec![Slot { label: "omitted", pairs: vec![], expect: vec![d], duplicate: false }];
    for i in 0..n {
        out.push(Slot { label: "valid", pairs: vec![(name.clone(), spec.values[i].to_string())], expect: vec![i], duplicate: false });
    }
    out.push(Slot { label: "unknown-value", pairs: vec![(name.clone(), "bogus".into())], expect: vec![d], duplicate: false });
    let nd = (d + 1) % n;
    // documented spellings are exact: another case is an unrecognised value
    let wrong_case = if spec.values[nd].chars().all(|c| c.is_ascii_uppercase()) {
        spec.values[nd].to_ascii_lowercase()
    } else {
        let mut c = spec.values[nd].chars();
        let f = c.next().unwrap().to_ascii_uppercase();
        format!("{f}{}", c.as_str())
    };
    if spec.name != "currency_code" {
        // (a 3-letter code in another case is still a syntactically valid code: not asserted)
        out.push(Slot { label: "wrong-case-value", pairs: vec![(name.clone(), wrong_case)], expect: vec![d], duplicate: false });
    }
    out.push(Slot {
        label: "misspelt-name",
        pairs: vec![(format!("{}s", spec.name), spec.values[nd].to_string())],
        expect: vec![d],
        duplicate: false,
    });
    if spec.name.contains('_') {
        out.push(Slot {
            label: "misspelt-name-dash",
            pairs: vec![(spec.name.replace('_', "-"), spec.values[nd].to_string())],
            expect: vec![d],
            duplicate: false,
        });
    }
    for i in 0..n {
        for j in 0..n {
            if i != j {
                out.push(Slot {
                    label: "duplicated",
                    pairs: vec![(name.clone(), spec.values[i].to_string()), (name.clone(), spec.values[j].to_string())],
                    expect: vec![i],
                    duplicate: true,
                });
            }
        }
    }
    for i in 0..n {
        // an unrecognised value followed by a recognised one: the documentation does not say whether
        // the unrecognised occurrence "uses up" the argument -> either outcome is accepted
        out.push(Slot {
            label: "unknown-then-valid",
            pairs: vec![(name.clone(), "bogus".into()), (name.clone(), spec.values[i].to_string())],
            expect: vec![d, i],
            duplicate: false,
        });
    }
    out
}

struct FmtSpec {
    name: &'static str,
    args: Vec<ArgSpec>,
}

fn fmt_specs() -> Vec<FmtSpec> {
    vec![
        FmtSpec { name: "number", args: vec![ArgSpec { name: "grouping_strategy", values: &GS, default: D_GS }] },
        FmtSpec {
            name: "currency",
            args: vec![
                ArgSpec { name: "width", values: &WIDTHS, default: D_WIDTH },
                ArgSpec { name: "currency_code", values: &CODES, default: D_CODE },
            ],
        },
        FmtSpec { name: "date", args: vec![ArgSpec { name: "date_length", values: &LEN4, default: D_DATE }] },
        FmtSpec { name: "time", args: vec![ArgSpec { name: "time_length", values: &LEN4, default: D_TIME }] },
        FmtSpec {
            name: "datetime",
            args: vec![
                ArgSpec { name: "date_length", values: &LEN4, default: D_DATE },
                ArgSpec { name: "time_length", values: &LEN4, default: D_TIME },
            ],
        },
        FmtSpec {
            name: "list",
            args: vec![
                ArgSpec { name: "list_type", values: &LTYPES, default: D_LTYPE },
                ArgSpec { name: "list_style", values: &LSTYLES, default: D_LSTYLE },
            ],
        },
    ]
}

fn opts_from(fmt: &str, idx: &[usize]) -> Opts {
    match fmt {
        "number" => Opts::Number { gs: idx[0] },
        "currency" => Opts::Currency { width: idx[0], code: idx[1] },
        "date" => Opts::Date { len: idx[0] },
        "time" => Opts::Time { len: idx[0] },
        "datetime" => Opts::DateTime { date: idx[0], time: idx[1] },
        _ => Opts::List { ty: idx[0], style: idx[1] },
    }
}

/// whitespace styles: (around the comma after the variable, before '(', after '(', around ':', around ';', before ')')
const WS: &[[&str; 7]] = &[
    [" ", "", "", " ", " ", "", " "],          // canonical: {{ v, number(a: b; c: d) }}
    ["", "", "", "", "", "", ""],              // none:      {{v,number(a:b;c:d)}}
    ["  ", " ", "  ", "  ", "  ", "  ", "  "], // wide
    ["\t", "", "\n", "\t", "\n ", "\n", "\t"], // tabs and newlines
];

fn render_string(fmt: &str, pairs: Option<&[(String, String)]>, ws: &[&str; 7], trailing_semicolon: bool) -> String {
    // [0]: after "{{" / before "}}" and after ","; [1] before "("; [2] after "("; [3] around ":"; [4] around ";"; [5] before ")"
    let mut s = String::from("{{");
    s.push_str(ws[6]);
    s.push('v');
    s.push_str(ws[5]);
    s.push(',');
    s.push_str(ws[0]);
    s.push_str(fmt);
    if let Some(pairs) = pairs {
        s.push_str(ws[1]);
        s.push('(');
        s.push_str(ws[2]);
        for (i, (n, v)) in pairs.iter().enumerate() {
            if i > 0 {
                s.push_str(ws[4]);
                s.push(';');
                s.push_str(ws[4]);
            }
            s.push_str(n);
            s.push_str(ws[3]);
            s.push(':');
            s.push_str(ws[3]);
            s.push_str(v);
        }
        if trailing_semicolon && !pairs.is_empty() {
            s.push_str(ws[4]);
            s.push(';');
        }
        s.push_str(ws[5]);
        s.push(')');
    }
    s.push_str(ws[6]);
    s.push_str("}}");
    s
}

fn find_formatter(v: &ParsedValue, out: &mut Vec<(String, pf::Formatter)>) {
    match v {
        ParsedValue::Variable { key, formatter } => out.push((key.name.to_string(), *formatter)),
        ParsedValue::Bloc(items) => items.iter().for_each(|i| find_formatter(i, out)),
        ParsedValue::Component { inner, .. } => find_formatter(inner, out),
        _ => {}
    }
}

fn run_parse(ctx: &mut Ctx) -> bool {
    let mut complete = true;
    let kp = KeyPath::new(None);
    let locale_key = Key::new("en").expect("key");
    for spec in fmt_specs() {
        let per_arg: Vec<Vec<Slot>> = spec.args.iter().map(slots).collect();
        // cartesian product of the slots
        let mut combos: Vec<Vec<&Slot>> = vec![vec![]];
        for sl in &per_arg {
            let mut next = vec![];
            for c in &combos {
                for s in sl {
                    let mut c2 = c.clone();
                    c2.push(s);
                    next.push(c2);
                }
            }
            combos = next;
        }
        for combo in &combos {
            let orders: &[bool] = if combo.len() > 1 { &[false, true] } else { &[false] };
            for reversed in orders {
                for extra in 0..4u8 {
                    // assemble the pairs
                    let mut pairs: Vec<(String, String)> = vec![];
                    let order: Vec<usize> = if *reversed { (0..combo.len()).rev().collect() } else { (0..combo.len()).collect() };
                    if extra == 1 {
                        pairs.push(("foo".into(), "bar".into()));
                    }
                    for (k, ai) in order.iter().enumerate() {
                        pairs.extend(combo[*ai].pairs.iter().cloned());
                        if extra == 3 && k == 0 {
                            // the name of another formatter's argument with a valid value of that one
                            let foreign = if spec.name == "list" { ("grouping_strategy", "always") } else { ("list_type", "and") };
                            pairs.push((foreign.0.into(), foreign.1.into()));
                        }
                    }
                    if extra == 2 {
                        pairs.push(("unknown_arg".into(), "always".into()));
                    }
                    let expect_sets: Vec<&Vec<usize>> = combo.iter().map(|s| &s.expect).collect();
                    let accepted: BTreeSet<Opts> = {
                        let mut acc: Vec<Vec<usize>> = vec![vec![]];
                        for set in &expect_sets {
                            let mut next = vec![];
                            for a in &acc {
                                for v in set.iter() {
                                    let mut a2 = a.clone();
                                    a2.push(*v);
                                    next.push(a2);
                                }
                            }
                            acc = next;
                        }
                        acc.iter().map(|idx| opts_from(spec.name, idx)).collect()
                    };
                    let accepted_parser: Vec<pf::Formatter> = accepted.iter().map(|o| o.to_parser()).collect();
                    let has_dup = combo.iter().any(|s| s.duplicate);
                    let labels: Vec<String> = combo.iter().zip(&spec.args).map(|(s, a)| format!("{}={}", a.name, s.label)).collect();
                    let nontrivial = accepted.iter().any(|o| o.non_default());
                    let classes = {
                        let mut c: Vec<String> = combo.iter().map(|s| format!("parse:arg-{}", s.label)).collect();
                        c.push(format!("parse:{}", spec.name));
                        c.sort();
                        c.dedup();
                        c
                    };
                    let fail = |ctx: &mut Ctx, how: &str, input: Value, actual: String| -> bool {
                        let signature = if has_dup {
                            format!("duplicate-arg-not-first:{}", spec.name)
                        } else {
                            format!("parse-wrong-option:{}", spec.name)
                        };
                        ctx.fail(
                            "parse",
                            None,
                            &Failure {
                                signature,
                                detail: json!({
                                    "through": how, "input": input, "argument_states": labels,
                                    "expected_any_of": accepted.iter().map(|o| o.describe()).collect::<Vec<_>>(),
                                    "actual": actual,
                                    "note": if has_dup { "a duplicated argument: the first recognised occurrence is expected to win (behaviour of the reference tree; not documented)" } else { "" },
                                }),
                            },
                        )
                    };

                    // (1) from_name_and_args; with no pair at all also the `None` (no parentheses) form
                    let arg_refs: Vec<(&str, &str)> = pairs.iter().map(|(a, b)| (a.as_str(), b.as_str())).collect();
                    let mut forms: Vec<Option<&[(&str, &str)]>> = vec![Some(&arg_refs[..])];
                    if pairs.is_empty() {
                        forms.push(None);
                    }
                    for form in forms {
                        let res = pf::Formatter::from_name_and_args(spec.name, form);
                        let ok = matches!(&res, Ok(Some(f)) if accepted_parser.contains(f));
                        let input = json!({"name": spec.name, "args": form.map(|f| f.iter().map(|(a, b)| json!([a, b])).collect::<Vec<_>>())});
                        if ok {
                            ctx.record(CaseInfo {
                                hash: hash_str(&format!("parse-args:{input}")),
                                nontrivial,
                                classes: classes.clone(),
                                sample: None,
                                observations: 1,
                            });
                        } else {
                            complete = false;
                            if fail(ctx, "Formatter::from_name_and_args(name, args)", input, format!("{res:?}")) {
                                return false;
                            }
                        }
                    }

                    // (2) the string form, all whitespace styles
                    for (wi, ws) in WS.iter().enumerate() {
                        for trailing in [false, true] {
                            if trailing && (pairs.is_empty() || wi > 1) {
                                continue;
                            }
                            let mut strings = vec![render_string(spec.name, Some(&pairs), ws, trailing)];
                            if pairs.is_empty() {
                                strings.push(render_string(spec.name, None, ws, false));
                            }
                            for src in strings {
                                let fkp = ForeignKeysPaths::new();
                                let res = ParsedValue::new(&src, &kp, &locale_key, &fkp);
                                let mut found = vec![];
                                if let Ok(v) = &res {
                                    find_formatter(v, &mut found);
                                }
                                let ok = found.len() == 1 && found[0].0 == "var_v" && accepted_parser.contains(&found[0].1);
                                if ok {
                                    ctx.record(CaseInfo {
                                        hash: hash_str(&format!("parse-str:{src}")),
                                        nontrivial,
                                        classes: {
                                            let mut c = classes.clone();
                                            c.push(format!("parse:whitespace-style-{wi}"));
                                            c
                                        },
                                        sample: if nontrivial && wi == 3 { Some(json!({"value": src, "expected": accepted.iter().map(|o| o.describe()).collect::<Vec<_>>()})) } else { None },
                                        observations: 1,
                                    });
                                } else {
                                    complete = false;
                                    let actual = match &res {
                                        Ok(_) => format!("{found:?}"),
                                        Err(e) => format!("Err({e})"),
                                    };
                                    if fail(ctx, "ParsedValue::new(value)", json!(src), actual) {
                                        return false;
                                    }
                                }
                            }
                        }
                    }
                }
            }
        }
    }
    // unknown formatter names never select a documented formatter
    for name in ["numbers", "Number", "num", "", "date_time", "lists", "money", "datetim", "NUMBER"] {
        let res = pf::Formatter::from_name_and_args(name, Some(&[("grouping_strategy", "always")][..]));
        let src = format!("{{{{ v, {name}(grouping_strategy: always) }}}}");
        let fkp = ForeignKeysPaths::new();
        let res2 = ParsedValue::new(&src, &kp, &locale_key, &fkp);
        let mut found = vec![];
        if let Ok(v) = &res2 {
            find_formatter(v, &mut found);
        }
        let bad1 = matches!(res, Ok(Some(_)));
        let bad2 = found.iter().any(|(_, f)| *f != pf::Formatter::None);
        if bad1 || bad2 {
            complete = false;
            let f = Failure {
                signature: "unknown-formatter-name-accepted".into(),
                detail: json!({"name": name, "from_name_and_args": format!("{res:?}"), "string": src, "parsed": format!("{found:?}")}),
            };
            if ctx.fail("parse", None, &f) {
                return false;
            }
        } else {
            ctx.record(CaseInfo {
                hash: hash_str(&format!("parse-unknown:{name}")),
                nontrivial: false,
                classes: vec!["parse:unknown-formatter-name".into()],
                sample: None,
                observations: 2,
            });
        }
    }
    complete
}

// ------------------------------------------------------------------------------------------------
// engine `seq`: call histories in a fresh process

fn gen_opts(t: &mut Tape, unsupported: bool) -> Opts {
    let times: &[usize] = if unsupported { &[D_TIME, 2, 0, 1] } else { &[D_TIME, 2] };
    match t.pick(6) {
        0 => Opts::Number { gs: t.pick(4) },
        1 => Opts::Date { len: [D_DATE, 0, 1, 3][t.pick(4)] },
        2 => Opts::Time { len: times[t.pick(times.len())] },
        3 => Opts::DateTime { date: [D_DATE, 0, 1, 3][t.pick(4)], time: times[t.pick(times.len())] },
        4 => Opts::List { ty: [D_LTYPE, 0, 1][t.pick(3)], style: t.pick(3) },
        _ => Opts::Currency { width: t.pick(2), code: t.pick(CODES.len()) },
    }
}

fn gen_step(t: &mut Tape, threaded: bool, unsupported: bool) -> Step {
    let opts = gen_opts(t, unsupported);
    let locale = t.pick(LOCALES.len());
    let val = match &opts {
        Opts::Number { .. } | Opts::Currency { .. } => Val::Num(t.pick(NUMS.len())),
        Opts::Date { .. } => Val::Date(t.pick(DATES.len())),
        Opts::Time { .. } => Val::Time(t.pick(TIMES.len())),
        Opts::DateTime { .. } => Val::DateTime(t.pick(DATES.len()), t.pick(TIMES.len())),
        Opts::List { .. } => Val::List(t.pick(LISTS.len())),
    };
    let flavour = if threaded { t.pick(2) as u8 } else { t.pick(3) as u8 };
    Step { opts, locale, val, flavour }
}

struct SeqCase {
    /// steps of each thread of the concurrent first phase (empty = no threads)
    threads: Vec<Vec<Step>>,
    /// then, on the main thread
    steps: Vec<Step>,
}

fn gen_seq(t: &mut Tape, unsupported: bool) -> SeqCase {
    let k = [0usize, 2, 3, 4, 8][t.weighted(&[3, 3, 2, 2, 2])];
    let mut threads: Vec<Vec<Step>> = vec![];
    if k > 0 {
        // most of the time the threads race on the *same* first use, or on the same options with
        // different locales (the interesting collisions for a cache keyed by (locale, options))
        let mode = t.weighted(&[2, 3, 3]);
        let shared = gen_step(t, true, unsupported);
        for _ in 0..k {
            let mut mine = vec![];
            let first = match mode {
                0 => gen_step(t, true, unsupported),
                1 => shared.clone(),
                _ => {
                    let mut s = shared.clone();
                    s.locale = t.pick(LOCALES.len());
                    s
                }
            };
            mine.push(first);
            let more = t.range(0, 3);
            for _ in 0..more {
                mine.push(gen_step(t, true, unsupported));
            }
            threads.push(mine);
        }
    }
    let used: usize = threads.iter().map(|v| v.len()).sum();
    let n = t.range(1, 60usize.saturating_sub(used).max(1));
    let mut steps: Vec<Step> = vec![];
    for _ in 0..n {
        // histories revisit earlier options with another locale (and the reverse) half of the time
        if !steps.is_empty() && t.coin() {
            let mut s = steps[t.pick(steps.len())].clone();
            match t.pick(3) {
                0 => s.locale = t.pick(LOCALES.len()),
                1 => {
                    let l = s.locale;
                    s = gen_step(t, false, unsupported);
                    s.locale = l;
                }
                _ => s.flavour = t.pick(3) as u8,
            }
            steps.push(s);
        } else {
            steps.push(gen_step(t, false, unsupported));
        }
    }
    if unsupported && !threads.iter().flatten().chain(steps.iter()).any(|s| !s.opts.icu_can_build()) {
        // this engine is about histories that contain such a call: put one near the front
        let at = t.pick(steps.len().min(3) + 1).min(steps.len());
        let len = t.pick(2);
        steps.insert(at, Step { opts: Opts::Time { len }, locale: t.pick(LOCALES.len()), val: Val::Time(0), flavour: 0 });
    }
    SeqCase { threads, steps }
}

/// executed inside the child process
fn seq_case(t: &mut Tape, unsupported: bool) -> CaseResult {
    let c = gen_seq(t, unsupported);
    let cj = json!({
        "threads (concurrent first phase, released by a barrier)": c.threads.iter().map(|th| th.iter().map(step_json).collect::<Vec<_>>()).collect::<Vec<_>>(),
        "then_sequentially": c.steps.iter().map(step_json).collect::<Vec<_>>(),
    });
    let mut observations = 0u64;
    let mut first_failure: Option<(String, Value)> = None;
    // ---- concurrent phase: all crate calls first (tight race), comparisons afterwards
    if !c.threads.is_empty() {
        let barrier = Arc::new(Barrier::new(c.threads.len()));
        let mut handles = vec![];
        for steps in c.threads.clone() {
            let b = barrier.clone();
            handles.push(std::thread::spawn(move || {
                b.wait();
                steps.iter().map(crate_actual).collect::<Vec<_>>()
            }));
        }
        for (ti, h) in handles.into_iter().enumerate() {
            let results = match h.join() {
                Ok(r) => r,
                Err(e) => {
                    return Err(Failure { signature: "thread-panicked".into(), detail: json!({"thread": ti, "panic": panic_msg(e), "case": cj}) })
                }
            };
            for (si, actual) in results.into_iter().enumerate() {
                let s = &c.threads[ti][si];
                let expected = icu_expected(s);
                observations += 1;
                let same = match (&expected, &actual) {
                    (Ok(e), Ok(a)) => e == a,
                    (Err(_), Err(_)) => true,
                    _ => false,
                };
                if !same && first_failure.is_none() {
                    first_failure = Some((
                        failure_signature(s, &actual),
                        json!({"where": format!("thread {ti}, call {si} of the concurrent phase"), "call": step_json(s),
                               "expected (fresh ICU4X formatter, same options and locale)": expected.unwrap_or_else(|e| format!("<error: {e}>")),
                               "actual": actual.unwrap_or_else(|e| format!("<panic: {e}>"))}),
                    ));
                }
            }
        }
    }
    // ---- sequential phase
    if first_failure.is_none() {
        for (i, s) in c.steps.iter().enumerate() {
            observations += 1;
            if let Err((sig, mut detail)) = check_step(s) {
                detail["where"] = json!(format!("call {i} of the sequential phase"));
                // what the history did before with the same options
                let earlier: Vec<Value> = c
                    .threads
                    .iter()
                    .flatten()
                    .chain(c.steps[..i].iter())
                    .filter(|p| p.opts == s.opts)
                    .map(|p| json!(LOCALES[p.locale].as_str()))
                    .collect();
                detail["locales_used_earlier_with_the_same_options"] = json!(earlier);
                let unbuildable: Vec<Value> = c
                    .threads
                    .iter()
                    .flatten()
                    .chain(c.steps[..i].iter())
                    .filter(|p| !p.opts.icu_can_build())
                    .map(step_json)
                    .collect();
                detail["earlier_calls_ICU4X_cannot_build (the crate panics on them)"] = json!(unbuildable);
                first_failure = Some((sig, detail));
                break;
            }
        }
    }
    if let Some((signature, mut detail)) = first_failure {
        detail["case"] = cj;
        return Err(Failure { signature, detail });
    }
    // ---- classification
    let all: Vec<&Step> = c.threads.iter().flatten().chain(c.steps.iter()).collect();
    let non_default = all.iter().any(|s| s.opts.non_default());
    let mut racing = false;
    let firsts: Vec<&Step> = c.threads.iter().filter_map(|t| t.first()).collect();
    for i in 0..firsts.len() {
        for j in 0..i {
            if firsts[i].opts.kind() == firsts[j].opts.kind() {
                racing = true;
            }
        }
    }
    let mut classes: Vec<String> = vec![];
    if c.threads.is_empty() {
        classes.push("seq:single-thread".into());
    } else {
        classes.push(format!("seq:{}-threads", c.threads.len()));
    }
    if racing {
        classes.push("seq:first-uses-race-on-the-same-formatter-kind".into());
    }
    if all.iter().any(|s| !s.opts.icu_can_build()) {
        classes.push("seq:contains a call ICU4X cannot build (time length full/long; crate panics, not asserted)".into());
    }
    let mut same_opts_other_locale = false;
    for i in 0..all.len() {
        for j in 0..i {
            if all[i].opts == all[j].opts && all[i].locale != all[j].locale {
                same_opts_other_locale = true;
            }
        }
    }
    if same_opts_other_locale {
        classes.push("seq:same-options-different-locales".into());
    }
    for s in &all {
        classes.push(format!("seq:{}", s.opts.kind()));
    }
    classes.sort();
    classes.dedup();
    let txt = serde_json::to_string(&cj).unwrap_or_default();
    Ok(CaseInfo { hash: hash_str(&txt), nontrivial: non_default || racing, classes, sample: Some(cj), observations })
}

// ------------------------------------------------------------------------------------------------
// engine `documented-options`: the time lengths the book documents but ICU4X 1.5 cannot build

/// The book lists `full` and `long` for `time_length` (formatters `time` and `datetime`), ICU4X 1.5
/// has no TimeFormatter / DateTimeFormatter for them (time-zone field) and the crate panics on
/// `expect("A TimeFormatter")`. One probe per documented combination (2 locales each), in process
/// under `catch_unwind`; a panic is reported with the signature
/// `documented-option-panics:<formatter>:time_length=<length>`, a call that yields text is recorded.
fn run_documented_options(ctx: &mut Ctx) {
    let probes: [(&str, &str, Opts, Val); 4] = [
        ("time", "full", Opts::Time { len: 0 }, Val::Time(0)),
        ("time", "long", Opts::Time { len: 1 }, Val::Time(0)),
        ("datetime", "full", Opts::DateTime { date: D_DATE, time: 0 }, Val::DateTime(0, 0)),
        ("datetime", "long", Opts::DateTime { date: D_DATE, time: 1 }, Val::DateTime(0, 0)),
    ];
    for (formatter, length, opts, val) in probes {
        let mut panics: Vec<Value> = vec![];
        let mut passes: Vec<(usize, String)> = vec![];
        for locale in [0usize, 4] {
            let s = Step { opts: opts.clone(), locale, val: val.clone(), flavour: 0 };
            match crate_actual(&s) {
                Ok(text) => passes.push((locale, text)),
                Err(msg) => panics.push(json!({"locale": LOCALES[locale].as_str(), "panic": msg})),
            }
        }
        if panics.is_empty() {
            for (locale, text) in passes {
                ctx.record(CaseInfo {
                    hash: hash_str(&format!("documented-options:{}:{}", opts.describe(), LOCALES[locale].as_str())),
                    nontrivial: true,
                    classes: vec!["documented time length works".into()],
                    sample: Some(json!({"formatter": formatter, "options": opts.describe(), "locale": LOCALES[locale].as_str(), "output": text})),
                    observations: 1,
                });
            }
        } else {
            let f = Failure {
                signature: format!("documented-option-panics:{formatter}:time_length={length}"),
                detail: json!({
                    "formatter": formatter,
                    "options": opts.describe(),
                    "call": "format_*_to_display",
                    "panics": panics,
                    "locales_that_produced_text": passes.iter().map(|(l, t)| json!([LOCALES[*l].as_str(), t])).collect::<Vec<_>>(),
                    "why": "the book documents time_length: full | long; ICU4X 1.5 cannot build a (Date)TimeFormatter with these lengths (time-zone field) and the crate panics instead of formatting",
                }),
            };
            ctx.fail("documented-options", None, &f);
        }
    }
}

const CHILD_ENV: &str = "VERIF_C18_CHILD";

/// child entry: tape words as JSON on stdin, one JSON line on stdout
fn child_main() -> ! {
    // watchdog against a deadlock in the code under test: exit code 3 = inconclusive
    std::thread::spawn(|| {
        std::thread::sleep(std::time::Duration::from_secs(60));
        eprintln!("watchdog: child still running after 60 s");
        std::process::exit(3);
    });
    std::panic::set_hook(Box::new(|_| {})); // panics are caught and reported as values
    let mut input = String::new();
    let _ = std::io::stdin().read_to_string(&mut input);
    let words: Vec<u32> = serde_json::from_str(&input).unwrap_or_default();
    let mut tape = Tape::new(words);
    let unsupported = std::env::var(CHILD_ENV).map(|v| v == "unsupported").unwrap_or(false);
    let out = match seq_case(&mut tape, unsupported) {
        Ok(info) => json!({"ok": {"hash": info.hash, "nontrivial": info.nontrivial, "classes": info.classes, "sample": info.sample, "observations": info.observations}, "consumed": tape.consumed()}),
        Err(f) => json!({"fail": {"signature": f.signature, "detail": f.detail}, "consumed": tape.consumed()}),
    };
    println!("{out}");
    let _ = std::io::stdout().flush();
    std::process::exit(0)
}

/// parent side of one `seq` case
fn seq_in_child(t: &mut Tape, unsupported: bool) -> CaseResult {
    let harness = |msg: String| Failure { signature: "HARNESS-child-process".into(), detail: json!({"error": msg}) };
    let exe = std::env::current_exe().map_err(|e| harness(e.to_string()))?;
    let mut child = Command::new(exe)
        .arg("C18")
        .env(CHILD_ENV, if unsupported { "unsupported" } else { "1" })
        .stdin(Stdio::piped())
        .stdout(Stdio::piped())
        .stderr(Stdio::piped())
        .spawn()
        .map_err(|e| harness(e.to_string()))?;
    let words = serde_json::to_string(t.words()).unwrap_or_default();
    if let Some(mut stdin) = child.stdin.take() {
        let _ = stdin.write_all(words.as_bytes());
    }
    let out = child.wait_with_output().map_err(|e| harness(e.to_string()))?;
    let stdout = String::from_utf8_lossy(&out.stdout).to_string();
    let v: Value = match serde_json::from_str(stdout.trim()) {
        Ok(v) => v,
        Err(_) => {
            let code = out.status.code();
            if code == Some(3) {
                return Err(harness("child watchdog fired (possible deadlock): inconclusive".into()));
            }
            // the process died inside the code under test (abort / poisoned lock outside catch_unwind)
            return Err(Failure {
                signature: "formatter-call-crashed-the-process".into(),
                detail: json!({"status": format!("{:?}", out.status), "stderr": String::from_utf8_lossy(&out.stderr).chars().take(2000).collect::<String>()}),
            });
        }
    };
    // consume as many words as the child did, so that the framework can cut the unused tail
    let consumed = v["consumed"].as_u64().unwrap_or(0) as usize;
    for _ in 0..consumed {
        t.word();
    }
    if let Some(ok) = v.get("ok") {
        Ok(CaseInfo {
            hash: ok["hash"].as_u64().unwrap_or(0),
            nontrivial: ok["nontrivial"].as_bool().unwrap_or(false),
            classes: ok["classes"].as_array().map(|a| a.iter().filter_map(|x| x.as_str().map(String::from)).collect()).unwrap_or_default(),
            sample: ok.get("sample").cloned(),
            observations: ok["observations"].as_u64().unwrap_or(0),
        })
    } else {
        Err(Failure { signature: v["fail"]["signature"].as_str().unwrap_or("?").to_string(), detail: v["fail"]["detail"].clone() })
    }
}

// ------------------------------------------------------------------------------------------------

pub fn run(mut ctx: Ctx) -> ! {
    if std::env::var(CHILD_ENV).is_ok() {
        child_main();
    }
    std::panic::set_hook(Box::new(|_| {})); // panics of the code under test are caught and compared
    if let Some(path) = ctx.replay.clone() {
        let engine = Ctx::replay_engine(&path).unwrap_or_default();
        match engine.as_str() {
            "seq" => {
                ctx.replay_tape("seq", &path, |t| seq_in_child(t, false));
            }
            "seq-unsupported" => {
                ctx.replay_tape("seq-unsupported", &path, |t| seq_in_child(t, true));
            }
            // the enumerated engines have no tape: their replay is the engine itself
            "parse" => {
                run_parse(&mut ctx);
            }
            "macro" => {
                run_macro(&mut ctx);
            }
            "matrix" => {
                run_matrix(&mut ctx);
            }
            "documented-options" => {
                run_documented_options(&mut ctx);
            }
            "reactive" => {
                crate::exec::init();
                ctx.replay_tape("reactive", &path, reactive_case);
            }
            other => ctx.harness_error(format!("replay file names unknown engine {other:?}")),
        }
    } else {
        if std::env::var("VERIF_C18_CUSTOM_PROVIDER").is_ok() {
            ctx.class("configuration: custom ICU data provider (leptos_i18n built without icu_compiled_data)");
        } else {
            run_documented_options(&mut ctx);
        }
        let a = run_parse(&mut ctx);
        let b = run_macro(&mut ctx);
        let c = run_matrix(&mut ctx);
        ctx.set_exhaustive(a && b && c);
        ctx.set_extra(
            "exhaustive_parts",
            json!({
                "parse": "complete: 6 formatter names x all argument states (omitted / each valid value / unknown value / wrong case / 2 misspelt names / every ordered pair duplicated / unknown-then-valid) x both argument orders x 4 extra-argument variants x 4 whitespace styles (+ trailing ';')",
                "macro": "complete: every option combination of every formatter that ICU4X 1.5 can build (time lengths full/long cannot: time-zone field) through td_format_string!/td_format_display!, 32 keys through td_string!/td_display!, x 8 locales x 3 values",
                "matrix": "complete: every option combination ICU4X 1.5 can build x value pool x 8 locales x 3 flavours of the __private helpers",
                "seq": "sampled (not exhaustive): generated call histories / thread schedules",
                "documented-options": "the 4 documented combinations ICU4X 1.5 cannot build (time / datetime x time_length full / long) x 2 locales: a panic is reported as documented-option-panics:*",
            }),
        );
        // live context, locale switches between creating and rendering views
        crate::exec::init();
        let cases = ctx.tier.scale(1_500, 30_000);
        ctx.run_tapes("reactive", cases, 120, reactive_case);
        let cases = ctx.tier.scale(800, 12_000);
        ctx.run_tapes("seq", cases, 300, |t| seq_in_child(t, false));
        // histories that contain a call ICU4X cannot build (documented `time_length: full|long`)
        let cases = ctx.tier.scale(120, 2_000);
        ctx.run_tapes("seq-unsupported", cases, 300, |t| seq_in_child(t, true));
    }
    ctx.finish(
        "parse side enumerated exhaustively: formatter name x argument states x order x unknown extra arguments x whitespace variants, \
         through Formatter::from_name_and_args and ParsedValue::new(\"{{ v, name(args) }}\"), against a model of the documented \
         defaults (auto / short+USD / medium / short / medium+short / unit+wide; option name list_style as in code and fixtures). \
         Runtime side: (macro) the full option matrix spelled with td_format_string!/td_format_display! and td_string!/td_display! \
         keys; (matrix) the __private format_*_to_display/_to_formatter/_to_view helpers for every option combination x value pool \
         x 8 locales (en fr de es ar ja hi ru); (seq) generated call histories of up to 60 calls, optionally preceded by 2-8 \
         threads released by a Barrier for concurrent first uses, each history in a fresh child process; every single result is \
         compared with a freshly constructed ICU4X formatter (icu_decimal / icu_datetime / icu_list / icu_experimental currency) \
         with the same options and the locale's icu Locale. non-trivial = a call / parse whose expected options are not all \
         defaults, or a history whose threads race on first uses of the same formatter kind; distinct = hash of the serialised \
         input (parse string / call / history)",
        &[
            "the book's `list_length` spelling is not asserted either way (code and fixtures use `list_style`)",
            "a duplicated argument is expected to take its first recognised occurrence (behaviour of the reference tree, not documented); its failures carry their own signature `duplicate-arg-not-first:*`",
            "an unknown value followed by a valid value for the same argument may yield either the default or the valid value",
            "currency codes are upper-case ISO codes; other spellings are not asserted",
            "thread interleavings are sampled (std::sync::RwLock inside the crate), not enumerated",
            "floats use the documented FixedDecimal::try_from_f64(.., Floating) conversion on both sides",
        ],
        200,
    )
}
