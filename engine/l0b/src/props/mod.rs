use vcommon::ctx::Ctx;

pub mod c14;
pub mod c18;

pub fn dispatch(prop: &str, ctx: Ctx) -> ! {
    match prop {
        "C14" => c14::run(ctx),
        "C18" => c18::run(ctx),
        other => {
            eprintln!("harness error: unknown property {other:?}");
            std::process::exit(2)
        }
    }
}
