//! C14 — URL locale prefixes are matched by whole segment and rewritten reversibly.
//!
//! Observation points: the router's private path helpers through `leptos_i18n_router::verif_hooks`
//! (`get_locale_from_path`, `get_new_path`, `localize_path`) and a natively built `I18nRoute`
//! (`generate_routes()`, `match_nested(path)`).
//!
//! Oracle = segment model:
//!   * a locale is read from a path iff the first non-empty segment after the base path equals the
//!     name of a supported locale exactly;
//!   * switching from A to B yields base + (B's prefix unless B is the default) + the same route
//!     instantiated with B's localized segment names and the same parameter values, followed by the
//!     unchanged `?query` and `#hash`; when several routes of the table match the old path, any of
//!     their instantiations is accepted; when none matches, the segments are kept;
//!   * A -> ... -> A gives back the initial URL when that URL was canonical (leading slash, no empty
//!     segments, no trailing slash, no prefix for the default locale);
//!   * `generate_routes()` yields N+1 families (one per locale with the locale prefix and that
//!     locale's segment names, plus the unprefixed default family);
//!   * `match_nested` attributes a locale to a path only if the first segment equals its name.
//!
//! Known defect classes are kept apart by *engines* whose generator excludes the other trigger
//! classes by construction (so each genuine defect is reported with its own signature and the
//! `core` engines keep exploring behind them).

use std::collections::{BTreeMap, BTreeSet, HashMap};
use std::sync::{Mutex, RwLock};

use leptos::children::ToChildren;
use leptos::prelude::*;
use leptos_i18n_router::verif_hooks as hooks;
use leptos_i18n_router::I18nRoute;
use leptos_router::components::RouteChildren;
use leptos_router::location::{Location, State};
use leptos_router::params::ParamsMap;
use leptos_router::{
    MatchInterface, MatchNestedRoutes, NestedRoute, OptionalParamSegment, ParamSegment, PartialPathMatch, PathSegment,
    PossibleRouteMatch, StaticSegment, WildcardSegment,
};
use serde_json::{json, Value};
use vcommon::ctx::{hash_str, CaseInfo, CaseResult, Ctx, Failure};
use vcommon::tape::Tape;

use crate::dynlocale::{self, DynLocale, NAMES, PREFIX_FREE};

// ------------------------------------------------------------------------------------------------
// model

#[derive(Clone, Debug, PartialEq, Eq, PartialOrd, Ord)]
enum Seg {
    Static(String),
    /// localized segment: key into `Table::loc_names`
    Loc(usize),
    Param(String),
    Opt(String),
    Splat(String),
}

#[derive(Clone, Debug)]
struct Table {
    routes: Vec<Vec<Seg>>,
    /// key -> name per position in the case's locale set
    loc_names: Vec<Vec<String>>,
}

#[derive(Clone, Debug, PartialEq, Eq, PartialOrd, Ord)]
enum Bind {
    /// static / localized segment (matched literally)
    Lit,
    One(String),
    Absent,
    Many(Vec<String>),
}

impl Table {
    fn seg_name(&self, seg: &Seg, li: usize) -> String {
        match seg {
            Seg::Static(s) => s.clone(),
            Seg::Loc(k) => self.loc_names[*k][li].clone(),
            Seg::Param(n) | Seg::Opt(n) | Seg::Splat(n) => n.clone(),
        }
    }

    /// every way `segs` (non-empty path segments) matches route `r` under locale `li`
    fn match_route(&self, r: usize, li: usize, segs: &[String]) -> Vec<Vec<Bind>> {
        let mut out = vec![];
        self.match_rec(&self.routes[r], li, segs, &mut vec![], &mut out);
        out
    }

    fn match_rec(&self, pat: &[Seg], li: usize, segs: &[String], acc: &mut Vec<Bind>, out: &mut Vec<Vec<Bind>>) {
        let Some((first, rest)) = pat.split_first() else {
            if segs.is_empty() {
                out.push(acc.clone());
            }
            return;
        };
        match first {
            Seg::Static(_) | Seg::Loc(_) => {
                let name = self.seg_name(first, li);
                if name.is_empty() {
                    acc.push(Bind::Lit);
                    self.match_rec(rest, li, segs, acc, out);
                    acc.pop();
                } else if segs.first() == Some(&name) {
                    acc.push(Bind::Lit);
                    self.match_rec(rest, li, &segs[1..], acc, out);
                    acc.pop();
                }
            }
            Seg::Param(_) => {
                if let Some(s) = segs.first() {
                    acc.push(Bind::One(s.clone()));
                    self.match_rec(rest, li, &segs[1..], acc, out);
                    acc.pop();
                }
            }
            Seg::Opt(_) => {
                if let Some(s) = segs.first() {
                    acc.push(Bind::One(s.clone()));
                    self.match_rec(rest, li, &segs[1..], acc, out);
                    acc.pop();
                }
                acc.push(Bind::Absent);
                self.match_rec(rest, li, segs, acc, out);
                acc.pop();
            }
            Seg::Splat(_) => {
                // a splat is always last
                acc.push(Bind::Many(segs.to_vec()));
                if rest.is_empty() {
                    out.push(acc.clone());
                }
                acc.pop();
            }
        }
    }

    fn instantiate(&self, r: usize, li: usize, binding: &[Bind]) -> Vec<String> {
        let mut out = vec![];
        for (seg, b) in self.routes[r].iter().zip(binding) {
            match b {
                Bind::Lit => {
                    let n = self.seg_name(seg, li);
                    if !n.is_empty() {
                        out.push(n);
                    }
                }
                Bind::One(v) => out.push(v.clone()),
                Bind::Absent => {}
                Bind::Many(v) => out.extend(v.iter().cloned()),
            }
        }
        out
    }

    /// all (route, binding) that match `segs` under locale `li`
    fn all_matches(&self, li: usize, segs: &[String]) -> Vec<(usize, Vec<Bind>)> {
        let mut out = vec![];
        for r in 0..self.routes.len() {
            for b in self.match_route(r, li, segs) {
                out.push((r, b));
            }
        }
        out
    }

    /// what `generate_routes_for_each_locale` is expected to hold: per locale, per route,
    /// `[Static("")]` (the wrapper route) followed by the route's segments in that locale
    fn path_segments(&self, li: usize, r: usize) -> Vec<PathSegment> {
        let mut v = vec![PathSegment::Static("".into())];
        for seg in &self.routes[r] {
            v.push(match seg {
                Seg::Static(_) | Seg::Loc(_) => PathSegment::Static(self.seg_name(seg, li).into()),
                Seg::Param(n) => PathSegment::Param(n.clone().into()),
                Seg::Opt(n) => PathSegment::OptionalParam(n.clone().into()),
                Seg::Splat(n) => PathSegment::Splat(n.clone().into()),
            });
        }
        v
    }
}

fn split(path: &str) -> Vec<String> {
    path.split('/').filter(|s| !s.is_empty()).map(|s| s.to_string()).collect()
}

fn join(segs: &[String]) -> String {
    if segs.is_empty() {
        "/".to_string()
    } else {
        format!("/{}", segs.join("/"))
    }
}

/// does `word` have the name of a locale of `set` as a *strict* prefix?
fn strict_prefix_of(word: &str, set: &[u8]) -> Option<&'static str> {
    set.iter()
        .map(|i| NAMES[*i as usize])
        .find(|n| word.len() > n.len() && word.starts_with(n))
}

fn full_url(path: &str, search: &str, hash: &str) -> String {
    let mut s = path.to_string();
    if !search.is_empty() {
        s.push('?');
        s.push_str(search);
    }
    if !hash.is_empty() {
        if !hash.starts_with('#') {
            s.push('#');
        }
        s.push_str(hash);
    }
    s
}

// ------------------------------------------------------------------------------------------------
// generator

#[derive(Clone, Copy, Debug, Default)]
struct Mask {
    /// first segments / locale names that have a locale name as a strict prefix
    prefix_words: bool,
    /// base paths "", "app", "/app", "app/", "a/b" (the core uses "/", "/app/", "/a/b/"):
    /// Some(i) = always ODD_BASES[i], Some(usize::MAX) = any of them
    odd_base: Option<usize>,
    /// the generating route instance may have an optional parameter that is present
    optional_present: bool,
    /// the generating route instance may end with absent optionals or an empty splat
    trailing_empty: bool,
    /// `Location::hash` in the form the browser provider stores it ("#frag")
    browser_hash: bool,
}

const SAFE_STATICS: &[&str] = &["counter", "about", "home", "blog", "x", "users", "42", "a-b"];
const PREFIX_STATICS: &[&str] = &[
    "english", "french", "frame", "deutsch", "items", "estate", "article", "en-USA", "nlp", "zhongwen", "pt-BRA", "ptolemy",
    "ar-chive", "entry", "de-CHx",
];
const SAFE_VALUES: &[&str] = &["42", "x", "about", "7", "é", "a-b", "users", "0"];
const LOC_WORDS: &[&[&str]] = &[
    &["search", "rechercher", "suche", "buscar", "cerca", "zoeken"],
    &["users", "utilisateurs", "benutzer", "usuarios", "utenti", "gebruikers"],
    &["edit", "modifier", "bearbeiten", "cambiar", "modifica", "bewerken"],
    &["blog", "blogue", "blog", "blog", "blog", "blog"],
];
const PREFIX_LOC_WORDS: &[&[&str]] = &[&["english", "francais", "deutsch", "italiano", "espanol", "portugues"]];
const SUFFIXES: &[&str] = &["glish", "x", "-X", "s", "tem", ".html", "-"];
const SEARCHES: &[&str] = &["", "a=1", "q=en&lang=fr", "x=%2Fen%2F&y", "redirect=/fr/x", "?a=1", "?", "??x", "a=?&b=%23", "&", "=", "a=1&"];
const BARE_HASHES: &[&str] = &["", "top", "a/b", "en"];
const BROWSER_HASHES: &[&str] = &["#top", "#/en/x", "#a?b"];
const CORE_BASES: &[&str] = &["/", "/app/", "/a/b/"];
const ODD_BASES: &[&str] = &["", "app", "/app", "app/", "a/b"];

#[derive(Clone, Debug)]
struct Case {
    set: Vec<u8>,
    base: String,
    table: Table,
    /// locale (position in `set`) the initial URL is written in
    start: usize,
    /// initial URL carries the locale prefix (always true for a non-default start)
    start_prefixed: bool,
    /// path segments after base and prefix
    rest: Vec<String>,
    /// the route instance the rest was generated from (None = free segments)
    inst: Option<(usize, Vec<Bind>)>,
    /// 0 canonical, 1 trailing slash, 2 doubled slash inside the rest
    style: u8,
    search: String,
    hash: String,
    /// (target locale position, how the `locale` argument is obtained:
    ///  0 = Some(previous locale) [update_path_effect], 1 = the locale the URL shows [correct_locale_prefix_effect /
    ///  maybe_redirect], 2 = the real get_locale_from_path on the current URL [as correct_locale_prefix_effect does])
    switches: Vec<(usize, u8)>,
    /// extra paths only read with get_locale_from_path
    probes: Vec<String>,
}

fn gen_set(t: &mut Tape, mask: Mask) -> Vec<u8> {
    let universe = if mask.prefix_words { NAMES.len() } else { PREFIX_FREE };
    let n = 1 + t.weighted(&[2, 5, 4, 2, 1]); // 1..=5
    let mut set: Vec<u8> = vec![];
    for _ in 0..n {
        let mut i = t.pick(universe) as u8;
        // keep names distinct (deterministic linear probe)
        while set.contains(&i) {
            i = (i + 1) % universe as u8;
        }
        set.push(i);
    }
    set
}

fn gen_static(t: &mut Tape, mask: Mask, set: &[u8]) -> String {
    if mask.prefix_words && t.chance(1, 2) {
        if t.coin() {
            PREFIX_STATICS[t.pick(PREFIX_STATICS.len())].to_string()
        } else {
            let l = NAMES[set[t.pick(set.len())] as usize];
            format!("{l}{}", SUFFIXES[t.pick(SUFFIXES.len())])
        }
    } else {
        SAFE_STATICS[t.pick(SAFE_STATICS.len())].to_string()
    }
}

fn gen_value(t: &mut Tape, mask: Mask, set: &[u8]) -> String {
    if mask.prefix_words && t.chance(1, 3) {
        gen_static(t, mask, set)
    } else {
        SAFE_VALUES[t.pick(SAFE_VALUES.len())].to_string()
    }
}

fn gen_table(t: &mut Tape, mask: Mask, set: &[u8]) -> Table {
    // localized names
    let n_keys = t.range(1, 4);
    let mut loc_names = vec![];
    for k in 0..n_keys {
        let words: &[&str] = if mask.prefix_words && t.chance(1, 3) {
            PREFIX_LOC_WORDS[0]
        } else {
            LOC_WORDS[k % LOC_WORDS.len()]
        };
        let same = t.chance(1, 5);
        let rot = t.pick(words.len());
        let names: Vec<String> = (0..set.len())
            .map(|li| if same { words[rot].to_string() } else { words[(li + rot) % words.len()].to_string() })
            .collect();
        loc_names.push(names);
    }
    let n_routes = t.range(1, 5);
    let mut routes: Vec<Vec<Seg>> = vec![];
    if t.chance(2, 3) {
        routes.push(vec![Seg::Static(String::new())]); // home
    }
    let optional_in_tables = true;
    for _ in 0..n_routes {
        let len = t.range(1, 3);
        let mut r = vec![];
        for i in 0..len {
            let last = i + 1 == len;
            let mut w = [4u32, 4, 2, 0, 0];
            if optional_in_tables && !(last && !mask.trailing_empty && !mask.optional_present) {
                w[3] = 1;
            }
            if last {
                w[4] = 1;
            }
            r.push(match t.weighted(&w) {
                0 => Seg::Static(gen_static(t, mask, set)),
                1 => Seg::Loc(t.pick(n_keys)),
                2 => Seg::Param(["id", "slug"][t.pick(2)].to_string()),
                3 => Seg::Opt(["tab", "page"][t.pick(2)].to_string()),
                _ => Seg::Splat("rest".to_string()),
            });
        }
        // an index child route under a parent: (..., "")
        if mask.trailing_empty && !matches!(r.last(), Some(Seg::Splat(_))) && t.chance(1, 4) {
            r.push(Seg::Static(String::new()));
        }
        routes.push(r);
    }
    Table { routes, loc_names }
}

fn gen_instance(t: &mut Tape, mask: Mask, set: &[u8], table: &Table, li: usize) -> (Vec<String>, Option<(usize, Vec<Bind>)>) {
    if t.chance(1, 6) {
        // free segments (may or may not match a route)
        let n = t.range(0, 3);
        let rest: Vec<String> = (0..n).map(|_| gen_value(t, mask, set)).collect();
        return (rest, None);
    }
    let r = t.pick(table.routes.len());
    let pat = &table.routes[r];
    let mut binding = vec![];
    for (i, seg) in pat.iter().enumerate() {
        // is everything after this segment going to be empty?
        let last = i + 1 == pat.len();
        binding.push(match seg {
            Seg::Static(_) | Seg::Loc(_) => Bind::Lit,
            Seg::Param(_) => Bind::One(gen_value(t, mask, set)),
            Seg::Opt(_) => {
                let present = mask.optional_present && t.coin();
                if present {
                    Bind::One(gen_value(t, mask, set))
                } else {
                    Bind::Absent
                }
            }
            Seg::Splat(_) => {
                let lo = if mask.trailing_empty { 0 } else { 1 };
                let n = t.range(lo, 3);
                let _ = last;
                Bind::Many((0..n).map(|_| gen_value(t, mask, set)).collect())
            }
        });
    }
    // core mode: an absent optional must not be trailing (nothing but empties after it)
    if !mask.trailing_empty {
        let mut trailing_empty = false;
        for (seg, b) in pat.iter().zip(&binding).rev() {
            match (seg, b) {
                (Seg::Static(s), _) if s.is_empty() => continue,
                (_, Bind::Absent) => {
                    trailing_empty = true;
                    break;
                }
                (_, Bind::Many(v)) if v.is_empty() => {
                    trailing_empty = true;
                    break;
                }
                _ => break,
            }
        }
        if trailing_empty {
            // make the trailing optional(s) present instead when allowed, otherwise fall back to free segments
            let rest: Vec<String> = vec![SAFE_VALUES[t.pick(SAFE_VALUES.len())].to_string()];
            return (rest, None);
        }
    }
    let rest = table.instantiate(r, li, &binding);
    (rest, Some((r, binding)))
}

fn gen_case(t: &mut Tape, mask: Mask) -> Case {
    let set = gen_set(t, mask);
    let base = if let Some(i) = mask.odd_base {
        if i < ODD_BASES.len() {
            ODD_BASES[i].to_string()
        } else if t.chance(3, 4) {
            ODD_BASES[t.pick(ODD_BASES.len())].to_string()
        } else {
            CORE_BASES[t.weighted(&[3, 2, 1])].to_string()
        }
    } else {
        CORE_BASES[t.weighted(&[3, 2, 1])].to_string()
    };
    let table = gen_table(t, mask, &set);
    let start = t.pick(set.len());
    let (rest, inst) = gen_instance(t, mask, &set, &table, start);
    let mut start_prefixed = start != 0 || t.chance(1, 4);
    // a first segment equal to a locale name *is* a locale prefix: never leave it unprefixed
    if let Some(first) = rest.first() {
        if set.iter().any(|i| NAMES[*i as usize] == first) {
            start_prefixed = true;
        }
    }
    let style = t.weighted(&[6, 1, 1]) as u8;
    let search = SEARCHES[t.pick(SEARCHES.len())].to_string();
    let hash = if mask.browser_hash && t.chance(2, 3) {
        BROWSER_HASHES[t.pick(BROWSER_HASHES.len())].to_string()
    } else {
        BARE_HASHES[t.pick(BARE_HASHES.len())].to_string()
    };
    let n_sw = t.range(1, 6);
    let mut switches = vec![];
    let mut cur = start;
    for i in 0..n_sw {
        // the last switch goes back to the start locale most of the time (A -> ... -> A)
        let target = if i + 1 == n_sw && t.chance(3, 4) { start } else { t.pick(set.len()) };
        let how = t.weighted(&[3, 2, 2]) as u8;
        if target != cur || t.chance(1, 8) {
            switches.push((target, how));
            cur = target;
        }
    }
    let n_probe = t.range(0, 3);
    let base_segs = split(&base);
    let mut probes = vec![];
    for _ in 0..n_probe {
        let mut segs: Vec<String> = vec![];
        match t.pick(4) {
            // under the base
            0 | 1 => {
                segs.extend(base_segs.iter().cloned());
                let n = t.range(0, 3);
                for j in 0..n {
                    if j == 0 && t.coin() {
                        // a locale name, possibly in another case
                        let l = NAMES[set[t.pick(set.len())] as usize];
                        segs.push(if t.chance(1, 4) { l.to_uppercase() } else { l.to_string() });
                    } else {
                        segs.push(gen_value(t, mask, &set));
                    }
                }
            }
            // not under the base: first base segment extended / replaced
            2 => {
                if let Some(b) = base_segs.first() {
                    let l = NAMES[set[t.pick(set.len())] as usize];
                    segs.push(if mask.odd_base.is_some() && t.coin() { format!("{b}{l}") } else { format!("{b}le") });
                } else {
                    segs.push(gen_value(t, mask, &set));
                }
                segs.push(NAMES[set[t.pick(set.len())] as usize].to_string());
                segs.push("x".into());
            }
            // locale name only in second position
            _ => {
                segs.extend(base_segs.iter().cloned());
                segs.push(gen_value(t, mask, &set));
                segs.push(NAMES[set[t.pick(set.len())] as usize].to_string());
            }
        }
        let mut p = join(&segs);
        if t.chance(1, 5) && p != "/" {
            p.push('/');
        }
        probes.push(p);
    }
    Case { set, base, table, start, start_prefixed, rest, inst, style, search, hash, switches, probes }
}

fn case_json(c: &Case) -> Value {
    let name = |li: usize| NAMES[c.set[li] as usize];
    json!({
        "locales (first = default)": c.set.iter().map(|i| NAMES[*i as usize]).collect::<Vec<_>>(),
        "base_path": c.base,
        "routes": c.table.routes.iter().map(|r| r.iter().map(|s| match s {
            Seg::Static(s) => format!("{s:?}"),
            Seg::Loc(k) => format!("i18n({})", c.table.loc_names[*k].join("|")),
            Seg::Param(n) => format!(":{n}"),
            Seg::Opt(n) => format!(":{n}?"),
            Seg::Splat(n) => format!("*{n}"),
        }).collect::<Vec<_>>()).collect::<Vec<_>>(),
        "start_locale": name(c.start),
        "start_prefixed": c.start_prefixed,
        "rest": c.rest,
        "from_route": c.inst.as_ref().map(|(r, b)| json!({"route": r, "binding": format!("{b:?}")})),
        "path_style": c.style,
        "search": c.search,
        "hash": c.hash,
        "switches": c.switches.iter().map(|(l, how)| json!([name(*l), how])).collect::<Vec<_>>(),
        "probes": c.probes,
    })
}

// ------------------------------------------------------------------------------------------------
// observation helpers

fn make_location(path: &str, search: &str, hash: &str) -> Location {
    let (p, s, h) = (path.to_string(), search.to_string(), hash.to_string());
    Location {
        pathname: Memo::new(move |_| p.clone()),
        search: Memo::new(move |_| s.clone()),
        query: Memo::new(move |_| ParamsMap::new()),
        hash: Memo::new(move |_| h.clone()),
        state: RwSignal::new(State::new(None)).read_only(),
    }
}

fn expected_locale(set: &[u8], base_segs: &[String], path: &str) -> Option<usize> {
    let segs = split(path);
    if segs.len() <= base_segs.len() || segs[..base_segs.len()] != base_segs[..] {
        return None;
    }
    let first = &segs[base_segs.len()];
    set.iter().position(|i| NAMES[*i as usize] == first)
}

fn normalized_base(base_segs: &[String]) -> String {
    if base_segs.is_empty() {
        "/".to_string()
    } else {
        format!("/{}/", base_segs.join("/"))
    }
}

fn is_odd_base(base: &str) -> bool {
    ODD_BASES.contains(&base)
}

/// check `get_locale_from_path` on one path
fn check_read(c: &Case, cj: &Value, path: &str, obs: &mut u64) -> Result<(), Failure> {
    let base_segs = split(&c.base);
    let expected = expected_locale(&c.set, &base_segs, path).map(|li| DynLocale(c.set[li]));
    let actual = hooks::get_locale_from_path::<DynLocale>(path, &c.base);
    *obs += 1;
    if actual == expected {
        return Ok(());
    }
    let signature = if is_odd_base(&c.base)
        && hooks::get_locale_from_path::<DynLocale>(path, &normalized_base(&base_segs)) == expected
    {
        "base-path-form"
    } else {
        let segs = split(path);
        let first = segs.get(base_segs.len()).cloned().unwrap_or_default();
        if strict_prefix_of(&first, &c.set).is_some() {
            "prefix-not-whole-segment"
        } else {
            "locale-read-mismatch"
        }
    };
    Err(Failure {
        signature: signature.into(),
        detail: json!({
            "function": "get_locale_from_path(path, base_path)",
            "path": path, "base_path": c.base,
            "expected": expected.map(|l| l.name()), "actual": actual.map(|l| l.name()),
            "why": "a locale is read only when the first segment after the base path equals a locale name exactly",
            "case": cj,
        }),
    })
}

fn segments_map(c: &Case) -> HashMap<DynLocale, Vec<Vec<PathSegment>>> {
    let mut m = HashMap::new();
    for (li, l) in c.set.iter().enumerate() {
        let routes: Vec<Vec<PathSegment>> = (0..c.table.routes.len()).map(|r| c.table.path_segments(li, r)).collect();
        m.insert(DynLocale(*l), routes);
    }
    m
}

fn styled_path(segs_before: &[String], rest: &[String], style: u8) -> String {
    let mut all: Vec<String> = segs_before.to_vec();
    all.extend(rest.iter().cloned());
    let mut p = join(&all);
    match style {
        1 if p != "/" => p.push('/'),
        2 if rest.len() >= 2 => {
            // doubled slash between the last two rest segments (never at the base / prefix boundary)
            let tail = rest.last().unwrap();
            let cut = p.len() - tail.len();
            p.insert(cut, '/');
        }
        _ => {}
    }
    p
}

/// what the model says about one switch step
struct StepModel {
    next_rests: BTreeSet<Vec<String>>,
    /// number of (current rest, route, binding) matches
    match_count: usize,
    matched_any: bool,
    localized_differs: bool,
    /// some matching route instance has an optional parameter that is present
    opt_present: bool,
    /// some matching route instance consumed segments and ends with elements that consume nothing
    /// (absent optional, empty splat, index route "")
    trailing_empty: bool,
}

fn step_model(table: &Table, cur_locale: usize, target: usize, cur_rests: &BTreeSet<Vec<String>>) -> StepModel {
    let mut m = StepModel {
        next_rests: BTreeSet::new(),
        match_count: 0,
        matched_any: false,
        localized_differs: false,
        opt_present: false,
        trailing_empty: false,
    };
    for rest in cur_rests {
        let ms = table.all_matches(cur_locale, rest);
        if ms.is_empty() {
            m.next_rests.insert(rest.clone());
        }
        for (r, b) in ms {
            m.matched_any = true;
            m.match_count += 1;
            let inst = table.instantiate(r, target, &b);
            if inst != *rest {
                m.localized_differs = true;
            }
            m.next_rests.insert(inst);
            // trigger classes of this instance
            let pat = &table.routes[r];
            let consuming: Vec<bool> = pat
                .iter()
                .zip(&b)
                .map(|(seg, b)| match b {
                    Bind::Lit => !table.seg_name(seg, cur_locale).is_empty(),
                    Bind::One(_) => true,
                    Bind::Absent => false,
                    Bind::Many(v) => !v.is_empty(),
                })
                .collect();
            if pat.iter().zip(&b).any(|(seg, b)| matches!((seg, b), (Seg::Opt(_), Bind::One(_)))) {
                m.opt_present = true;
            }
            if consuming.iter().any(|c| *c) && consuming.last() == Some(&false) {
                m.trailing_empty = true;
            }
        }
    }
    m
}

/// trigger classes the model predicts for the whole switch history of a case
fn history_triggers(c: &Case) -> (bool, bool) {
    let mut cur_locale = c.start;
    let mut cur_rests: BTreeSet<Vec<String>> = BTreeSet::new();
    cur_rests.insert(c.rest.clone());
    let (mut opt, mut trail) = (false, false);
    for (target, _) in &c.switches {
        let m = step_model(&c.table, cur_locale, *target, &cur_rests);
        opt |= m.opt_present;
        trail |= m.trailing_empty;
        cur_rests = m.next_rests;
        cur_locale = *target;
    }
    (opt, trail)
}

struct SwitchOutcome {
    classes: Vec<String>,
    nontrivial: bool,
}

/// drive the switch history of the case through `get_new_path`
fn check_switches(
    c: &Case,
    cj: &Value,
    segments: &HashMap<DynLocale, Vec<Vec<PathSegment>>>,
    obs: &mut u64,
) -> Result<SwitchOutcome, Failure> {
    let base_segs = split(&c.base);
    let name = |li: usize| NAMES[c.set[li] as usize].to_string();
    let mut classes: Vec<String> = vec![];
    let mut nontrivial = false;

    // the URL the history starts from
    let mut before: Vec<String> = base_segs.clone();
    if c.start_prefixed {
        before.push(name(c.start));
    }
    let initial_path = styled_path(&before, &c.rest, c.style);
    let initial_canonical = c.style == 0 && !(c.start == 0 && c.start_prefixed);
    let initial_url = full_url(&initial_path, &c.search, &c.hash);

    // model state
    let mut cur_locale = c.start;
    let mut cur_prefixed = c.start_prefixed;
    let mut cur_path = initial_path.clone();
    // possible current rests (several when the table is ambiguous)
    let mut cur_rests: BTreeSet<Vec<String>> = BTreeSet::new();
    cur_rests.insert(c.rest.clone());

    if !base_segs.is_empty() {
        nontrivial = true;
        classes.push("non-root-base-path".into());
    }
    if let Some(first) = c.rest.first() {
        if strict_prefix_of(first, &c.set).is_some() && !cur_prefixed {
            nontrivial = true;
            classes.push("first-segment-has-locale-name-as-strict-prefix".into());
        }
    }
    if cur_prefixed && strict_prefix_of(&name(cur_locale), &c.set).is_some() {
        nontrivial = true;
        classes.push("prefix-locale-has-other-locale-as-strict-prefix".into());
    }

    check_read(c, cj, &cur_path, obs)?;

    // the round trip is the identity only when every step is unambiguous: the path is an instance
    // of exactly one route at every step, or of none at every step
    let mut all_unique = true;
    let mut all_free = true;

    for (step, (target, how)) in c.switches.iter().enumerate() {
        // expected rests under the target locale
        let sm = step_model(&c.table, cur_locale, *target, &cur_rests);
        let next_rests = sm.next_rests.clone();
        all_unique &= cur_rests.len() == 1 && sm.match_count == 1;
        all_free &= sm.match_count == 0;
        let (matched_any, localized_differs) = (sm.matched_any, sm.localized_differs);
        if localized_differs {
            nontrivial = true;
            classes.push("localized-segment-differs-between-A-and-B".into());
        }
        if next_rests.len() > 1 {
            classes.push("ambiguous-route-table".into());
        }
        if !matched_any {
            classes.push("path-matches-no-route".into());
        }
        let mut exp_before = base_segs.clone();
        if *target != 0 {
            exp_before.push(name(*target));
        }
        let expected_urls: Vec<String> = next_rests
            .iter()
            .map(|rest| {
                let mut all = exp_before.clone();
                all.extend(rest.iter().cloned());
                full_url(&join(&all), &c.search, &c.hash)
            })
            .collect();

        // the `locale` argument
        let model_path_locale = if cur_prefixed { Some(DynLocale(c.set[cur_locale])) } else { None };
        let locale_arg = match how {
            0 => Some(DynLocale(c.set[cur_locale])),
            1 => model_path_locale,
            _ => hooks::get_locale_from_path::<DynLocale>(&cur_path, &c.base),
        };
        let call = |base: &str| {
            let owner = Owner::new();
            let out = owner.with(|| {
                let loc = make_location(&cur_path, &c.search, &c.hash);
                hooks::get_new_path(&loc, base, DynLocale(c.set[*target]), locale_arg, segments.clone())
            });
            drop(owner);
            out
        };
        let actual = call(&c.base);
        *obs += 1;

        // compare: path segments, query, fragment
        let (a_nofrag, a_frag) = match actual.find('#') {
            Some(i) => (&actual[..i], &actual[i..]),
            None => (&actual[..], ""),
        };
        let (a_path, a_query) = match a_nofrag.find('?') {
            Some(i) => (&a_nofrag[..i], Some(&a_nofrag[i + 1..])),
            None => (a_nofrag, None),
        };
        let exp_frag = if c.hash.is_empty() {
            String::new()
        } else if c.hash.starts_with('#') {
            c.hash.clone()
        } else {
            format!("#{}", c.hash)
        };
        let exp_query = if c.search.is_empty() { None } else { Some(c.search.as_str()) };
        let path_ok = a_path.starts_with('/')
            && next_rests.iter().any(|rest| {
                let mut all = exp_before.clone();
                all.extend(rest.iter().cloned());
                split(a_path) == all
            });
        let query_ok = a_query == exp_query;
        let frag_ok = a_frag == exp_frag;
        if !(path_ok && query_ok && frag_ok) {
            let signature: String = if !path_ok {
                let first = c.rest.first().cloned().unwrap_or_default();
                let prefix_class = (!cur_prefixed && strict_prefix_of(&first, &c.set).is_some())
                    || (cur_prefixed && strict_prefix_of(&name(cur_locale), &c.set).is_some());
                let norm_ok = is_odd_base(&c.base) && {
                    let again = call(&normalized_base(&base_segs));
                    let p = again.split(['?', '#']).next().unwrap_or("").to_string();
                    next_rests.iter().any(|rest| {
                        let mut all = exp_before.clone();
                        all.extend(rest.iter().cloned());
                        split(&p) == all
                    })
                };
                let (opt_present, trailing_empty) = (sm.opt_present, sm.trailing_empty);
                if norm_ok {
                    "base-path-form".into()
                } else if prefix_class {
                    "prefix-not-whole-segment".into()
                } else if opt_present {
                    "optional-param-present-not-localized".into()
                } else if trailing_empty {
                    "trailing-optional-or-empty-splat-not-localized".into()
                } else {
                    "switch-path-mismatch".into()
                }
            } else if !query_ok {
                "query-not-preserved".into()
            } else if a_frag == format!("#{exp_frag}") {
                "fragment-hash-doubled".into()
            } else {
                "fragment-not-preserved".into()
            };
            let how_txt = ["previous locale", "locale shown by the URL", "get_locale_from_path(current URL)"][*how as usize];
            return Err(Failure {
                signature,
                detail: json!({
                    "function": "get_new_path(location, base_path, new_locale, locale, segments)",
                    "step": step,
                    "location": {"pathname": cur_path, "search": c.search, "hash": c.hash},
                    "base_path": c.base,
                    "from_locale": name(cur_locale),
                    "locale_argument": locale_arg.map(|l| l.name()),
                    "locale_argument_source": how_txt,
                    "new_locale": name(*target),
                    "expected_any_of": expected_urls,
                    "actual": actual,
                    "case": cj,
                }),
            });
        }

        // localize_path seen directly: whatever it rebuilds must be one of the expected rests
        if let (Some(old), Some(new)) = (segments.get(&DynLocale(c.set[cur_locale])), segments.get(&DynLocale(c.set[*target]))) {
            for rest in &cur_rests {
                let rest_path = rest.join("/");
                *obs += 1;
                if let Some(p) = hooks::localize_path(&rest_path, old, new) {
                    if !next_rests.contains(&split(&p)) {
                        return Err(Failure {
                            signature: "localize-path-mismatch".into(),
                            detail: json!({
                                "function": "localize_path(path, old_locale_segments, new_locale_segments)",
                                "path": rest_path, "from_locale": name(cur_locale), "new_locale": name(*target),
                                "expected_any_of": next_rests.iter().map(|r| join(r)).collect::<Vec<_>>(),
                                "actual": p, "case": cj,
                            }),
                        });
                    }
                }
            }
        }

        // advance the model: the router navigates to the produced URL; we continue from the
        // *actual* path (it was just accepted) so that later steps see what a browser would
        cur_path = a_path.to_string();
        let produced_rest: Vec<String> = split(a_path)[exp_before.len()..].to_vec();
        cur_rests = BTreeSet::new();
        cur_rests.insert(produced_rest);
        cur_locale = *target;
        cur_prefixed = *target != 0;
        check_read(c, cj, &cur_path, obs)?;

        // A -> ... -> A on a canonical URL is the identity
        if step + 1 == c.switches.len() && *target == c.start && initial_canonical && (all_unique || all_free) {
            *obs += 1;
            classes.push("round-trip-to-start-locale".into());
            if actual != initial_url {
                return Err(Failure {
                    signature: "round-trip-not-identity".into(),
                    detail: json!({
                        "why": "switching back to the initial locale must give back the initial (canonical) URL",
                        "initial_url": initial_url, "final_url": actual, "case": cj,
                    }),
                });
            }
        }
    }
    if c.inst.is_none() {
        classes.push("free-segments".into());
    }
    if c.style != 0 {
        classes.push("non-canonical-slashes".into());
    }
    if !c.search.is_empty() {
        classes.push("with-query".into());
    }
    if !c.hash.is_empty() {
        classes.push(if c.hash.starts_with('#') { "with-hash(browser-form)".into() } else { "with-hash(bare-form)".into() });
    }
    if is_odd_base(&c.base) {
        classes.push(format!("base-path-form {:?}", c.base));
    }
    if let Some((r, b)) = &c.inst {
        for (s, b) in c.table.routes[*r].iter().zip(b) {
            match (s, b) {
                (Seg::Opt(_), Bind::One(_)) => classes.push("optional-param-present".into()),
                (Seg::Opt(_), Bind::Absent) => classes.push("optional-param-absent".into()),
                (Seg::Splat(_), Bind::Many(v)) => classes.push(if v.is_empty() { "splat-empty".into() } else { "splat-non-empty".into() }),
                (Seg::Param(_), _) => classes.push("param".into()),
                (Seg::Loc(_), _) => classes.push("localized-segment".into()),
                _ => {}
            }
        }
    }
    Ok(SwitchOutcome { classes, nontrivial })
}

fn hooks_case(t: &mut Tape, mask: Mask) -> CaseResult {
    let c = gen_case(t, mask);
    dynlocale::set_current(&c.set);
    let cj = case_json(&c);
    let mut obs = 0u64;
    let segments = segments_map(&c);
    let (opt, trail) = history_triggers(&c);
    if (opt && !mask.optional_present) || (trail && !mask.trailing_empty) {
        // a trigger class this engine excludes was hit by accident (free segments / ambiguous table):
        // the case belongs to another engine; it is counted, not evaluated
        let txt = serde_json::to_string(&cj).unwrap_or_default();
        return Ok(CaseInfo {
            hash: hash_str(&txt),
            nontrivial: false,
            classes: vec!["masked: trigger class of another engine (not evaluated)".into()],
            sample: None,
            observations: 0,
        });
    }
    let out = check_switches(&c, &cj, &segments, &mut obs)?;
    let mut classes = out.classes;
    let mut nontrivial = out.nontrivial;
    for p in &c.probes {
        check_read(&c, &cj, p, &mut obs)?;
        let base_segs = split(&c.base);
        let segs = split(p);
        if let Some(first) = segs.get(base_segs.len()) {
            if segs[..base_segs.len()] == base_segs[..] && strict_prefix_of(first, &c.set).is_some() {
                nontrivial = true;
                classes.push("probe-first-segment-has-locale-name-as-strict-prefix".into());
            }
        }
    }
    classes.sort();
    classes.dedup();
    let txt = serde_json::to_string(&cj).unwrap_or_default();
    Ok(CaseInfo { hash: hash_str(&txt), nontrivial, classes, sample: Some(cj), observations: obs })
}

// ------------------------------------------------------------------------------------------------
// natively built I18nRoute

static INTERN: Mutex<BTreeMap<String, &'static str>> = Mutex::new(BTreeMap::new());

fn intern(s: &str) -> &'static str {
    let mut g = INTERN.lock().unwrap();
    if let Some(v) = g.get(s) {
        return v;
    }
    let leaked: &'static str = Box::leak(s.to_string().into_boxed_str());
    g.insert(s.to_string(), leaked);
    leaked
}

/// localized names of the current case for the `i18n_path!` segments: [key][universe index]
static LOC_TABLE: RwLock<Vec<Vec<&'static str>>> = RwLock::new(vec![]);

fn loc_lookup(key: usize, l: DynLocale) -> &'static str {
    LOC_TABLE.read().unwrap()[key][l.0 as usize]
}

fn loc_seg_0(l: DynLocale) -> &'static str {
    loc_lookup(0, l)
}
fn loc_seg_1(l: DynLocale) -> &'static str {
    loc_lookup(1, l)
}
fn loc_seg_2(l: DynLocale) -> &'static str {
    loc_lookup(2, l)
}
fn loc_seg_3(l: DynLocale) -> &'static str {
    loc_lookup(3, l)
}
const LOC_FNS: [fn(DynLocale) -> &'static str; 4] = [loc_seg_0, loc_seg_1, loc_seg_2, loc_seg_3];

/// one path segment of the template routes; every variant delegates to the real segment type
#[derive(Clone, Debug)]
enum DynSeg<I> {
    Static(StaticSegment<&'static str>),
    Param(ParamSegment),
    Splat(WildcardSegment),
    /// the (unnameable) `I18nSegment` type returned by `i18n_path!`
    I18n(I),
}

impl<I: PossibleRouteMatch> PossibleRouteMatch for DynSeg<I> {
    fn test<'a>(&self, path: &'a str) -> Option<PartialPathMatch<'a>> {
        match self {
            DynSeg::Static(s) => s.test(path),
            DynSeg::Param(s) => s.test(path),
            DynSeg::Splat(s) => s.test(path),
            DynSeg::I18n(s) => s.test(path),
        }
    }
    fn generate_path(&self, path: &mut Vec<PathSegment>) {
        match self {
            DynSeg::Static(s) => s.generate_path(path),
            DynSeg::Param(s) => s.generate_path(path),
            DynSeg::Splat(s) => s.generate_path(path),
            DynSeg::I18n(s) => s.generate_path(path),
        }
    }
}

fn dyn_seg(seg: &Seg) -> DynSeg<impl PossibleRouteMatch + Clone + std::fmt::Debug + Send + Sync + 'static> {
    match seg {
        Seg::Static(s) => DynSeg::Static(StaticSegment(intern(s))),
        Seg::Loc(k) => DynSeg::I18n(leptos_i18n_router::i18n_path!(DynLocale, LOC_FNS[*k])),
        Seg::Param(n) => DynSeg::Param(ParamSegment(intern(n))),
        Seg::Splat(n) => DynSeg::Splat(WildcardSegment(intern(n))),
        Seg::Opt(_) => unreachable!("optional segments sit at fixed template positions"),
    }
}

/// The template (route types are static in leptos_router):
///   0: ""                       (home)
///   1: (S)
///   2: (S, S)
///   3: (S, :opt?, S)
///   4: (S, :opt?)
///   5: (S) -> children { 5i: "" (index), 5a: (S), 5b: (S, S) }   (nested; flattened: (S,""), (S,S), (S,S,S))
///   8, 9: (S), (S)              (two consecutive one-segment siblings)
/// where every S is static / i18n / param (/ splat when last in its leaf route).
fn gen_template_table(t: &mut Tape, mask: Mask, set: &[u8]) -> Table {
    let n_keys = 4;
    let mut loc_names: Vec<Vec<String>> = vec![];
    for k in 0..n_keys {
        let words: &[&str] = if mask.prefix_words && t.chance(1, 3) { PREFIX_LOC_WORDS[0] } else { LOC_WORDS[k] };
        let same = t.chance(1, 5);
        let rot = t.pick(words.len());
        loc_names.push(
            (0..set.len())
                .map(|li| if same { words[rot].to_string() } else { words[(li + rot) % words.len()].to_string() })
                .collect(),
        );
    }
    let s = |t: &mut Tape, last: bool, first: bool| -> Seg {
        let w = [4u32, 4, if first { 1 } else { 2 }, if last { 1 } else { 0 }];
        match t.weighted(&w) {
            0 => Seg::Static(gen_static(t, mask, set)),
            1 => Seg::Loc(t.pick(n_keys)),
            2 => Seg::Param(["id", "slug"][t.pick(2)].to_string()),
            _ => Seg::Splat("rest".to_string()),
        }
    };
    let opt = |t: &mut Tape| Seg::Opt(["tab", "page"][t.pick(2)].to_string());
    let r1 = vec![s(t, true, true)];
    let r2 = vec![s(t, false, true), s(t, true, false)];
    let r3 = vec![s(t, false, true), opt(t), s(t, true, false)];
    let r4 = vec![s(t, false, true), opt(t)];
    let p5 = s(t, false, true);
    let r5i = vec![p5.clone(), Seg::Static(String::new())];
    let r5a = vec![p5.clone(), s(t, true, false)];
    let r5b = vec![p5, s(t, false, false), s(t, true, false)];
    // two more consecutive sibling leaves of one segment each; two times in three both are localized and, half of
    // those times, their names coincide in exactly one locale (the per-locale tables must keep both entries)
    let (r8, r9) = if t.chance(2, 3) {
        let ka = t.pick(n_keys);
        let kb = (ka + 1 + t.pick(n_keys - 1)) % n_keys;
        if t.coin() {
            let li = t.pick(set.len());
            let shared = loc_names[ka][li].clone();
            loc_names[kb][li] = shared;
        }
        (vec![Seg::Loc(ka)], vec![Seg::Loc(kb)])
    } else {
        (vec![s(t, true, true)], vec![s(t, true, true)])
    };
    Table { routes: vec![vec![Seg::Static(String::new())], r1, r2, r3, r4, r5i, r5a, r5b, r8, r9], loc_names }
}

fn opt_name(seg: &Seg) -> &'static str {
    match seg {
        Seg::Opt(n) => intern(n),
        _ => unreachable!(),
    }
}

fn seg_to_string(s: &PathSegment) -> String {
    match s {
        PathSegment::Unit => "()".into(),
        PathSegment::Static(x) => format!("static:{x}"),
        PathSegment::Param(x) => format!(":{x}"),
        PathSegment::OptionalParam(x) => format!(":{x}?"),
        PathSegment::Splat(x) => format!("*{x}"),
    }
}

fn nested_case(t: &mut Tape, mask: Mask) -> CaseResult {
    let set = gen_set(t, mask);
    dynlocale::set_current(&set);
    let table = gen_template_table(t, mask, &set);
    // publish the localized names for the i18n_path! closures
    {
        let mut g = LOC_TABLE.write().unwrap();
        *g = table
            .loc_names
            .iter()
            .map(|names| {
                let mut per_universe = vec![""; NAMES.len()];
                for (li, l) in set.iter().enumerate() {
                    per_universe[*l as usize] = intern(&names[li]);
                }
                per_universe
            })
            .collect();
    }
    let base = CORE_BASES[t.weighted(&[3, 2, 1])].to_string();
    let rt = &table.routes;
    let children = (
        NestedRoute::new(StaticSegment(""), ()),
        NestedRoute::new((dyn_seg(&rt[1][0]),), ()),
        NestedRoute::new((dyn_seg(&rt[2][0]), dyn_seg(&rt[2][1])), ()),
        NestedRoute::new((dyn_seg(&rt[3][0]), OptionalParamSegment(opt_name(&rt[3][1])), dyn_seg(&rt[3][2])), ()),
        NestedRoute::new((dyn_seg(&rt[4][0]), OptionalParamSegment(opt_name(&rt[4][1]))), ()),
        NestedRoute::new((dyn_seg(&rt[5][0]),), ()).child((
            NestedRoute::new(StaticSegment(""), ()),
            NestedRoute::new((dyn_seg(&rt[6][1]),), ()),
            NestedRoute::new((dyn_seg(&rt[7][1]), dyn_seg(&rt[7][2])), ()),
        )),
        NestedRoute::new((dyn_seg(&rt[8][0]),), ()),
        NestedRoute::new((dyn_seg(&rt[9][0]),), ()),
    );
    let props = leptos::component::component_props_builder(&I18nRoute::<DynLocale, (), _>)
        .base_path(intern(&base))
        .view(())
        .children(RouteChildren::to_children(move || children))
        .build();
    let route = I18nRoute(props);

    let mut c = Case {
        set: set.clone(),
        base,
        table,
        start: 0,
        start_prefixed: false,
        rest: vec![],
        inst: None,
        style: 0,
        search: String::new(),
        hash: String::new(),
        switches: vec![],
        probes: vec![],
    };
    let mut obs = 0u64;
    let mut classes: Vec<String> = vec![];
    let mut nontrivial = false;
    let name = |li: usize| NAMES[set[li] as usize].to_string();

    // ---- generate_routes: N+1 families
    let generated: Vec<Vec<PathSegment>> = route.generate_routes().into_iter().map(|g| g.segments).collect();
    let mut expected: Vec<Vec<PathSegment>> = vec![];
    for li in 0..set.len() {
        for r in 0..c.table.routes.len() {
            let mut segs = c.table.path_segments(li, r);
            segs[0] = PathSegment::Static(name(li).into());
            expected.push(segs);
        }
    }
    for r in 0..c.table.routes.len() {
        let mut segs = c.table.path_segments(0, r);
        segs.remove(0);
        expected.push(segs);
    }
    let render = |v: &Vec<Vec<PathSegment>>| {
        let mut out: Vec<String> = v.iter().map(|r| r.iter().map(seg_to_string).collect::<Vec<_>>().join(" / ")).collect();
        out.sort();
        out
    };
    obs += 1;
    let cj0 = case_json(&c);
    if render(&generated) != render(&expected) {
        return Err(Failure {
            signature: "generate-routes-mismatch".into(),
            detail: json!({
                "function": "I18nRoute::generate_routes()",
                "why": "N+1 route families expected: one per locale (locale prefix + that locale's segment names) and the unprefixed default family",
                "expected": render(&expected), "actual": render(&generated), "case": cj0,
            }),
        });
    }

    // ---- the per-locale tables `i18n_routing` itself keeps for get_new_path (hook): one entry per route, in route
    // order, for every locale (localize_path pairs the old and the new locale's tables by position)
    {
        let tables = leptos_i18n_router::verif_hooks::last_route_tables();
        let mut expected_tables: Vec<(String, Vec<Vec<PathSegment>>)> = (0..set.len())
            .map(|li| (name(li), (0..c.table.routes.len()).map(|r| c.table.path_segments(li, r)).collect()))
            .collect();
        expected_tables.sort_by(|a, b| a.0.cmp(&b.0));
        obs += 1;
        let show = |v: &Vec<(String, Vec<Vec<PathSegment>>)>| -> Vec<Value> {
            v.iter().map(|(l, t)| json!({"locale": l, "routes": t.iter().map(|r| r.iter().map(seg_to_string).collect::<Vec<_>>().join(" / ")).collect::<Vec<_>>()})).collect()
        };
        if show(&tables) != show(&expected_tables) {
            return Err(Failure {
                signature: "route-tables-mismatch".into(),
                detail: json!({
                    "function": "i18n_routing: per-locale route tables (generate_routes_for_each_locale)",
                    "why": "every locale's table must list every route of the tree once, in the same order: a locale switch pairs the two tables by position",
                    "expected": show(&expected_tables), "actual": show(&tables), "case": cj0,
                }),
            });
        }
        if expected_tables.iter().any(|(_, t)| t.windows(2).any(|w| w[0] == w[1])) && !expected_tables.iter().all(|(_, t)| t.windows(2).any(|w| w[0] == w[1])) {
            classes.push("two-consecutive-routes-identical-in-one-locale-only".into());
            nontrivial = true;
        }
    }

    // ---- the per-locale segment lists the router keeps for get_new_path, taken from the real route
    let n_routes = c.table.routes.len();
    let mut real_segments: HashMap<DynLocale, Vec<Vec<PathSegment>>> = HashMap::new();
    for (li, l) in set.iter().enumerate() {
        let fam: Vec<Vec<PathSegment>> = generated[li * n_routes..(li + 1) * n_routes]
            .iter()
            .map(|segs| {
                let mut s = segs.clone();
                if let Some(first) = s.first_mut() {
                    *first = PathSegment::Static("".into());
                }
                s
            })
            .collect();
        real_segments.insert(DynLocale(*l), fam);
    }

    // ---- match_nested on generated paths
    let n_paths = t.range(1, 4);
    let mut sample_paths = vec![];
    for _ in 0..n_paths {
        let li = t.pick(set.len());
        let mut m2 = mask;
        m2.optional_present = true;
        m2.trailing_empty = true;
        let (rest, inst) = gen_instance(t, m2, &set, &c.table, li);
        let mut prefixed = li != 0 || t.chance(1, 3);
        if let Some(first) = rest.first() {
            if set.iter().any(|i| NAMES[*i as usize] == first) {
                prefixed = true;
            }
        }
        let mut before = vec![];
        if prefixed {
            // one prefix in six is cut short (`/f/..` for `fr`, `/en-U/..` for `en-US`): not a locale name
            let full = name(li);
            let cut = &full[..full.len() - 1];
            if t.chance(1, 6) && !cut.is_empty() && !cut.ends_with('-') && !set.iter().any(|i| NAMES[*i as usize] == cut) {
                before.push(cut.to_string());
            } else {
                before.push(full);
            }
        }
        let style = t.weighted(&[5, 1]) as u8;
        let path = styled_path(&before, &rest, style);
        sample_paths.push(path.clone());
        let segs = split(&path);
        // leptos_router 0.7.8 slices a remaining path that does not start with '/' at a wrong offset
        // (Param/Wildcard segments after a partially matched static segment) and can panic on
        // non-ASCII text: that is upstream behaviour, only charged to the i18n router when its own
        // locale-prefix test produced the partial match
        let res = std::panic::catch_unwind(std::panic::AssertUnwindSafe(|| {
            let (res, _remaining) = route.match_nested(&path);
            res.map(|(_, m)| (m.as_matched().to_string(), leptos_router::MatchParams::to_params(&m)))
        }));
        obs += 1;
        // whatever was matched, nothing of the request may survive in the thread: a localized segment evaluated
        // outside an `I18nRoute` uses the default locale (documented), also right after a prefixed match
        {
            let mut outside: Vec<PathSegment> = vec![];
            dyn_seg(&Seg::Loc(0)).generate_path(&mut outside);
            let want = vec![PathSegment::Static(c.table.loc_names[0][0].clone().into())];
            obs += 1;
            if outside != want {
                return Err(Failure {
                    signature: "route-locale-leaks-after-match".into(),
                    detail: json!({
                        "function": "i18n_path! segment outside an I18nRoute, evaluated after I18nRoute::match_nested(path)", "path": path,
                        "why": "the locale of the request that was matched last is still set on the thread",
                        "expected": want.iter().map(seg_to_string).collect::<Vec<_>>(), "actual": outside.iter().map(seg_to_string).collect::<Vec<_>>(), "case": cj0,
                    }),
                });
            }
        }
        // model
        let first = segs.first().cloned().unwrap_or_default();
        let exact = set.iter().position(|i| NAMES[*i as usize] == first);
        let locale_family_matches = exact.map(|l| !c.table.all_matches(l, &segs[1..]).is_empty()).unwrap_or(false);
        let default_family_matches = !c.table.all_matches(0, &segs).is_empty();
        if exact.is_none() && set.iter().any(|i| NAMES[*i as usize].len() > first.len() && NAMES[*i as usize].starts_with(first.as_str())) && !first.is_empty() {
            nontrivial = true;
            classes.push("first-segment-is-a-strict-prefix-of-a-locale-name".into());
        }
        let sp = strict_prefix_of(&first, &set);
        if sp.is_some() {
            nontrivial = true;
            classes.push("first-segment-has-locale-name-as-strict-prefix".into());
        }
        let detail = |why: &str, actual: Value| {
            json!({
                "function": "I18nRoute::match_nested(path)", "path": path, "why": why,
                "first_segment": first, "actual": actual,
                "generated_from": {"locale": name(li), "prefixed": prefixed, "rest": rest, "route": inst.as_ref().map(|(r, _)| *r)},
                "case": cj0,
            })
        };
        let res = match res {
            Ok(r) => r,
            Err(e) => {
                let msg = e.downcast_ref::<String>().cloned().or_else(|| e.downcast_ref::<&str>().map(|s| s.to_string())).unwrap_or_default();
                // a static segment of the route table itself (`"de-"`, a localized name, ...) that is a strict prefix of some
                // path segment triggers the same upstream slicing without any help from the locale-prefix test; and on
                // non-ASCII text the upstream slice offset is what panics. The panic is charged to the i18n router only
                // when neither explanation applies.
                let table_static_partial = c.table.routes.iter().any(|r| {
                    r.iter().any(|s| {
                        let lits: Vec<String> = match s {
                            Seg::Static(x) => vec![x.clone()],
                            Seg::Loc(k) => c.table.loc_names[*k].clone(),
                            _ => vec![],
                        };
                        lits.iter().any(|l| !l.is_empty() && segs.iter().any(|seg| seg.len() > l.len() && seg.starts_with(l.as_str())))
                    })
                });
                if sp.is_some() && path.is_ascii() && !table_static_partial {
                    return Err(Failure {
                        signature: "match-nested-partial-segment".into(),
                        detail: detail("match_nested panicked inside leptos_router after the locale prefix matched only a part of the first segment", json!({"panic": msg})),
                    });
                }
                classes.push("upstream panic in leptos_router segment matching (not charged)".into());
                continue;
            }
        };
        match &res {
            Some((matched, params)) => {
                let matched = matched.clone();
                let actual = json!({"matched_locale_prefix": matched, "params": params.iter().map(|(k, v)| json!([k, v])).collect::<Vec<_>>()});
                if !matched.is_empty() {
                    let lname = matched.trim_start_matches('/');
                    if !set.iter().any(|i| NAMES[*i as usize] == lname) {
                        return Err(Failure {
                            signature: "match-nested-truncated-prefix".into(),
                            detail: detail("the route match attributes a locale to the path although what it consumed as the locale prefix is not a locale name", actual),
                        });
                    }
                    if lname != first {
                        let sig = if first.starts_with(lname) && set.iter().any(|i| NAMES[*i as usize] == lname) {
                            "match-nested-partial-segment"
                        } else {
                            "match-nested-wrong-locale"
                        };
                        return Err(Failure {
                            signature: sig.into(),
                            detail: detail("the route match attributes a locale to the path although its first segment is not that locale's name", actual),
                        });
                    }
                    classes.push("match-with-locale-prefix".into());
                } else {
                    if locale_family_matches && !default_family_matches {
                        return Err(Failure {
                            signature: "match-nested-locale-not-read".into(),
                            detail: detail("the first segment is exactly a locale name and the rest matches that locale's routes, but the match carries no locale", actual),
                        });
                    }
                    classes.push("match-default-family".into());
                }
            }
            None => {
                if locale_family_matches || default_family_matches {
                    return Err(Failure {
                        signature: "match-nested-missed".into(),
                        detail: detail("the path is an instance of a route of the table but match_nested found nothing", json!(null)),
                    });
                }
                classes.push("no-match".into());
            }
        }
    }

    // ---- a switch history driven with the segments of the real route
    c.start = t.pick(set.len());
    let mut m3 = mask;
    m3.optional_present = false;
    m3.trailing_empty = false;
    // template routes 3 and 4 contain optionals; gen_instance keeps them absent / falls back in core mode
    let (rest, inst) = gen_instance(t, m3, &set, &c.table, c.start);
    c.rest = rest;
    c.inst = inst;
    c.start_prefixed = c.start != 0 || t.chance(1, 4);
    if let Some(first) = c.rest.first() {
        if set.iter().any(|i| NAMES[*i as usize] == first) {
            c.start_prefixed = true;
        }
    }
    c.search = SEARCHES[t.pick(SEARCHES.len())].to_string();
    c.hash = BARE_HASHES[t.pick(BARE_HASHES.len())].to_string();
    let n_sw = t.range(1, 4);
    let mut cur = c.start;
    for i in 0..n_sw {
        let target = if i + 1 == n_sw && t.chance(3, 4) { c.start } else { t.pick(set.len()) };
        if target != cur {
            c.switches.push((target, t.weighted(&[3, 2, 2]) as u8));
            cur = target;
        }
    }
    let cj = {
        let mut v = case_json(&c);
        v["match_nested_paths"] = json!(sample_paths);
        v
    };
    let (opt, trail) = history_triggers(&c);
    if mask.prefix_words {
        // the prefix engine is about match_nested only (the hooks have their own prefix engine)
    } else if opt || trail {
        classes.push("switch part masked: trigger class of another engine (not evaluated)".into());
    } else {
        let out = check_switches(&c, &cj, &real_segments, &mut obs)?;
        classes.extend(out.classes);
        nontrivial |= out.nontrivial;
    }
    classes.sort();
    classes.dedup();
    let txt = serde_json::to_string(&cj).unwrap_or_default();
    Ok(CaseInfo { hash: hash_str(&txt), nontrivial, classes, sample: Some(cj), observations: obs })
}

// ------------------------------------------------------------------------------------------------

struct DropExecutor;

impl any_spawner::CustomExecutor for DropExecutor {
    fn spawn(&self, fut: any_spawner::PinnedFuture<()>) {
        drop(fut)
    }
    fn spawn_local(&self, fut: any_spawner::PinnedLocalFuture<()>) {
        drop(fut)
    }
    fn poll_local(&self) {}
}

const CORE: Mask = Mask { prefix_words: false, odd_base: None, optional_present: false, trailing_empty: false, browser_hash: false };

fn engines() -> Vec<(&'static str, bool, Mask)> {
    vec![
        // (engine, uses the native I18nRoute, trigger classes allowed)
        ("hooks-core", false, CORE),
        ("hooks-prefix", false, Mask { prefix_words: true, ..CORE }),
        ("hooks-base-empty", false, Mask { odd_base: Some(0), ..CORE }),
        ("hooks-base-app", false, Mask { odd_base: Some(1), ..CORE }),
        ("hooks-base-slash-app", false, Mask { odd_base: Some(2), ..CORE }),
        ("hooks-base-app-slash", false, Mask { odd_base: Some(3), ..CORE }),
        ("hooks-base-a-b", false, Mask { odd_base: Some(4), ..CORE }),
        ("hooks-optional", false, Mask { optional_present: true, ..CORE }),
        ("hooks-trailing", false, Mask { trailing_empty: true, ..CORE }),
        ("hooks-hash", false, Mask { browser_hash: true, ..CORE }),
        ("nested-core", true, CORE),
        ("nested-prefix", true, Mask { prefix_words: true, ..CORE }),
        (
            "hooks-all",
            false,
            Mask { prefix_words: true, odd_base: Some(usize::MAX), optional_present: true, trailing_empty: true, browser_hash: true },
        ),
    ]
}

fn self_test(ctx: &mut Ctx) {
    // the "safe" pools must really be free of locale-name prefixes (over the whole universe)
    let all: Vec<u8> = (0..NAMES.len() as u8).collect();
    for w in SAFE_STATICS.iter().chain(SAFE_VALUES).chain(LOC_WORDS.iter().flat_map(|w| w.iter())) {
        if strict_prefix_of(w, &all).is_some() || NAMES.contains(w) {
            ctx.harness_error(format!("self-test: pool word {w:?} starts with / equals a locale name"));
        }
    }
    for i in 0..PREFIX_FREE {
        for j in 0..PREFIX_FREE {
            if i != j && NAMES[j].starts_with(NAMES[i]) {
                ctx.harness_error(format!("self-test: {} is a prefix of {}", NAMES[i], NAMES[j]));
            }
        }
    }
}

pub fn run(mut ctx: Ctx) -> ! {
    let _ = any_spawner::Executor::init_custom_executor(DropExecutor);
    std::panic::set_hook(Box::new(|_| {})); // panics of the code under test are caught and classified
    self_test(&mut ctx);
    let engines = engines();
    if let Some(path) = ctx.replay.clone() {
        let engine = Ctx::replay_engine(&path).unwrap_or_default();
        match engines.iter().find(|(n, _, _)| *n == engine) {
            Some((name, native, mask)) => {
                let (native, mask) = (*native, *mask);
                ctx.replay_tape(name, &path, |t| if native { nested_case(t, mask) } else { hooks_case(t, mask) });
            }
            None => ctx.harness_error(format!("replay file names unknown engine {engine:?}")),
        }
    } else {
        let mut all_ok = true;
        for (name, native, mask) in &engines {
            let (native, mask) = (*native, *mask);
            if *name == "hooks-all" && !all_ok {
                // only meaningful when no single-class engine reported anything new
                ctx.class("engine hooks-all skipped (a single-class engine already reported a violation)");
                continue;
            }
            let cases = match *name {
                "hooks-core" => ctx.tier.scale(60_000, 1_000_000),
                "hooks-all" => ctx.tier.scale(40_000, 600_000),
                "nested-core" | "nested-prefix" => ctx.tier.scale(20_000, 250_000),
                n if n.starts_with("hooks-base-") => ctx.tier.scale(6_000, 50_000),
                _ => ctx.tier.scale(20_000, 250_000),
            };
            let ok = ctx.run_tapes(name, cases, 300, |t| if native { nested_case(t, mask) } else { hooks_case(t, mask) });
            all_ok &= ok;
        }
    }
    ctx.finish(
        "generated cases: a locale set (1-5 names from a universe with prefix-related names en/en-US/en-GB/fr/fra/fr-CA/...; first = \
         default) installed in a harness Locale type, a base path, a route table (static / localized / :param / :optional? / *splat \
         segments), an initial URL instantiated from a route of the table (or free segments) in a start locale, with ?query and \
         #hash, and a history of 1-6 locale switches (mostly ending on the start locale) each choosing how the `locale` argument is \
         obtained, plus probe paths. Every URL visited is read with get_locale_from_path and every switch goes through get_new_path \
         (Location built natively from Memos) and localize_path; the nested engines build a real I18nRoute (template of 7 routes, \
         nested parent, optional params, i18n_path! segments) and check generate_routes() (N+1 families), match_nested(path), and \
         the switch history with the route's own generated segments. Engines differ by which known trigger classes the generator \
         may produce (prefix words, undocumented-looking base path forms, present optionals, trailing empties, browser-form hash). \
         non-trivial = first segment has a locale name as a strict prefix, or non-root base path, or a localized segment that \
         differs between the two locales of a switch; distinct = hash of the serialised case",
        &[
            "base paths are the documented forms of one base (\"app\", \"/app\", \"app/\", \"/app/\"), \"a/b\" likewise, plus \"/\" and \"\"",
            "Location.pathname always starts with '/' and lies under the base path; percent-encoding is not modelled",
            "a path without locale prefix is written with the default locale's segment names; a first segment equal to a locale name is a prefix by definition",
            "identity of A->...->A is asserted only for canonical initial URLs (no trailing/doubled slash, no prefix for the default locale); otherwise equality up to empty segments",
            "when several routes of the table match a path, any of their instantiations is accepted (the router's own precedence is not modelled)",
            "effects / navigation are not executed (no browser): the functions they call are driven directly",
        ],
        50,
    )
}
