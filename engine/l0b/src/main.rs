mod dynlocale;
mod exec;
mod props;

fn main() {
    let prop = std::env::args().nth(1).unwrap_or_default();
    let ctx = vcommon::ctx::Ctx::from_env(&prop);
    props::dispatch(&prop, ctx)
}
