//! A harness-defined implementation of the public `leptos_i18n::Locale` trait whose supported set
//! (`get_all()`, first element = default) is the one of the current generated case. A locale value is
//! an index into a fixed universe of names; the current set is process-global state installed by
//! `set_current` before a case runs (checks using it are single-threaded).

use std::collections::BTreeMap;
use std::str::FromStr;
use std::sync::{Mutex, OnceLock, RwLock};

use icu_locid::{LanguageIdentifier, Locale as IcuLocale};
use leptos_i18n::{Direction, Locale, LocaleKeys};

/// universe of locale names (all valid BCP-47; several are strict prefixes of others)
pub const NAMES: &[&str] = &[
    "en", "fr", "de", "it", "es", "pt", "zh", "ar", "nl", // prefix-free among themselves
    "en-US", "en-GB", "fra", "fr-CA", "de-CH", "pt-BR", "zh-Hant",
];

/// number of names at the start of `NAMES` none of which is a prefix of another
pub const PREFIX_FREE: usize = 9;

#[derive(Clone, Copy, PartialEq, Eq, Hash, PartialOrd, Ord)]
pub struct DynLocale(pub u8);

static CURRENT: RwLock<&'static [DynLocale]> = RwLock::new(&[DynLocale(0)]);
static SETS: Mutex<BTreeMap<Vec<u8>, &'static [DynLocale]>> = Mutex::new(BTreeMap::new());

/// install the supported set of the current case (first = default)
pub fn set_current(set: &[u8]) {
    assert!(!set.is_empty());
    let mut sets = SETS.lock().unwrap();
    let leaked: &'static [DynLocale] = *sets.entry(set.to_vec()).or_insert_with(|| {
        let v: Vec<DynLocale> = set.iter().map(|i| DynLocale(*i)).collect();
        Box::leak(v.into_boxed_slice())
    });
    *CURRENT.write().unwrap() = leaked;
}

fn icu_locales() -> &'static Vec<IcuLocale> {
    static ICU: OnceLock<Vec<IcuLocale>> = OnceLock::new();
    ICU.get_or_init(|| NAMES.iter().map(|n| n.parse().expect("valid locale name")).collect())
}

impl DynLocale {
    pub fn name(self) -> &'static str {
        NAMES[self.0 as usize]
    }
}

impl Default for DynLocale {
    fn default() -> Self {
        CURRENT.read().unwrap()[0]
    }
}

impl std::fmt::Debug for DynLocale {
    fn fmt(&self, f: &mut std::fmt::Formatter<'_>) -> std::fmt::Result {
        write!(f, "DynLocale({})", self.name())
    }
}

impl std::fmt::Display for DynLocale {
    fn fmt(&self, f: &mut std::fmt::Formatter<'_>) -> std::fmt::Result {
        f.write_str(self.name())
    }
}

impl FromStr for DynLocale {
    type Err = ();
    // same contract as the generated enums: exact (trimmed) name of a supported locale
    fn from_str(s: &str) -> Result<Self, ()> {
        let s = s.trim();
        CURRENT.read().unwrap().iter().copied().find(|l| l.name() == s).ok_or(())
    }
}

impl AsRef<LanguageIdentifier> for DynLocale {
    fn as_ref(&self) -> &LanguageIdentifier {
        &icu_locales()[self.0 as usize].id
    }
}

impl AsRef<IcuLocale> for DynLocale {
    fn as_ref(&self) -> &IcuLocale {
        &icu_locales()[self.0 as usize]
    }
}

impl AsRef<str> for DynLocale {
    fn as_ref(&self) -> &str {
        self.name()
    }
}

impl AsRef<DynLocale> for DynLocale {
    fn as_ref(&self) -> &DynLocale {
        self
    }
}

impl serde::Serialize for DynLocale {
    fn serialize<S: serde::Serializer>(&self, s: S) -> Result<S::Ok, S::Error> {
        s.serialize_str(self.name())
    }
}

impl<'de> serde::Deserialize<'de> for DynLocale {
    fn deserialize<D: serde::Deserializer<'de>>(d: D) -> Result<Self, D::Error> {
        let s = String::deserialize(d)?;
        Ok(DynLocale::from_str(&s).unwrap_or_default())
    }
}

#[derive(Clone, Copy)]
pub struct DynKeys;

impl LocaleKeys for DynKeys {
    type Locale = DynLocale;
    fn from_locale(_: DynLocale) -> Self {
        DynKeys
    }
}

impl Locale for DynLocale {
    type Keys = DynKeys;
    type TranslationUnitId = ();

    fn as_str(self) -> &'static str {
        self.name()
    }

    fn as_icu_locale(self) -> &'static IcuLocale {
        &icu_locales()[self.0 as usize]
    }

    fn direction(self) -> Direction {
        if self.name() == "ar" {
            Direction::RightToLeft
        } else {
            Direction::LeftToRight
        }
    }

    fn get_all() -> &'static [DynLocale] {
        *CURRENT.read().unwrap()
    }

    fn to_base_locale(self) -> DynLocale {
        self
    }

    fn from_base_locale(locale: DynLocale) -> Self {
        locale
    }
}
