//! A deterministic, single-threaded executor for the reactive runtime.
//!
//! `Effect::new_isomorphic` (used by `init_context_inner` and by leptos-use's cookie helper) spawns
//! its task through `any_spawner`. The stock futures executor would run those tasks on a thread
//! pool, i.e. at arbitrary moments relative to the harness. Here every spawned task is queued and
//! only makes progress when the harness calls [`tick`] (a step that generators can place anywhere
//! in a history), and [`clear`] drops what is still queued before the owning `Owner` is disposed
//! (an effect polled after its owner's disposal would touch disposed signals).

use std::cell::RefCell;
use std::future::Future;
use std::pin::Pin;
use std::task::{Context, Poll, Waker};

use any_spawner::{CustomExecutor, Executor, PinnedFuture, PinnedLocalFuture};

type Task = Pin<Box<dyn Future<Output = ()>>>;

thread_local! {
    static QUEUE: RefCell<Vec<Task>> = const { RefCell::new(Vec::new()) };
}

struct HarnessExecutor;

impl CustomExecutor for HarnessExecutor {
    fn spawn(&self, fut: PinnedFuture<()>) {
        let fut: Task = fut;
        QUEUE.with(|q| q.borrow_mut().push(fut));
    }
    fn spawn_local(&self, fut: PinnedLocalFuture<()>) {
        QUEUE.with(|q| q.borrow_mut().push(fut));
    }
    fn poll_local(&self) {
        tick();
    }
}

pub fn init() {
    // an error only means that an executor was installed before
    let _ = Executor::init_custom_executor(HarnessExecutor);
}

/// poll every queued task (three rounds, so that effects triggered by effects also run);
/// returns the number of polls
pub fn tick() -> usize {
    let mut polls = 0;
    for _ in 0..3 {
        let tasks: Vec<Task> = QUEUE.with(|q| std::mem::take(&mut *q.borrow_mut()));
        if tasks.is_empty() {
            break;
        }
        let mut cx = Context::from_waker(Waker::noop());
        let mut pending = vec![];
        for mut t in tasks {
            polls += 1;
            if let Poll::Pending = t.as_mut().poll(&mut cx) {
                pending.push(t);
            }
        }
        // tasks spawned while polling are behind the old ones
        QUEUE.with(|q| {
            let mut q = q.borrow_mut();
            let newer = std::mem::take(&mut *q);
            *q = pending;
            q.extend(newer);
        });
    }
    polls
}

#[allow(dead_code)]
pub fn queued() -> usize {
    QUEUE.with(|q| q.borrow().len())
}

/// drop every queued task without running it
pub fn clear() {
    loop {
        let tasks: Vec<Task> = QUEUE.with(|q| std::mem::take(&mut *q.borrow_mut()));
        if tasks.is_empty() {
            break;
        }
        drop(tasks);
    }
}
