//! L2 — generated crates. Projects are generated from choice tapes, emitted as cargo packages that
//! call the real macros (`load_locales!`, `td_string!`, `td_display!`, `td!`, ...), compiled in one
//! workspace, run, and their printed observations compared with the reference semantics.

mod c13;
mod emit;
mod emit_c02;
mod plan;
mod probes;
mod props;
mod run;
mod tplural;

fn main() {
    let prop = std::env::args().nth(1).unwrap_or_default();
    let part = std::env::args().nth(2).unwrap_or_default();
    let ctx = vcommon::ctx::Ctx::from_env(&prop);
    if prop == "C05" && part == "tplural" {
        tplural::run(ctx)
    }
    props::dispatch(&prop, ctx)
}
