//! Emission of generated packages: Cargo.toml, locale files, src/main.rs.

use std::collections::BTreeMap;
use std::fmt::Write as _;
use std::path::Path;

use vcommon::model::*;
use vcommon::sem::CountKind;
use vcommon::ser::{self, Style};

use crate::plan::{Assign, KeyPlan, Plan, PlanOpts};

pub const FEATURES_STD: &str = "\"json_files\", \"icu_compiled_data\", \"interpolate_display\", \"plurals\", \"format_datetime\", \"format_nums\", \"format_list\", \"format_currency\", \"ssr\", \"cookie\"";

pub fn workspace_toml(members: &[String]) -> String {
    let m: Vec<String> = members.iter().map(|m| format!("\"{m}\"")).collect();
    format!(
        "[workspace]\nresolver = \"2\"\nmembers = [{}]\n\n[profile.dev]\nopt-level = 0\ndebug = false\nincremental = false\n",
        m.join(", ")
    )
}

pub fn package_toml(name: &str, p: &Project, features: &str, extra_deps: &str) -> String {
    let full = ser::manifest_text(p, true);
    let section = full.split_once("[package.metadata.leptos-i18n]").map(|(_, s)| s).unwrap_or("");
    format!(
        "[package]\nname = \"{name}\"\nversion = \"0.0.0\"\nedition = \"2021\"\n\n[dependencies]\nleptos = {{ version = \"0.7.7\", default-features = false, features = [\"ssr\"] }}\nleptos_i18n = {{ path = \"/repo/leptos_i18n\", default-features = false, features = [{features}] }}\n{extra_deps}\n[package.metadata.leptos-i18n]{section}"
    )
}

pub const PRELUDE: &str = r#"#![allow(unused, non_snake_case, non_camel_case_types, clippy::all)]
use leptos::prelude::*;
leptos_i18n::load_locales!();
use i18n::*;
use std::fmt::{self, Formatter};

fn sc(name: &'static str) -> impl Fn(&mut Formatter<'_>, &dyn Fn(&mut Formatter<'_>) -> fmt::Result) -> fmt::Result + Copy {
    move |f, child| {
        write!(f, "\u{E000}{}\u{E001}", name)?;
        child(f)?;
        write!(f, "\u{E002}")
    }
}
fn vc(name: &'static str) -> impl Fn(leptos::children::ChildrenFn) -> AnyView + Clone + Send + Sync + 'static {
    move |children: leptos::children::ChildrenFn| (format!("\u{E000}{}\u{E001}", name), children(), "\u{E002}").into_any()
}
fn html<V: IntoView>(v: V) -> String {
    v.into_view().to_html()
}
fn esc(s: &str) -> String {
    let mut o = String::with_capacity(s.len());
    for c in s.chars() {
        match c {
            '\\' => o.push_str("\\\\"),
            '\n' => o.push_str("\\n"),
            '\r' => o.push_str("\\r"),
            '\t' => o.push_str("\\t"),
            c => o.push(c),
        }
    }
    o
}
fn emit(k: usize, li: usize, a: usize, ci: usize, b: char, s: &str) {
    println!("{}|{}|{}|{}|{}\t{}", k, li, a, ci, b, esc(s));
}
fn loc(li: usize) -> Locale {
    Locale::get_all()[li]
}
"#;

pub fn rust_str(s: &str) -> String {
    format!("{:?}", s)
}

pub fn key_tokens(k: &KeyPlan) -> String {
    let mut v: Vec<String> = vec![];
    if let Some(ns) = &k.ns {
        v.push(ns.clone());
    }
    v.extend(k.path.iter().cloned());
    v.join(".")
}

fn int_suffix(ty: RangeTy) -> &'static str {
    ty.name()
}

pub fn num_literal(n: Num, kind: &CountKind) -> String {
    match kind {
        CountKind::Range(ty) => match n {
            Num::Int(i) => format!("{}{}", i, int_suffix(*ty)),
            Num::Float(f) => {
                if *ty == RangeTy::F32 {
                    format!("{:?}f32", f as f32)
                } else {
                    format!("{:?}f64", f)
                }
            }
        },
        CountKind::Plural => match n {
            Num::Int(i) => {
                if i < 0 {
                    format!("{}i64", i)
                } else {
                    format!("{}u64", i)
                }
            }
            Num::Float(f) => format!("fd({:?})", format!("{}", f)),
        },
    }
}

fn count_type(kind: &CountKind, probes: &[Num]) -> String {
    match kind {
        CountKind::Range(ty) => ty.name().to_string(),
        CountKind::Plural => {
            if probes.iter().any(|n| matches!(n, Num::Float(_))) {
                "&'static leptos_i18n::reexports::fixed_decimal::FixedDecimal".to_string()
            } else if probes.iter().any(|n| matches!(n, Num::Int(i) if *i < 0)) {
                "i64".to_string()
            } else {
                "u64".to_string()
            }
        }
    }
}

/// "crossed" argument expressions: the caller has local variables named after the variables of the key
/// which hold the value of the *next* variable, and every argument is written as the local that holds
/// its value (`a = b, b = a` for two variables). The supplied values are the same as in the plain form;
/// what differs is that every argument expression mentions the name of another argument.
/// Returns (the `let` statements, variable -> expression); None when fewer than two plain variables
/// have identifier names or all of them have the same value.
fn crossed_locals(a: &Assign) -> Option<(String, BTreeMap<String, String>)> {
    let names: Vec<(&String, &String)> = a.vars.iter().filter(|(v, _)| !v.contains('-')).collect();
    let m = names.len();
    if m < 2 || names.iter().all(|(_, x)| *x == names[0].1) {
        return None;
    }
    let mut lets = String::new();
    let mut exprs = BTreeMap::new();
    for i in 0..m {
        // local n_i holds x_(i+1); argument n_(i+1) is written as the local n_i
        let _ = write!(lets, "let {} = {}; ", names[i].0, rust_str(names[(i + 1) % m].1));
        exprs.insert(names[(i + 1) % m].0.clone(), names[i].0.clone());
    }
    Some((lets, exprs))
}

fn plain_var_args(a: &Assign, crossed: Option<&BTreeMap<String, String>>) -> String {
    let mut s = String::new();
    for (v, val) in &a.vars {
        match crossed.and_then(|c| c.get(v)) {
            Some(e) => {
                let _ = write!(s, ", {} = {}", v, e);
            }
            None => {
                let _ = write!(s, ", {} = {}", v, rust_str(val));
            }
        }
    }
    s
}

fn args_string_backend(k: &KeyPlan, a: &Assign, crossed: Option<&BTreeMap<String, String>>) -> String {
    let mut s = plain_var_args(a, crossed);
    for (v, val) in &a.fvars {
        let _ = write!(s, ", {} = {}", v, val.rust());
    }
    if let Some((v, _, _)) = &a.loop_var {
        let _ = write!(s, ", {} = c", v);
    }
    for (v, (kind, n)) in &a.fixed {
        let _ = write!(s, ", {} = {}", v, num_literal(*n, kind));
    }
    for c in &k.sig.comps {
        let _ = write!(s, ", <{}> = sc({})", c, rust_str(c));
    }
    s
}

fn args_view_backend(k: &KeyPlan, a: &Assign, crossed: Option<&BTreeMap<String, String>>) -> String {
    let mut s = plain_var_args(a, crossed);
    for (v, val) in &a.fvars {
        let _ = write!(s, ", {} = move || {}", v, val.rust());
    }
    if let Some((v, _, _)) = &a.loop_var {
        let _ = write!(s, ", {} = move || c", v);
    }
    for (v, (kind, n)) in &a.fixed {
        let _ = write!(s, ", {} = move || {}", v, num_literal(*n, kind));
    }
    for c in &k.sig.comps {
        let _ = write!(s, ", <{}> = vc({})", c, rust_str(c));
    }
    s
}

/// the observation function of one key
pub fn key_fn(k: &KeyPlan, nlocales: usize, opts: &PlanOpts) -> String {
    let mut s = String::new();
    let path = key_tokens(k);
    let _ = writeln!(s, "fn key_{}() {{", k.idx);
    let _ = writeln!(s, "    for li in 0..{} {{ let l = loc(li);", nlocales);
    for (ai, a) in k.assigns.iter().enumerate() {
        // argument expressions that mention other arguments' names: the string back-end on odd assignments,
        // the display back-end on even ones, the view on its single assignment; the other calls stay plain
        let cross = crossed_locals(a);
        let cx = cross.as_ref().map(|c| &c.1);
        let lets = cross.as_ref().map(|c| c.0.as_str()).unwrap_or("");
        let sargs = args_string_backend(k, a, None);
        let sargs_x = args_string_backend(k, a, cx);
        let vargs = args_view_backend(k, a, cx);
        let (s_lets, sargs_s) = if ai % 2 == 1 { (lets, &sargs_x) } else { ("", &sargs) };
        let (d_lets, sargs_d) = if ai % 2 == 0 { (lets, &sargs_x) } else { ("", &sargs) };
        let decimals = matches!(&a.loop_var, Some((_, CountKind::Plural, pr)) if pr.iter().any(|n| matches!(n, Num::Float(_))));
        let looped = match &a.loop_var {
            Some((_, kind, probes)) => {
                let ty = count_type(kind, probes);
                let lits: Vec<String> = probes
                    .iter()
                    .map(|n| match (kind, n) {
                        (CountKind::Plural, Num::Int(i)) if !ty.starts_with('&') => format!("{}{}", i, ty),
                        _ => num_literal(*n, kind),
                    })
                    .collect();
                let _ = writeln!(s, "        {{ let cs: Vec<{ty}> = vec![{}]; for (ci, c) in cs.iter().copied().enumerate() {{", lits.join(", "));
                true
            }
            None => {
                let _ = writeln!(s, "        {{ let ci = 0usize;");
                false
            }
        };
        if opts.string_backend && opts.async_strings {
            let _ = writeln!(s, "            {{ {}emit({}, li, {}, ci, 'S', &futures::executor::block_on(td_string!(l, {}{})).to_string()); }}", s_lets, k.idx, ai, path, sargs_s);
        } else if opts.string_backend {
            let _ = writeln!(s, "            {{ {}emit({}, li, {}, ci, 'S', &td_string!(l, {}{}).to_string()); }}", s_lets, k.idx, ai, path, sargs_s);
        }
        if opts.display_backend {
            let _ = writeln!(s, "            {{ {}emit({}, li, {}, ci, 'D', &format!(\"{{}}\", td_display!(l, {}{}))); }}", d_lets, k.idx, ai, path, sargs_d);
        }
        if opts.view_backend && ai == 0 && !decimals {
            let _ = writeln!(s, "            {{ {}emit({}, li, {}, ci, 'V', &html(td!(l, {}{}))); }}", lets, k.idx, ai, path, vargs);
        }
        let _ = writeln!(s, "{}", if looped { "        } }" } else { "        }" });
    }
    let _ = writeln!(s, "    }}");
    let _ = writeln!(s, "}}");
    s
}

pub const FMT_HELPERS: &str = r#"
use leptos_i18n::reexports::icu::calendar::{AnyCalendar, Date, DateTime, Time};
fn mkdate(y: i32, m: u8, d: u8) -> Date<AnyCalendar> {
    Date::try_new_iso_date(y, m, d).unwrap().to_any()
}
fn mktime(h: u8, m: u8, s: u8) -> Time {
    Time::try_new(h, m, s, 0).unwrap()
}
fn mkdt(y: i32, mo: u8, d: u8, h: u8, mi: u8, s: u8) -> DateTime<AnyCalendar> {
    DateTime::new(mkdate(y, mo, d), mktime(h, mi, s))
}
"#;

pub fn main_rs(plan: &Plan, nlocales: usize, opts: &PlanOpts) -> String {
    main_rs_with_refs(plan, nlocales, opts, &[])
}

/// `refs` = reference descriptors the binary evaluates with `vref` (formatter stages)
pub fn main_rs_with_refs(plan: &Plan, nlocales: usize, opts: &PlanOpts, refs: &[String]) -> String {
    let mut s = String::from(PRELUDE);
    s.push_str("fn fd(s: &str) -> &'static leptos_i18n::reexports::fixed_decimal::FixedDecimal {\n    Box::leak(Box::new(s.parse().unwrap()))\n}\n\n");
    if opts.formatters {
        s.push_str(FMT_HELPERS);
        s.push_str("fn refs() {\n    let ds: &[&str] = &[\n");
        for d in refs {
            let _ = writeln!(s, "        {},", rust_str(d));
        }
        s.push_str("    ];\n    for d in ds {\n        match vref::reference(d) {\n            Ok(r) => println!(\"R|{}\\tOK:{}\", d, esc(&r)),\n            Err(e) => println!(\"R|{}\\tERR:{}\", d, esc(&e)),\n        }\n    }\n}\n\n");
    }
    let skip = |k: &KeyPlan| k.has_formatter && !opts.formatters;
    for k in &plan.keys {
        if skip(k) {
            continue;
        }
        s.push_str(&key_fn(k, nlocales, opts));
        s.push('\n');
    }
    s.push_str("fn main() {\n");
    if opts.formatters {
        s.push_str("    refs();\n");
    }
    for k in &plan.keys {
        if skip(k) {
            continue;
        }
        let _ = writeln!(s, "    key_{}();", k.idx);
    }
    s.push_str("    println!(\"DONE\");\n}\n");
    s
}

pub fn write_package(dir: &Path, name: &str, p: &Project, main_rs: &str, style: &Style, features: &str, extra_deps: &str) -> std::io::Result<()> {
    // locale files + a throw-away Cargo.toml, then the real manifest
    ser::write_project_with(p, dir, style, &package_toml(name, p, features, extra_deps), &|_, _| 0)?;
    std::fs::create_dir_all(dir.join("src"))?;
    std::fs::write(dir.join("src/main.rs"), main_rs)?;
    Ok(())
}

/// add the observation of the run-time string tables (dynamic_load builds) to a generated main.rs
pub fn with_tables(main: &str, p: &Project) -> String {
    let mut f = String::from("fn tables() {\n");
    for li in 0..p.locales.len() {
        match &p.namespaces {
            None => {
                let _ = writeln!(f, "    {{ let t = I18nKeys::__i18n_request_translations__(loc({li}), ()); println!(\"T|{li}|-\\t{{}}\", esc(&serde_json::to_string(t).unwrap())); }}");
            }
            Some(nss) => {
                for ns in nss {
                    let _ = writeln!(f, "    {{ let t = I18nKeys::__i18n_request_translations__(loc({li}), I18nTranslationUnitsId::{ns}); println!(\"T|{li}|{ns}\\t{{}}\", esc(&serde_json::to_string(t).unwrap())); }}");
                }
            }
        }
    }
    f.push_str("}\n");
    let main = main.replace("    println!(\"DONE\");", "    tables();\n    println!(\"DONE\");");
    format!("{main}\n{f}")
}
