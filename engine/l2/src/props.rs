//! Property drivers of the generated-crate tier.

use std::collections::{BTreeMap, BTreeSet};
use std::path::{Path, PathBuf};

use serde_json::{json, Value as J};
use vcommon::ctx::{CaseInfo, Ctx, Failure, Tier};
use vcommon::gen::{Gen, GenCfg};
use vcommon::model::*;
use vcommon::sem::{expected_errors, Sem};
use vcommon::ser::{self, Format, Style};
use vcommon::tape::Tape;

use crate::emit;
use crate::emit_c02;
use crate::plan::{self, KeyPlan, Plan, PlanOpts};
use crate::run;

pub fn dispatch(prop: &str, ctx: Ctx) -> ! {
    match prop {
        "C01" => render_prop(ctx, &c01()),
        "C03" => render_prop(ctx, &c03()),
        "C04" => render_prop(ctx, &c04()),
        "C05" => render_prop(ctx, &c05()),
        "C06" => render_prop(ctx, &c06()),
        "C02" => render_prop(ctx, &c02()),
        "C11" => render_prop(ctx, &c11()),
        "C18" => render_prop(ctx, &c18()),
        "C09" => render_prop(ctx, &c09()),
        "C13" => crate::c13::run(ctx),
        "C07" => crate::probes::run(ctx, "C07"),
        "C08" => crate::probes::run(ctx, "C08"),
        "warmup" => warmup(ctx),
        other => {
            eprintln!("harness error: l2 does not serve property {other:?}");
            std::process::exit(2)
        }
    }
}

pub struct RenderProp {
    pub id: &'static str,
    pub cfg: fn(&mut Tape) -> GenCfg,
    pub opts: PlanOpts,
    pub packages: (u32, u32),
    pub tape_len: usize,
    pub nontrivial: fn(&KeyPlan) -> bool,
    pub classes: fn(&KeyPlan) -> Vec<String>,
    pub rule: &'static str,
    pub assumptions: &'static [&'static str],
    pub min_nontrivial: usize,
    /// post-processing of the generated project (property-specific shaping)
    pub shape: Option<fn(&mut Project, &mut Tape)>,
    /// observe every accessor flavour (C02) instead of the three td back-ends
    pub flavours: bool,
    /// build the packages with `dynamic_load` and also observe the run-time string tables (C11)
    pub dynamic_load: bool,
    /// enumerated projects checked in addition to the generated ones (index = stable id for replay)
    pub fixed_projects: Option<fn(Tier) -> Vec<(usize, Project)>>,
}

/// properties whose packages expand `load_locales!()` a second time in a nested module (state that survives an
/// expansion inside the compiler process)
fn second_expansion(id: &str) -> bool {
    id == "C09"
}

fn fail(sig: &str, detail: J) -> Failure {
    Failure {
        signature: sig.to_string(),
        detail,
    }
}

fn std_key_classes(k: &KeyPlan) -> Vec<String> {
    let mut c = vec![];
    let mut add = |b: bool, s: &str| {
        if b {
            c.push(s.to_string())
        }
    };
    add(k.pieces_max >= 2 && !k.sig.is_empty(), "interpolated");
    add(k.comp_depth >= 2, "nested-components");
    add(k.comp_depth >= 4, "component-depth>=4");
    add(k.ns.is_some(), "namespaced");
    add(k.path.len() >= 2, "subkey");
    add(k.defaulted_any, "defaulted-in-some-locale");
    add(k.defaulted_hops2, "defaulted-not-directly-to-default");
    add(k.fk_depth >= 1, "foreign-key");
    add(k.fk_depth >= 2, "foreign-key-chain");
    add(k.has_range, "range");
    add(k.has_plural, "plural");
    add(k.multi_locale_sig, "members-differ-across-locales");
    add(k.has_formatter, "has-formatter");
    c
}

/// project for a tape (None = the model rejects it or it has nothing to observe)
pub fn project_for(tape: &[u32], rp: &RenderProp) -> Option<(Project, Plan, u64)> {
    let mut t = Tape::new(tape.to_vec());
    let style_seed = t.u64();
    let cfg = (rp.cfg)(&mut t);
    let mut p = {
        let mut g = Gen::new(&mut t, cfg);
        g.project()
    };
    if let Some(shape) = rp.shape {
        shape(&mut p, &mut t);
    }
    let sem = Sem::new(&p);
    if !expected_errors(&p, &sem).is_empty() {
        return None;
    }
    let plan = plan::plan_project(&p, &rp.opts, &mut t);
    if plan.keys.iter().all(|k| k.has_formatter) && !rp.opts.formatters {
        return None;
    }
    if rp.id == "C18" && !plan.keys.iter().any(|k| k.has_formatter) {
        return None;
    }
    Some((p, plan, style_seed))
}

/// keep only the given top-level keys (per namespace) in every file
pub fn prune(p: &mut Project, keep: &BTreeSet<(Option<String>, String)>) {
    for ((ns, _), obj) in p.files.iter_mut() {
        obj.retain(|(k, _)| keep.contains(&(ns.clone(), k.clone())));
    }
}

fn fk_targets(pieces: &[Piece], ns: &Option<String>, out: &mut Vec<(Option<String>, String)>) {
    for x in pieces {
        match x {
            Piece::Fk(fk) => {
                let tns = fk.ns.clone().or_else(|| ns.clone());
                if let Some(k) = fk.path.first() {
                    out.push((tns, k.clone()));
                }
                for (_, a) in &fk.args {
                    if let Arg::Str(ap) = a {
                        fk_targets(ap, ns, out);
                    }
                }
            }
            Piece::Comp { children, .. } => fk_targets(children, ns, out),
            _ => {}
        }
    }
}

fn value_targets(v: &Value, ns: &Option<String>, out: &mut Vec<(Option<String>, String)>) {
    match v {
        Value::Str(p) => fk_targets(p, ns, out),
        Value::Range(r) => r.branches.iter().for_each(|b| fk_targets(&b.body, ns, out)),
        Value::Plural(pl) => pl.forms.iter().for_each(|(_, b)| fk_targets(b, ns, out)),
        Value::Sub(o) => o.iter().for_each(|(_, v)| value_targets(v, ns, out)),
        _ => {}
    }
}

/// the top-level keys a key depends on through `$t` (in any locale), itself included
fn closure_only(p: &Project, ns: &Option<String>, top: &str, keep: &mut BTreeSet<(Option<String>, String)>) {
    let mut todo = vec![(ns.clone(), top.to_string())];
    while let Some((n, k)) = todo.pop() {
        if !keep.insert((n.clone(), k.clone())) {
            continue;
        }
        for ((fns, _), obj) in &p.files {
            if *fns != n {
                continue;
            }
            if let Some(v) = obj_get(obj, &k) {
                let mut out = vec![];
                value_targets(v, &n, &mut out);
                todo.extend(out);
            }
        }
    }
}

/// `closure_only`, plus one key (and its closure) per namespace that would otherwise become empty
pub fn dependency_closure(p: &Project, ns: &Option<String>, top: &str) -> BTreeSet<(Option<String>, String)> {
    let mut keep: BTreeSet<(Option<String>, String)> = BTreeSet::new();
    closure_only(p, ns, top, &mut keep);
    // every namespace must keep at least one key in the default locale (files must stay loadable)
    for ns in p.ns_list() {
        if !keep.iter().any(|(n, _)| *n == ns) {
            if let Some(obj) = p.file(ns.as_deref(), p.default_locale()) {
                if let Some((k, _)) = obj.iter().find(|(_, v)| matches!(v, Value::Str(pc) if pc.iter().all(|x| matches!(x, Piece::Text(_))))) {
                    keep.insert((ns.clone(), k.clone()));
                } else if let Some((k, _)) = obj.first() {
                    closure_only(p, &ns, k, &mut keep);
                }
            }
        }
    }
    keep
}

struct Pkg {
    name: String,
    tape: Vec<u32>,
    project: Project,
    plan: Plan,
    style_seed: u64,
    /// index into the property's enumerated projects (no tape)
    fixed: Option<usize>,
}

fn member_name(prop: &str, i: usize) -> String {
    format!("{}_p{}", prop.to_lowercase(), i)
}

fn ws_dir(prop: &str) -> PathBuf {
    Path::new(run::WORK_ROOT).join(prop).join("ws")
}

fn emit_pkg(ws: &Path, pkg: &Pkg, rp: &RenderProp, only_keys: Option<&BTreeSet<usize>>) -> std::io::Result<()> {
    let plan_view;
    let plan: &Plan = match only_keys {
        Some(set) => {
            plan_view = Plan {
                keys: pkg.plan.keys.iter().filter(|k| set.contains(&k.idx)).cloned().collect(),
            };
            &plan_view
        }
        None => &pkg.plan,
    };
    let mut main = if rp.flavours {
        if rp.opts.formatters {
            let refs: Vec<String> = reference_descriptors(&pkg.project, plan).into_iter().collect();
            emit_c02::main_rs(plan, pkg.project.locales.len(), Some(&refs))
        } else {
            emit_c02::main_rs(plan, pkg.project.locales.len(), None)
        }
    } else if rp.opts.formatters {
        let refs: Vec<String> = reference_descriptors(&pkg.project, plan).into_iter().collect();
        emit::main_rs_with_refs(plan, pkg.project.locales.len(), &rp.opts, &refs)
    } else {
        emit::main_rs(plan, pkg.project.locales.len(), &rp.opts)
    };
    if rp.dynamic_load {
        main = emit::with_tables(&main, &pkg.project);
    }
    if second_expansion(rp.id) {
        main = main.replacen("use i18n::*;\n", "use i18n::*;\nmod second_expansion {\n    leptos_i18n::load_locales!();\n}\nmod third_expansion {\n    leptos_i18n::load_locales!();\n    pub fn probe() -> usize {\n        <i18n::Locale as leptos_i18n::Locale>::get_all().len()\n    }\n}\n", 1);
        main = main.replacen("fn main() {\n", "fn main() {\n    assert!(third_expansion::probe() >= 1);\n", 1);
    }
    let style = Style {
        format: Format::Json,
        seed: pkg.style_seed,
        escapes: 1,
    };
    let features = if rp.dynamic_load { format!("{}, \"dynamic_load\"", emit::FEATURES_STD) } else { emit::FEATURES_STD.to_string() };
    // VERIF_L2_SHOW_KEYS=1: the packages are built with the documented `show_keys_only` feature (every translation shows its key)
    let features = if show_keys_mode() { format!("{features}, \"show_keys_only\"") } else { features };
    let flavour_deps = format!("{}vref = {{ path = \"/verif/engine/vref\" }}\n", emit_c02::EXTRA_DEPS);
    let deps = if rp.flavours && rp.opts.formatters {
        flavour_deps.as_str()
    } else if rp.flavours {
        emit_c02::EXTRA_DEPS
    } else if rp.opts.formatters {
        "vref = { path = \"/verif/engine/vref\" }\n"
    } else if rp.dynamic_load {
        "serde_json = \"1\"\nfutures = \"0.3\"\n"
    } else {
        ""
    };
    emit::write_package(&ws.join(&pkg.name), &pkg.name, &pkg.project, &main, &style, &features, deps)
}

/// reference strings printed by the binary (formatter stages)
fn reference_strings(pkg: &Pkg, out: &run::RunOutput, rp: &RenderProp) -> Result<BTreeMap<String, String>, Failure> {
    let mut refs: BTreeMap<String, String> = BTreeMap::new();
    if rp.opts.formatters {
        for (id, text) in &out.obs {
            if let Some(d) = id.strip_prefix("R|") {
                match text.strip_prefix("OK:") {
                    Some(t) => {
                        refs.insert(d.to_string(), t.to_string());
                    }
                    None => {
                        return Err(fail("harness-reference", json!({"package": pkg.name, "descriptor": d, "error": text})));
                    }
                }
            }
        }
    }
    Ok(refs)
}

/// every reference descriptor the expected strings of a plan mention
fn reference_descriptors(p: &Project, plan: &Plan) -> BTreeSet<String> {
    let mut out = BTreeSet::new();
    for k in &plan.keys {
        if !k.has_formatter {
            continue;
        }
        for li in 0..p.locales.len() {
            for a in &k.assigns {
                let n = a.loop_var.as_ref().map(|(_, _, pr)| pr.len()).unwrap_or(1);
                for ci in 0..n {
                    if let Ok(e) = plan::expected(p, k, li, a, ci, false) {
                        plan::placeholders_of(&e, &mut out);
                    }
                }
            }
        }
    }
    out
}

/// compare one package's output with the model; returns per-key case infos or the first failure
fn compare_pkg(pkg: &Pkg, out: &run::RunOutput, rp: &RenderProp, only_keys: Option<&BTreeSet<usize>>) -> Result<Vec<CaseInfo>, Failure> {
    let p = &pkg.project;
    let pj = || ser::project_to_json(p);
    if !out.done {
        return Err(fail(
            "generated-binary-crashed",
            json!({"package": pkg.name, "status": out.status, "stderr": out.stderr_tail, "project": pj()}),
        ));
    }
    let mut infos = vec![];
    if rp.flavours {
        return compare_flavours(pkg, out, rp, only_keys);
    }
    if rp.dynamic_load && only_keys.is_none() {
        // the tables the server hands out must be, as sets, the literal texts of each locale's own keys
        let sem = Sem::new(p);
        for ns in p.ns_list() {
            let nsr = ns.as_deref();
            let Some(def) = p.file(nsr, p.default_locale()) else { continue };
            let mut paths = vec![];
            vcommon::gen::leaf_paths(def, &mut vec![], &mut paths);
            for (li, loc) in p.locales.iter().enumerate() {
                let mut expected: BTreeSet<String> = BTreeSet::new();
                for path in &paths {
                    if sem.is_defaulted(nsr, loc, path) {
                        continue;
                    }
                    if let Ok(r) = sem.resolve_at(nsr, loc, path) {
                        let mut v = vec![];
                        vcommon::sem::literal_texts(&r, &mut v);
                        expected.extend(v);
                    }
                }
                let id = format!("T|{}|{}", li, ns.as_deref().unwrap_or("-"));
                let got: Option<Vec<String>> = out.obs.get(&id).and_then(|t| serde_json::from_str(t).ok());
                let Some(got) = got else {
                    return Err(fail("runtime-table-missing", json!({"package": pkg.name, "locale": loc, "namespace": ns, "raw": out.obs.get(&id), "project": pj()})));
                };
                let got_set: BTreeSet<String> = got.iter().cloned().collect();
                if got_set.len() != got.len() || got_set != expected {
                    let missing: Vec<_> = expected.difference(&got_set).cloned().collect();
                    let extra: Vec<_> = got_set.difference(&expected).cloned().collect();
                    return Err(fail(
                        "runtime-table-content",
                        json!({"package": pkg.name, "locale": loc, "namespace": ns, "table": got, "missing_from_table": missing, "unexpected_in_table": extra, "project": pj()}),
                    ));
                }
            }
        }
    }
    let refs = reference_strings(pkg, out, rp)?;
    for k in &pkg.plan.keys {
        if k.has_formatter && !rp.opts.formatters {
            continue;
        }
        if let Some(set) = only_keys {
            if !set.contains(&k.idx) {
                continue;
            }
        }
        let mut observations = 0u64;
        for li in 0..p.locales.len() {
            for (ai, a) in k.assigns.iter().enumerate() {
                let n = a.loop_var.as_ref().map(|(_, _, pr)| pr.len()).unwrap_or(1);
                let decimals = matches!(&a.loop_var, Some((_, vcommon::sem::CountKind::Plural, pr)) if pr.iter().any(|n| matches!(n, Num::Float(_))));
                for ci in 0..n {
                    let exp_of = |view: bool| plan::expected(p, k, li, a, ci, view);
                    let (exp_s, exp_v) = match (exp_of(false), exp_of(true)) {
                        (Ok(a), Ok(b)) => (a, b),
                        (Err(e), _) | (_, Err(e)) => {
                            return Err(fail("harness-model", json!({"error": format!("{e:?}"), "key": k.path})));
                        }
                    };
                    let (exp_s, exp_v) = if k.has_formatter {
                        match (plan::substitute_refs(&exp_s, &refs), plan::substitute_refs(&exp_v, &refs)) {
                            (Ok(a), Ok(b)) => (a, b),
                            (Err(e), _) | (_, Err(e)) => return Err(fail("harness-reference", json!({"error": e, "key": k.path, "package": pkg.name}))),
                        }
                    } else {
                        (exp_s, exp_v)
                    };
                    let mut backends = vec![];
                    if rp.opts.string_backend {
                        backends.push('S');
                    }
                    if rp.opts.display_backend {
                        backends.push('D');
                    }
                    if rp.opts.view_backend && ai == 0 && !decimals {
                        backends.push('V');
                    }
                    for b in backends {
                        let id = format!("{}|{}|{}|{}|{}", k.idx, li, ai, ci, b);
                        let got = out.obs.get(&id);
                        let got_norm = got.map(|g| if b == 'V' { run::decode_html(g) } else { g.clone() });
                        observations += 1;
                        let exp = if b == 'V' { &exp_v } else { &exp_s };
                        if got_norm.as_deref() != Some(exp.as_str()) {
                            let count = a.loop_var.as_ref().map(|(v, kind, pr)| format!("{} = {}", v, plan::count_display(pr[ci], kind)));
                            let values: BTreeMap<String, J> = p
                                .locales
                                .iter()
                                .map(|l| {
                                    let v = match p.file(k.ns.as_deref(), l).map(|o| vcommon::sem::lookup(o, &k.path)) {
                                        Some(vcommon::sem::Lookup::Val(v)) => {
                                            let o: Obj = vec![("v".to_string(), v.clone())];
                                            serde_json::from_str::<J>(&ser::obj_to_text(&o, &Style::plain(Format::Json))).unwrap_or(J::Null)
                                        }
                                        _ => json!("<absent>"),
                                    };
                                    (l.clone(), v)
                                })
                                .collect();
                            return Err(fail(
                                &format!("l2-render-mismatch:{}", match b { 'S' => "td_string", 'D' => "td_display", _ => "td-view" }),
                                json!({
                                    "package": pkg.name, "key": emit::key_tokens(k), "key_index": k.idx, "locale": p.locales[li], "effective_locale": k.per_locale[li].0,
                                    "backend": b.to_string(), "vars": a.vars, "formatted_vars": format!("{:?}", a.fvars), "count": count, "fixed_counts": format!("{:?}", a.fixed),
                                    "expected_with_reference_descriptors": if k.has_formatter { plan::expected(p, k, li, a, ci, b == 'V').ok() } else { None },
                                    "expected": exp, "actual": got_norm, "raw": got,
                                    "values_of_key": values,
                                }),
                            ));
                        }
                    }
                }
            }
        }
        let mut classes = std_key_classes(k);
        classes.extend((rp.classes)(k));
        classes.extend(crate::plan::count_reuse_classes(k));
        infos.push(CaseInfo {
            hash: k.hash,
            nontrivial: (rp.nontrivial)(k),
            classes,
            sample: if (rp.nontrivial)(k) {
                Some(json!({"key": emit::key_tokens(k), "locales": p.locales, "effective": k.per_locale.iter().map(|(e, _)| e.clone()).collect::<Vec<_>>(),
                    "value_default_locale": p.file(k.ns.as_deref(), p.default_locale()).and_then(|o| match vcommon::sem::lookup(o, &k.path) { vcommon::sem::Lookup::Val(v) => Some(ser::obj_to_text(&vec![("v".to_string(), v.clone())], &Style::plain(Format::Json))), _ => None }),
                    "assignments": k.assigns.len(), "probe_counts": k.assigns.first().and_then(|a| a.loop_var.as_ref().map(|(_, _, p)| p.len()))}))
            } else {
                None
            },
            observations,
        });
    }
    Ok(infos)
}

pub fn show_keys_mode() -> bool {
    std::env::var("VERIF_L2_SHOW_KEYS").as_deref() == Ok("1")
}

/// C02: every flavour must show the model's text (hence the same text as every other flavour)
fn compare_flavours(pkg: &Pkg, out: &run::RunOutput, rp: &RenderProp, only_keys: Option<&BTreeSet<usize>>) -> Result<Vec<CaseInfo>, Failure> {
    let p = &pkg.project;
    let mut infos = vec![];
    let refs = reference_strings(pkg, out, rp)?;
    for k in &pkg.plan.keys {
        if k.has_formatter && !rp.opts.formatters {
            continue;
        }
        if let Some(set) = only_keys {
            if !set.contains(&k.idx) {
                continue;
            }
        }
        let a = &k.assigns[0];
        let mut observations = 0u64;
        let fl = emit_c02::flavours(k);
        for li in 0..p.locales.len() {
            for ci in emit_c02::count_indices(a) {
                let exp_s = plan::expected(p, k, li, a, ci, false).map_err(|e| fail("harness-model", json!({"error": format!("{e:?}")})))?;
                let exp_v = plan::expected(p, k, li, a, ci, true).map_err(|e| fail("harness-model", json!({"error": format!("{e:?}")})))?;
                let (exp_s, exp_v) = if k.has_formatter {
                    (
                        plan::substitute_refs(&exp_s, &refs).map_err(|e| fail("harness-reference", json!({"error": e, "key": k.path})))?,
                        plan::substitute_refs(&exp_v, &refs).map_err(|e| fail("harness-reference", json!({"error": e, "key": k.path})))?,
                    )
                } else {
                    (exp_s, exp_v)
                };
                let mut seen: BTreeMap<String, String> = BTreeMap::new();
                if show_keys_mode() {
                    // with `show_keys_only` the text is the key, whatever the locale and the arguments: what it looks like is
                    // the library's business, but every flavour must show the same thing and it must name the key
                    let mut first: Option<(String, String)> = None;
                    for (f, is_view) in &fl {
                        let id = format!("{}|{}|{}:{}", k.idx, li, ci, f);
                        let Some(got) = out.obs.get(&id) else { continue };
                        let g = if *is_view { run::decode_html(got) } else { got.clone() };
                        observations += 1;
                        let last = k.path.last().cloned().unwrap_or_default();
                        match &first {
                            None => {
                                if !g.contains(&last) {
                                    return Err(fail("show-keys-only:not-the-key", json!({"package": pkg.name, "key": emit::key_tokens(k), "locale": p.locales[li], "flavour": f, "actual": g})));
                                }
                                first = Some((f.clone(), g));
                            }
                            Some((f0, g0)) => {
                                if *g0 != g {
                                    return Err(fail(
                                        "flavour-differs:show_keys_only",
                                        json!({"package": pkg.name, "key": emit::key_tokens(k), "locale": p.locales[li], "flavour": f, "actual": g, "first_flavour": f0, "shows": g0, "vars": a.vars}),
                                    ));
                                }
                            }
                        }
                    }
                    continue;
                }
                for (f, is_view) in &fl {
                    let id = format!("{}|{}|{}:{}", k.idx, li, ci, f);
                    let got = out.obs.get(&id);
                    let got_norm = got.map(|g| if *is_view { run::decode_html(g) } else { g.clone() });
                    observations += 1;
                    let exp = if *is_view { &exp_v } else { &exp_s };
                    if let Some(g) = &got_norm {
                        seen.insert(f.clone(), g.clone());
                    }
                    if got_norm.as_deref() != Some(exp.as_str()) {
                        let count = a.loop_var.as_ref().map(|(v, kind, pr)| format!("{} = {}", v, plan::count_display(pr[ci], kind)));
                        return Err(fail(
                            &format!("flavour-differs:{}", f.split(':').last().unwrap_or(f).trim_end_matches(char::is_numeric)),
                            json!({
                                "package": pkg.name, "key": emit::key_tokens(k), "key_index": k.idx, "locale": p.locales[li],
                                "flavour": f, "vars": a.vars, "count": count, "expected": exp, "actual": got_norm, "raw": got,
                                "other_flavours_so_far": seen,
                            }),
                        ));
                    }
                }
            }
        }
        let mut classes = std_key_classes(k);
        classes.extend((rp.classes)(k));
        classes.extend(crate::plan::count_reuse_classes(k));
        infos.push(CaseInfo {
            hash: k.hash,
            nontrivial: (rp.nontrivial)(k),
            classes,
            sample: if (rp.nontrivial)(k) { Some(json!({"key": emit::key_tokens(k), "locales": p.locales, "flavours": fl.iter().map(|(f, _)| f.clone()).collect::<Vec<_>>()})) } else { None },
            observations,
        });
    }
    Ok(infos)
}

fn run_packages(ctx: &mut Ctx, rp: &RenderProp, pkgs: &[Pkg], only: Option<&BTreeMap<String, BTreeSet<usize>>>) -> Vec<(usize, Failure)> {
    let ws = ws_dir(rp.id);
    let members: Vec<String> = pkgs.iter().map(|p| p.name.clone()).collect();
    if let Err(e) = run::prepare_workspace(&ws, &members) {
        ctx.harness_error(format!("prepare workspace: {e}"));
        return vec![];
    }
    for pkg in pkgs {
        if let Err(e) = emit_pkg(&ws, pkg, rp, only.and_then(|m| m.get(&pkg.name))) {
            ctx.harness_error(format!("emit package: {e}"));
            return vec![];
        }
    }
    let br = run::build_workspace(&ws, &members, false);
    ctx.add_extra_count("cargo_builds", 1);
    ctx.set_extra("last_build_wall_s", json!(br.wall_s));
    let mut failures = vec![];
    // run the binaries in parallel
    let outs: Vec<Option<run::RunOutput>> = std::thread::scope(|s| {
        let hs: Vec<_> = pkgs
            .iter()
            .map(|pkg| {
                let name = pkg.name.clone();
                s.spawn(move || if run::binary_path(&name).exists() { Some(run::run_binary(&name, &[])) } else { None })
            })
            .collect();
        hs.into_iter().map(|h| h.join().ok().flatten()).collect()
    });
    for (i, (pkg, out)) in pkgs.iter().zip(outs).enumerate() {
        match out {
            None => {
                let err = br.errors.get(&pkg.name).cloned().or_else(|| br.errors.get("<cargo>").cloned()).unwrap_or_default();
                if br.errors.contains_key("<cargo>") && !br.errors.contains_key(&pkg.name) {
                    ctx.harness_error(format!("cargo failed without a compiler message for {}: {}", pkg.name, err));
                    continue;
                }
                failures.push((
                    i,
                    fail(
                        "generated-code-does-not-compile",
                        json!({"package": pkg.name, "rustc_errors": err, "project": ser::project_to_json(&pkg.project)}),
                    ),
                ));
            }
            Some(out) => match compare_pkg(pkg, &out, rp, only.and_then(|m| m.get(&pkg.name))) {
                Ok(infos) => {
                    for i in infos {
                        ctx.record(i);
                    }
                }
                Err(f) => failures.push((i, f)),
            },
        }
    }
    run::cleanup_members(&members);
    failures
}

fn report_failure(ctx: &mut Ctx, rp: &RenderProp, pkg: &Pkg, f: Failure) {
    // try to shrink: keep only the failing key and what it references, rebuild a one-package workspace
    let mut detail = f.detail.clone();
    let mut keep_json = J::Null;
    if let Some(kidx) = f.detail["key_index"].as_u64() {
        if let Some(k) = pkg.plan.keys.iter().find(|k| k.idx == kidx as usize) {
            let keep = dependency_closure(&pkg.project, &k.ns, &k.path[0]);
            let mut small = pkg.project.clone();
            prune(&mut small, &keep);
            let sem = Sem::new(&small);
            if expected_errors(&small, &sem).is_empty() {
                let mut t = Tape::new(vec![]);
                let plan = plan::plan_project(&small, &rp.opts, &mut t);
                let spkg = Pkg {
                    name: format!("{}_shrunk", rp.id.to_lowercase()),
                    tape: pkg.tape.clone(),
                    project: small,
                    plan,
                    style_seed: pkg.style_seed,
                    fixed: None,
                };
                let sub = run_packages(ctx, rp, std::slice::from_ref(&spkg), None);
                if let Some((_, sf)) = sub.into_iter().next() {
                    if sf.signature == f.signature {
                        detail = sf.detail;
                        detail["shrunk_project"] = ser::project_to_json(&spkg.project);
                        keep_json = json!(keep.iter().map(|(n, k)| json!([n, k])).collect::<Vec<_>>());
                    }
                }
            }
        }
    }
    if detail.get("shrunk_project").is_none() {
        detail["project"] = ser::project_to_json(&pkg.project);
    }
    detail["keep"] = keep_json;
    if let Some(i) = pkg.fixed {
        detail["fixed_index"] = json!(i);
    }
    ctx.fail("l2", Some(&pkg.tape), &Failure { signature: f.signature, detail });
}

pub fn render_prop(mut ctx: Ctx, rp: &RenderProp) -> ! {
    if let Some(path) = ctx.replay.clone() {
        // replay: regenerate the package from the tape (pruned to the recorded keep-set) and re-check
        let v: J = serde_json::from_str(&std::fs::read_to_string(&path).unwrap_or_default()).unwrap_or(J::Null);
        let tape: Vec<u32> = v["tape"].as_array().map(|a| a.iter().map(|x| x.as_u64().unwrap_or(0) as u32).collect()).unwrap_or_default();
        let fixed = v["detail"]["fixed_index"].as_u64().and_then(|i| rp.fixed_projects.and_then(|f| f(Tier::Thorough).into_iter().find(|(j, _)| *j as u64 == i)));
        let generated = match fixed {
            Some((_, project)) => {
                let mut t = Tape::new(vec![]);
                let plan = plan::plan_project(&project, &rp.opts, &mut t);
                Some((project, plan, 0u64))
            }
            None => project_for(&tape, rp),
        };
        match generated {
            None => ctx.harness_error("replay tape does not produce a checkable project".into()),
            Some((mut project, mut plan, style_seed)) => {
                if let Some(keep) = v["detail"]["keep"].as_array() {
                    let keep: BTreeSet<(Option<String>, String)> = keep.iter().map(|e| (e[0].as_str().map(|s| s.to_string()), e[1].as_str().unwrap_or("").to_string())).collect();
                    prune(&mut project, &keep);
                    let mut t = Tape::new(vec![]);
                    plan = plan::plan_project(&project, &rp.opts, &mut t);
                }
                let pkg = Pkg {
                    name: format!("{}_replay", rp.id.to_lowercase()),
                    tape,
                    project,
                    plan,
                    style_seed,
                    fixed: None,
                };
                for (_, f) in run_packages(&mut ctx, rp, std::slice::from_ref(&pkg), None) {
                    let mut d = f.detail.clone();
                    d["project"] = ser::project_to_json(&pkg.project);
                    ctx.fail("l2", Some(&pkg.tape), &Failure { signature: f.signature, detail: d });
                }
            }
        }
        finish(ctx, rp)
    }
    let n = match ctx.tier {
        Tier::Quick => rp.packages.0,
        Tier::Thorough => rp.packages.1,
    } as usize;
    let batch = 16usize;
    let tapes = ctx.draw_tapes("l2", n * 4, rp.tape_len);
    let mut pkgs: Vec<Pkg> = vec![];
    let mut rejected = 0u64;
    for tape in tapes {
        if pkgs.len() >= n {
            break;
        }
        match project_for(&tape, rp) {
            Some((project, plan, style_seed)) => {
                let name = member_name(rp.id, pkgs.len());
                pkgs.push(Pkg {
                    name,
                    tape,
                    project,
                    plan,
                    style_seed,
                    fixed: None,
                });
            }
            None => rejected += 1,
        }
    }
    if let Some(fp) = rp.fixed_projects {
        let mut nfixed = 0;
        for (i, project) in fp(ctx.tier) {
            let mut t = Tape::new(vec![]);
            let plan = plan::plan_project(&project, &rp.opts, &mut t);
            pkgs.push(Pkg {
                name: format!("{}_f{}", rp.id.to_lowercase(), i),
                tape: vec![],
                project,
                plan,
                style_seed: i as u64,
                fixed: Some(i),
            });
            nfixed += 1;
        }
        ctx.set_extra("enumerated_packages", json!(nfixed));
    }
    ctx.set_extra("packages", json!(pkgs.len()));
    let mut hist: BTreeMap<String, u64> = BTreeMap::new();
    for p in &pkgs {
        *hist.entry(format!("{}-locales", p.project.locales.len())).or_insert(0) += 1;
        let m = p.plan.keys.iter().flat_map(|k| k.per_locale.iter().map(|(_, r)| r.len())).max().unwrap_or(0);
        *hist.entry(format!("max-top-level-pieces-{}", if m > 26 { ">26" } else if m > 12 { "13..26" } else { "<=12" })).or_insert(0) += 1;
    }
    ctx.set_extra("packages_by_locale_count", json!(hist));
    ctx.set_extra("tapes_skipped_model_rejects_or_empty", json!(rejected));
    'outer: for chunk in pkgs.chunks(batch) {
        let failures = run_packages(&mut ctx, rp, chunk, None);
        for (i, f) in failures {
            report_failure(&mut ctx, rp, &chunk[i], f);
            break 'outer;
        }
    }
    finish(ctx, rp)
}

fn finish(ctx: Ctx, rp: &RenderProp) -> ! {
    let min = if ctx.replay.is_some() { 0 } else { rp.min_nontrivial };
    ctx.finish(rp.rule, rp.assumptions, min)
}

/// builds the dependencies of generated packages once (called by setup.sh)
fn warmup(mut ctx: Ctx) -> ! {
    ctx.replay = Some(PathBuf::from("<warmup>"));
    // one plain package and one formatter package (the latter also builds the `vref` reference crate)
    let mut all_ok = true;
    for (rp, name, len) in [(c01(), "warmup_p0", 300usize), (c18(), "warmup_p1", 1500usize)] {
        let tapes = ctx.draw_tapes(name, 16, len);
        let mut built = false;
        for tape in tapes {
            if let Some((project, plan, style_seed)) = project_for(&tape, &rp) {
                let pkg = Pkg {
                    name: name.into(),
                    tape,
                    project,
                    plan,
                    style_seed,
                    fixed: None,
                };
                let ws = ws_dir(name);
                let _ = run::prepare_workspace(&ws, &[pkg.name.clone()]);
                let _ = emit_pkg(&ws, &pkg, &rp, None);
                let br = run::build_workspace(&ws, &[pkg.name.clone()], false);
                run::cleanup_members(&[pkg.name.clone()]);
                eprintln!("warmup build {name}: ok={} {:.1}s {:?}", br.ok, br.wall_s, br.errors);
                all_ok &= br.ok;
                built = true;
                break;
            }
        }
        all_ok &= built;
    }
    std::process::exit(if all_ok { 0 } else { 2 })
}

// ------------------------------------------------------------------------------------------
// property configurations

fn no_classes(_: &KeyPlan) -> Vec<String> {
    vec![]
}

pub fn c01() -> RenderProp {
    RenderProp {
        id: "C01",
        cfg: |t| {
            let base = GenCfg {
                locales: (1, 4),
                p_namespaces: 30,
                keys: (8, 14),
                sub_depth: 2,
                w_kinds: [3, 9, 2, 1, 1, 2, 1],
                p_null: 5,
                p_absent: 5,
                p_kind_varies: 8,
                p_inherits: 25,
                max_pieces: 10,
                max_comp_depth: 5,
                stray_lt: true,
                ..GenCfg::default()
            };
            match t.weighted(&[7, 1, 1]) {
                // very long values: more than 26 top-level pieces (tuple chunking in the generated views)
                1 => GenCfg {
                    keys: (2, 3),
                    locales: (1, 2),
                    min_pieces: 45,
                    max_pieces: 80,
                    max_comp_depth: 2,
                    w_kinds: [1, 12, 0, 0, 0, 1, 0],
                    ..base
                },
                // more than 16 locales defining a key (nested EitherOf16 in the generated views)
                2 => GenCfg {
                    locales: (17, 20),
                    keys: (2, 3),
                    p_namespaces: 0,
                    sub_depth: 1,
                    max_pieces: 4,
                    p_null: 2,
                    p_absent: 2,
                    ..base
                },
                _ => base,
            }
        },
        opts: PlanOpts {
            assignments: 2,
            max_counts: 8,
            ..PlanOpts::default()
        },
        packages: (40, 640),
        tape_len: 6000,
        nontrivial: |k| k.pieces_max >= 2 && !k.sig.is_empty(),
        classes: |k| {
            let mut c = vec![];
            if k.per_locale.iter().any(|(_, r)| r.len() > 26) {
                c.push("more-than-26-top-level-pieces".to_string());
            }
            if k.per_locale.len() > 16 {
                c.push("more-than-16-locales".to_string());
            }
            c
        },
        rule: "generated packages (each: a generated project of 1-4 locales, namespaces, subkeys, 8-14 top-level keys per file, strings of \
               1-10 pieces with components nested to depth 5, unicode / escape / whitespace variants) are compiled with the real \
               load_locales!() and every (locale, key, 2 argument assignments) is observed through td_string!, td_display! and \
               td!(..).to_html(); oracle = rendering of the AST by the reference semantics (components as sentinel-writing closures). \
               one case = one key of one package; non-trivial = value with >=2 pieces and >=1 variable/component/range/plural; \
               distinct = hash of the key's resolved per-locale values",
        assumptions: &["literal text never contains { } < > or `$t(`", "keys whose value uses a formatter are observed by C18, not here"],
        min_nontrivial: 10,
        shape: None,
        flavours: false,
        dynamic_load: false,
        fixed_projects: None,
    }
}

pub fn c03() -> RenderProp {
    RenderProp {
        id: "C03",
        cfg: |_| GenCfg {
            locales: (3, 6),
            p_namespaces: 20,
            keys: (6, 10),
            sub_depth: 2,
            w_kinds: [3, 4, 1, 1, 1, 3, 1],
            p_null: 22,
            p_absent: 22,
            p_kind_varies: 5,
            p_inherits: 75,
            max_pieces: 3,
            max_comp_depth: 2,
            fk_to_null: true,
            ..GenCfg::default()
        },
        opts: PlanOpts {
            assignments: 1,
            max_counts: 4,
            display_backend: false,
            ..PlanOpts::default()
        },
        packages: (40, 640),
        tape_len: 2000,
        nontrivial: |k| k.defaulted_hops2,
        classes: no_classes,
        rule: "generated packages with 3-6 locales, heavy null / absent / inherits weights (chains, forks, cycles, self-reference, \
               explicit default); every (locale, key) is observed through td_string! and td!(..).to_html(), which exercises the \
               generated `Locale::x | Locale::y =>` match arms and literal accessors; oracle = the model's visited-set walk along \
               inherits, then default. In addition one package per enumerated inherits map of the 4-locale domain {fr,de,es} -> \
               {none,en,fr,de,es} holds, for each of the 27 presence patterns {defined,null,absent}^3, a string, an interpolation, a \
               range, a plural, a leaf in a shared group and a whole group. one case = one key; non-trivial = key with a locale \
               defaulted but not directly to the default locale (>=2 hops, a cycle, or a chain ending elsewhere); distinct = hash of \
               the key's resolved per-locale values",
        assumptions: &["the enumerated part covers the complete 4-locale domain in the thorough tier (125 maps) and 8 representative maps (none, chain, fork, 2-cycle, 3-cycle, self-reference, explicit default, mixed) in the quick tier"],
        min_nontrivial: 10,
        shape: None,
        flavours: false,
        dynamic_load: false,
        fixed_projects: Some(|tier| {
            let maps: Vec<usize> = match tier {
                // encoded as m0 + 5*m1 + 25*m2, m_i in {0 none, 1 en, 2 fr, 3 de, 4 es}
                Tier::Quick => vec![0, 2 * 5 + 3 * 25, 2 * 5 + 2 * 25, 3 + 2 * 5, 3 + 4 * 5 + 2 * 25, 2, 1 + 5 + 25, 2 * 25],
                Tier::Thorough => (0..125).collect(),
            };
            maps.into_iter().map(|m| (m, vcommon::gen::c03_project_for_map([m % 5, (m / 5) % 5, m / 25]))).collect()
        }),
    }
}

pub fn c04() -> RenderProp {
    RenderProp {
        id: "C04",
        cfg: |_| GenCfg {
            locales: (1, 2),
            p_namespaces: 10,
            keys: (8, 12),
            sub_depth: 1,
            w_kinds: [1, 1, 0, 12, 0, 1, 3],
            precise_float_key: true,
            p_null: 3,
            p_absent: 3,
            p_kind_varies: 10,
            p_inherits: 10,
            max_pieces: 3,
            max_comp_depth: 2,
            ..GenCfg::default()
        },
        opts: PlanOpts {
            assignments: 1,
            max_counts: 60,
            exhaustive_small: true,
            ..PlanOpts::default()
        },
        packages: (40, 640),
        tape_len: 2500,
        nontrivial: |k| k.has_range,
        classes: |k| {
            let mut c = vec![];
            for kinds in k.sig.counts.values() {
                for kind in kinds {
                    if let vcommon::sem::CountKind::Range(ty) = kind {
                        c.push(format!("range-type:{}", ty.name()));
                    }
                }
            }
            c
        },
        rule: "generated range declarations over the 10 numeric types (and the implicit i32): 0-4 branches + fallback, count specs \
               exact (number or string), a..b, a..=b, a.., ..b, ..=b, lists and `|` alternatives, sequence and {count,value} syntaxes, \
               overlapping branches, bounds biased to type extremes / 0 / each other's neighbourhood; also reached through `$t` with \
               literal and renamed counts. observed through td_string!, td_display! and td!(..).to_html() in a run-time loop over every \
               bound +-2, the type extremes, 0/1/2 (all 256 values for i8/u8; bound +-1 ulp for floats); oracle = first branch containing \
               the count under Rust range semantics on i128 / f64, `{{ count }}` shows the count. one case = one key; non-trivial = key \
               with a range; distinct = hash of the resolved values",
        assumptions: &["every generated integer range has a fallback (a non-exhaustive `match` does not compile)", "empty ranges such as `5..5` / `..MIN` are not generated (rejection of them is allowed)"],
        min_nontrivial: 10,
        shape: None,
        flavours: false,
        dynamic_load: false,
        fixed_projects: None,
    }
}

pub const PLURAL_LOCALES: &[&str] = &["en", "fr", "ru", "pl", "ar", "cy", "ja", "he", "lt", "ga", "sl", "pt-PT", "de", "es", "it", "pt"];

pub fn c05() -> RenderProp {
    RenderProp {
        id: "C05",
        cfg: |_| GenCfg {
            locales: (2, 4),
            locale_pool: PLURAL_LOCALES,
            p_namespaces: 10,
            keys: (6, 10),
            sub_depth: 1,
            w_kinds: [1, 1, 0, 0, 12, 1, 3],
            p_null: 10,
            p_absent: 10,
            p_kind_varies: 5,
            p_inherits: 35,
            max_pieces: 3,
            max_comp_depth: 2,
            ..GenCfg::default()
        },
        opts: PlanOpts {
            assignments: 2,
            max_counts: 40,
            plural_decimals: true,
            ..PlanOpts::default()
        },
        packages: (40, 640),
        tape_len: 2500,
        nontrivial: |k| k.has_plural,
        classes: no_classes,
        rule: "generated plural groups (cardinal and ordinal; every subset of zero/one/two/few/many next to other) in 2-4 locales from \
               a pool covering every CLDR category pattern (en fr ru pl ar cy ja he lt ga sl pt-PT de es it pt), also reached through \
               `$t` with literal and renamed counts; observed through td_string!, td_display! (integer counts and FixedDecimal \
               operands) and td!(..).to_html() in a run-time loop over 36 integer counts and 8 decimals; oracle = hand-transcribed CLDR \
               rules (cross-checked against ICU4X at parser level) choose the category, the written form or `other` is shown. \
               one case = one key; non-trivial = key with a plural group; distinct = hash of the resolved values",
        assumptions: &["a plural inherited from another locale is selected by the rules of the locale being rendered (what every accessor flavour does on the pinned tree)"],
        min_nontrivial: 10,
        shape: None,
        flavours: false,
        dynamic_load: false,
        fixed_projects: None,
    }
}

pub fn c06() -> RenderProp {
    RenderProp {
        id: "C06",
        cfg: |t| {
            let base = GenCfg {
                locales: (1, 3),
                p_namespaces: 30,
                keys: (5, 8),
                sub_depth: 2,
                w_kinds: [3, 6, 2, 2, 2, 2, 14],
                p_null: 8,
                p_absent: 3,
                p_kind_varies: 10,
                p_inherits: 40,
                max_pieces: 5,
                max_comp_depth: 3,
                fk_to_null: true,
                ..GenCfg::default()
            };
            if t.chance(1, 5) {
                // long substituted values: 4-8 references to targets of 4-8 pieces each (more than 26 pieces after
                // substitution: the generated views chunk them into nested tuples)
                GenCfg {
                    keys: (3, 5),
                    locales: (1, 2),
                    w_kinds: [1, 8, 1, 1, 1, 1, 4],
                    min_pieces: 4,
                    max_pieces: 8,
                    max_comp_depth: 2,
                    fk_refs_min: 4,
                    ..base
                }
            } else {
                base
            }
        },
        opts: PlanOpts {
            assignments: 2,
            max_counts: 8,
            display_backend: false,
            ..PlanOpts::default()
        },
        packages: (40, 640),
        tape_len: 2500,
        nontrivial: |k| k.fk_depth >= 2 || (k.fk_depth >= 1 && (k.defaulted_any || k.has_range || k.has_plural)),
        classes: |k| {
            let mut c = vec![];
            if k.fk_depth >= 1 && k.per_locale.iter().any(|(_, r)| r.len() > 26) {
                c.push("reference-key-with-more-than-26-top-level-pieces-after-substitution".to_string());
            }
            c
        },
        rule: "generated packages with acyclic `$t` reference graphs (targets of every kind, other namespaces, subkey paths, null / \
               inherited targets; string / number / bool / interpolated arguments, literal and renamed counts; one package in five concatenates 4-8 references to \
               4-8 piece targets, giving values of more than 26 pieces after substitution); every (locale, key, 2 \
               assignments) observed through td_string! and td!(..).to_html(); oracle = structural substitution on the AST. one case = \
               one key; non-trivial = reference chain of depth >=2, or a reference to a range / plural / defaulted key; distinct = hash of \
               the resolved values",
        assumptions: &["`$t` inside a component body is outside the generated domain"],
        min_nontrivial: 10,
        shape: None,
        flavours: false,
        dynamic_load: false,
        fixed_projects: None,
    }
}

fn fmt_walk(p: &[vcommon::sem::RPiece], inside: &str, out: &mut Vec<String>) {
    use vcommon::sem::RPiece;
    for x in p {
        match x {
            RPiece::Var { fmt: Some(f), name } => {
                out.push(format!("formatter:{}", f.name));
                if !inside.is_empty() {
                    out.push(format!("formatter-inside-{inside}"));
                }
                if name == "count" || name == "renamed_count" {
                    out.push("formatted-count-variable".to_string());
                }
            }
            RPiece::Comp { children, .. } => fmt_walk(children, "component", out),
            RPiece::Range(r) => r.branches.iter().for_each(|(_, b)| fmt_walk(b, "range", out)),
            RPiece::Plural(pl) => pl.forms.values().for_each(|b| fmt_walk(b, "plural", out)),
            _ => {}
        }
    }
}

fn fmt_options_by_var(p: &[vcommon::sem::RPiece], out: &mut BTreeMap<String, BTreeSet<String>>) {
    use vcommon::sem::RPiece;
    for x in p {
        match x {
            RPiece::Var { fmt: Some(f), name } => {
                out.entry(name.clone()).or_default().insert(format!("{}:{:?}", f.name, plan::canonical_options(f)));
            }
            RPiece::Comp { children, .. } => fmt_options_by_var(children, out),
            RPiece::Range(r) => r.branches.iter().for_each(|(_, b)| fmt_options_by_var(b, out)),
            RPiece::Plural(pl) => pl.forms.values().for_each(|b| fmt_options_by_var(b, out)),
            _ => {}
        }
    }
}

pub fn c18() -> RenderProp {
    RenderProp {
        id: "C18",
        cfg: |_| GenCfg {
            locales: (2, 4),
            p_namespaces: 20,
            keys: (5, 8),
            sub_depth: 2,
            w_kinds: [1, 8, 1, 3, 3, 2, 3],
            p_null: 8,
            p_absent: 8,
            p_kind_varies: 15,
            p_inherits: 40,
            max_pieces: 5,
            max_comp_depth: 2,
            formatters: true,
            p_formatter: 60,
            fmt_no_zoned_time: true,
            plural_locales_only: true,
            ..GenCfg::default()
        },
        opts: PlanOpts {
            assignments: 2,
            max_counts: 6,
            formatters: true,
            ..PlanOpts::default()
        },
        packages: (32, 480),
        tape_len: 2500,
        nontrivial: |k| {
            if !k.has_formatter {
                return false;
            }
            let mut c = vec![];
            for (_, r) in &k.per_locale {
                fmt_walk(r, "", &mut c);
            }
            k.per_locale.len() >= 2 && (c.iter().any(|x| x.starts_with("formatter-inside-") || x == "formatted-count-variable") || k.defaulted_any)
        },
        classes: |k| {
            let mut c = vec![];
            for (_, r) in &k.per_locale {
                fmt_walk(r, "", &mut c);
            }
            let mut by_var: BTreeMap<String, BTreeSet<String>> = BTreeMap::new();
            for (_, r) in &k.per_locale {
                fmt_options_by_var(r, &mut by_var);
            }
            if by_var.values().any(|s| s.len() >= 2) {
                c.push("one-variable-formatted-with-different-options".to_string());
            }
            if k.has_formatter && k.defaulted_any {
                c.push("formatter-in-a-key-defaulted-by-some-locale".to_string());
            }
            let mut vals = BTreeSet::new();
            for a in &k.assigns {
                for v in a.fvars.values() {
                    vals.insert(format!("value:{}", v.rust()));
                }
            }
            c.extend(vals);
            c.sort();
            c.dedup();
            c
        },
        rule: "stage 2 (generated crates): generated projects of 2-4 locales in which 60% of the variables (and some range / plural count \
               variables) carry a formatter of one of the six families with generated options, inside plain strings, components, range \
               branches, plural forms, referenced keys and keys defaulted by other locales; each package is compiled with the real \
               load_locales!() and every (locale, key, 2 typed value assignments, <=6 counts) is observed through td_string!, td_display! \
               and td!(..).to_html(). oracle = the reference model's rendering in which every formatted variable is replaced by the output \
               of a freshly built ICU4X formatter for (formatter, documented-default-completed options, rendered locale, value), computed \
               inside the generated binary by the independent `vref` crate from a textual descriptor. `time_length: full|long` is never \
               generated (known finding D23, decided by stage 1). one case = one key; non-trivial = key with a formatter and >=2 locales \
               whose formatter sits inside a component / range / plural, formats a count variable, or whose key is defaulted by some locale; \
               distinct = hash of the resolved values",
        assumptions: &["ICU4X compiled data of the generated binary is the data leptos_i18n links (same crate instance through the lock file)"],
        min_nontrivial: 10,
        shape: None,
        flavours: false,
        dynamic_load: false,
        fixed_projects: None,
    }
}

pub fn c09() -> RenderProp {
    RenderProp {
        id: "C09",
        cfg: |_| GenCfg {
            locales: (1, 3),
            p_namespaces: 40,
            keys: (3, 6),
            sub_depth: 2,
            w_kinds: [3, 6, 2, 2, 2, 2, 2],
            p_null: 6,
            p_absent: 6,
            p_inherits: 30,
            max_pieces: 4,
            max_comp_depth: 2,
            ..GenCfg::default()
        },
        opts: PlanOpts {
            assignments: 1,
            max_counts: 4,
            display_backend: false,
            view_backend: false,
            ..PlanOpts::default()
        },
        packages: (6, 64),
        tape_len: 1500,
        nontrivial: |k| !k.sig.is_empty() || k.has_range || k.has_plural,
        classes: |_| vec!["load_locales-expanded-three-times-in-one-crate".to_string()],
        rule: "stage 2 (generated crates): each package expands `load_locales!()` three times in one crate (top level and two nested modules), \
               so that whatever an expansion leaves behind in the compiler process meets the next one; the package must compile, run, and \
               td_string! of every key must equal the model. one case = one key; non-trivial = interpolation / range / plural key; distinct = hash",
        assumptions: &[],
        min_nontrivial: 3,
        shape: None,
        flavours: false,
        dynamic_load: false,
        fixed_projects: None,
    }
}

pub fn c02() -> RenderProp {
    RenderProp {
        id: "C02",
        cfg: |t| {
            let base = GenCfg {
                locales: (1, 3),
                p_namespaces: 50,
                keys: (4, 6),
                sub_depth: 2,
                w_kinds: [2, 6, 2, 3, 3, 5, 2],
                p_null: 5,
                p_absent: 5,
                p_kind_varies: 10,
                p_inherits: 20,
                max_pieces: 4,
                max_comp_depth: 2,
                plural_locales_only: true,
                // a fifth of the variables carry a formatter (typed values; reference text from `vref`)
                formatters: true,
                p_formatter: 20,
                fmt_no_zoned_time: true,
                ..GenCfg::default()
            };
            if t.chance(1, 6) {
                // very long values: the view flavours nest more than 26 pieces into chunked tuples,
                // the string flavours do not
                GenCfg {
                    keys: (1, 2),
                    locales: (1, 2),
                    min_pieces: 27,
                    max_pieces: 60,
                    w_kinds: [1, 12, 0, 0, 0, 1, 1],
                    ..base
                }
            } else {
                base
            }
        },
        opts: PlanOpts {
            assignments: 1,
            max_counts: 8,
            formatters: true,
            ..PlanOpts::default()
        },
        packages: (24, 320),
        tape_len: 5000,
        nontrivial: |k| (k.pieces_max >= 2 && !k.sig.is_empty()) || k.has_range || k.has_plural || k.path.len() + k.ns.iter().count() >= 2,
        classes: |k| {
            let mut c = vec![format!("path-depth:{}", k.path.len() + k.ns.iter().count())];
            if k.per_locale.iter().any(|(_, r)| r.len() > 26) {
                c.push("more-than-26-top-level-pieces".to_string());
            }
            if k.has_formatter {
                c.push("key-with-formatted-variable".to_string());
            }
            c
        },
        rule: "generated packages (interpolations, ranges, plurals, literals of every JSON type, a fifth of the variables formatted \
               (typed values; their expected text is fresh ICU4X output computed by the vref crate inside the binary), keys under 1-3 \
               levels of namespaces / subkeys); one context per package created natively (ssr, cookie and header getters returning None) and switched with \
               set_locale; for every (locale, key, argument assignment, up to 3 counts) the observations t!/tu!/td! (to_html), \
               t_string!/tu_string!/td_string!, t_display!/tu_display!/td_display!, the const chain get_keys_const().a().b().inner() \
               for literal keys, and for every proper prefix of the key path scope_i18n! (direct and chained one segment at a time), \
               use_i18n_scoped!, scope_locale! (direct and chained) must all equal the model's rendering, hence each other. one case = \
               one key; non-trivial = interpolation / range / plural key, or a key reached through >=1 scope; distinct = hash of the \
               resolved values",
        assumptions: &["reactive re-rendering after set_locale is covered by C16; here every flavour is evaluated after the switch"],
        min_nontrivial: 10,
        shape: None,
        flavours: true,
        dynamic_load: false,
        fixed_projects: None,
    }
}

pub fn c11() -> RenderProp {
    RenderProp {
        id: "C11",
        cfg: |t| GenCfg {
            locales: (1, 4),
            p_namespaces: 45,
            keys: (5, 9),
            sub_depth: 3,
            w_kinds: [4, 6, 2, 1, 1, 3, 3],
            p_null: 10,
            p_absent: 8,
            p_kind_varies: 10,
            p_inherits: 30,
            max_pieces: 6,
            max_comp_depth: 3,
            fk_to_null: true,
            tags: t.chance(1, 3),
            ..GenCfg::default()
        },
        opts: PlanOpts {
            assignments: 1,
            max_counts: 4,
            display_backend: false,
            async_strings: true,
            ..PlanOpts::default()
        },
        packages: (24, 320),
        tape_len: 2500,
        nontrivial: |k| k.defaulted_any || k.path.len() >= 2 || k.ns.is_some() || k.fk_depth >= 1,
        classes: no_classes,
        rule: "generated packages built with the features dynamic_load + ssr (literal text is read at run time from the per-locale \
               tables through index_translations<COUNT, INDEX>): every (locale, key) is rendered through td_string! and td!(..).to_html() \
               and compared with the model (a wrong index or a wrong table length shows as wrong text or does not compile), and \
               I18nKeys::__i18n_request_translations__(locale, unit) - what the server hands to the client - must be, as a set without \
               duplicates, the literal texts of that locale's own keys (per namespace). one case = one key; non-trivial = key that is \
               defaulted somewhere, nested, namespaced or a reference; distinct = hash of the resolved values",
        assumptions: &["the client side (fetching and installing the tables) is wasm-only and not observed"],
        min_nontrivial: 10,
        shape: None,
        flavours: false,
        dynamic_load: true,
        fixed_projects: None,
    }
}
