//! C02: one observation per accessor flavour (and per scoping route) for every (locale, key, args).

use std::fmt::Write as _;

use vcommon::model::*;
use vcommon::sem::CountKind;

use crate::emit::{num_literal, rust_str, PRELUDE};
use crate::plan::{Assign, KeyPlan, Plan};

pub const EXTRA_DEPS: &str = "leptos-use = { version = \"0.15.7\", default-features = false, features = [\"use_locales\", \"use_cookie\", \"ssr\"] }\nany_spawner = \"0.2\"\n";

pub const PRELUDE_CTX: &str = r#"
use leptos_i18n::context::{init_i18n_context_with_options, CookieOptions, I18nContextOptions};
use leptos_i18n::I18nContext;
use std::sync::Arc;

// spawned tasks (isomorphic effects) are queued and never run: nothing happens behind the harness' back
struct NoopExecutor;
thread_local! { static QUEUE: std::cell::RefCell<Vec<std::pin::Pin<Box<dyn std::future::Future<Output = ()>>>>> = const { std::cell::RefCell::new(Vec::new()) }; }
impl any_spawner::CustomExecutor for NoopExecutor {
    fn spawn(&self, fut: any_spawner::PinnedFuture<()>) { QUEUE.with(|q| q.borrow_mut().push(fut)); }
    fn spawn_local(&self, fut: any_spawner::PinnedLocalFuture<()>) { QUEUE.with(|q| q.borrow_mut().push(fut)); }
    fn poll_local(&self) {}
}
fn make_ctx() -> I18nContext<Locale> {
    let cookie = CookieOptions::<Locale>::default()
        .ssr_cookies_header_getter(|| None)
        .ssr_set_cookie(|_: &_| {})
        .on_error(Arc::new(|_| {}));
    let lang = leptos_use::UseLocalesOptions::default().ssr_lang_header_getter(|| None);
    let opts = I18nContextOptions::<Locale>::default().cookie_options(cookie).ssr_lang_header_getter(lang);
    let c = init_i18n_context_with_options(opts);
    provide_context(c);
    c
}
fn emitf(k: usize, li: usize, fl: &str, s: &str) {
    println!("{}|{}|{}\t{}", k, li, fl, esc(s));
}
"#;

fn segs(k: &KeyPlan) -> Vec<String> {
    let mut v = vec![];
    if let Some(ns) = &k.ns {
        v.push(ns.clone());
    }
    v.extend(k.path.iter().cloned());
    v
}

/// (string-backend args, view-backend args) for the first assignment with the given loop count
fn args_for(k: &KeyPlan, a: &Assign, ci: usize) -> (String, String) {
    let mut s = String::new();
    let mut v = String::new();
    for (name, val) in &a.vars {
        let _ = write!(s, ", {} = {}", name, rust_str(val));
        let _ = write!(v, ", {} = {}", name, rust_str(val));
    }
    for (name, val) in &a.fvars {
        let _ = write!(s, ", {} = {}", name, val.rust());
        let _ = write!(v, ", {} = move || {}", name, val.rust());
    }
    if let Some((name, kind, probes)) = &a.loop_var {
        let lit = num_literal(probes[ci], kind);
        let _ = write!(s, ", {} = {}", name, lit);
        let _ = write!(v, ", {} = move || {}", name, lit);
    }
    for (name, (kind, n)) in &a.fixed {
        let _ = write!(s, ", {} = {}", name, num_literal(*n, kind));
        let _ = write!(v, ", {} = move || {}", name, num_literal(*n, kind));
    }
    for c in &k.sig.comps {
        let _ = write!(s, ", <{}> = sc({})", c, rust_str(c));
        let _ = write!(v, ", <{}> = vc({})", c, rust_str(c));
    }
    (s, v)
}

/// counts used for key `k` (indices into the loop probes): at most three, integers only
pub fn count_indices(a: &Assign) -> Vec<usize> {
    match &a.loop_var {
        None => vec![0],
        Some((_, kind, probes)) => {
            let ok: Vec<usize> = probes
                .iter()
                .enumerate()
                .filter(|(_, n)| !(matches!(kind, CountKind::Plural) && matches!(n, Num::Float(_))))
                .map(|(i, _)| i)
                .collect();
            let mut v = vec![];
            for i in [0, ok.len() / 2, ok.len().saturating_sub(1)] {
                if let Some(x) = ok.get(i) {
                    if !v.contains(x) {
                        v.push(*x);
                    }
                }
            }
            v
        }
    }
}

/// the key is a plain literal of one and the same type in every locale (then `.inner()` exists)
pub fn const_accessible(k: &KeyPlan) -> bool {
    use vcommon::sem::RPiece;
    if !k.sig.is_empty() || k.has_range || k.has_plural {
        return false;
    }
    let mut types = std::collections::BTreeSet::new();
    for (_, r) in &k.per_locale {
        if !r.iter().all(|p| matches!(p, RPiece::Text(_) | RPiece::Lit(_))) {
            return false;
        }
        let t = match r.as_slice() {
            [RPiece::Lit(l)] => l.type_name(),
            _ => "string",
        };
        types.insert(t);
    }
    types.len() == 1
}

/// flavour ids emitted for a key (in order); the driver expects exactly these
pub fn flavours(k: &KeyPlan) -> Vec<(String, bool)> {
    // (id, is_view)
    let n = segs(k).len();
    let mut v: Vec<(String, bool)> = vec![];
    for f in ["t", "tu", "td"] {
        v.push((f.to_string(), true));
    }
    for f in ["t_string", "tu_string", "td_string", "t_display", "tu_display", "td_display"] {
        v.push((f.to_string(), false));
    }
    if const_accessible(k) {
        v.push(("const".to_string(), false));
    }
    if k.sig.is_empty() {
        // a subscribed observer: a Memo over the rendered `t!` view, created before any locale switch
        v.push(("memo_t".to_string(), true));
    }
    for p in 1..n {
        v.push((format!("scope_i18n{p}:t"), true));
        v.push((format!("scope_i18n{p}:t_string"), false));
        v.push((format!("scope_i18n_chain{p}:tu_display"), false));
        v.push((format!("use_i18n_scoped{p}:tu_string"), false));
        v.push((format!("scope_locale{p}:td_string"), false));
        v.push((format!("scope_locale_chain{p}:td"), true));
    }
    v
}

pub fn key_fn(k: &KeyPlan, nlocales: usize) -> String {
    let mut s = String::new();
    let sg = segs(k);
    let full = sg.join(".");
    let a = &k.assigns[0];
    let _ = writeln!(s, "fn key_{}(i18n: I18nContext<Locale>) {{", k.idx);
    if k.sig.is_empty() {
        let _ = writeln!(s, "    let memo_c9 = Memo::new(move |_| html(t!(i18n, {full})));");
        let _ = writeln!(s, "    let _ = memo_c9.get_untracked();");
    }
    // the locale is written silently first and then through the notifying setter with the same value: subscribers
    // must still be told
    let _ = writeln!(s, "    for li in 0..{} {{ let l = loc(li); i18n.set_locale_untracked(l); i18n.set_locale(l);", nlocales);
    for ci in count_indices(a) {
        let (sa, va) = args_for(k, a, ci);
        let tag = |f: &str| format!("{ci}:{f}");
        let _ = writeln!(s, "        emitf({}, li, {:?}, &html(t!(i18n, {full}{va})));", k.idx, tag("t"));
        let _ = writeln!(s, "        emitf({}, li, {:?}, &html(tu!(i18n, {full}{va})));", k.idx, tag("tu"));
        let _ = writeln!(s, "        emitf({}, li, {:?}, &html(td!(l, {full}{va})));", k.idx, tag("td"));
        let _ = writeln!(s, "        emitf({}, li, {:?}, &t_string!(i18n, {full}{sa}).to_string());", k.idx, tag("t_string"));
        let _ = writeln!(s, "        emitf({}, li, {:?}, &tu_string!(i18n, {full}{sa}).to_string());", k.idx, tag("tu_string"));
        let _ = writeln!(s, "        emitf({}, li, {:?}, &td_string!(l, {full}{sa}).to_string());", k.idx, tag("td_string"));
        let _ = writeln!(s, "        emitf({}, li, {:?}, &format!(\"{{}}\", t_display!(i18n, {full}{sa})));", k.idx, tag("t_display"));
        let _ = writeln!(s, "        emitf({}, li, {:?}, &format!(\"{{}}\", tu_display!(i18n, {full}{sa})));", k.idx, tag("tu_display"));
        let _ = writeln!(s, "        emitf({}, li, {:?}, &format!(\"{{}}\", td_display!(l, {full}{sa})));", k.idx, tag("td_display"));
        if k.sig.is_empty() {
            let _ = writeln!(s, "        emitf({}, li, {:?}, &memo_c9.get_untracked());", k.idx, tag("memo_t"));
        }
        if const_accessible(k) {
            let chain: String = sg.iter().map(|x| format!(".{x}()")).collect();
            let _ = writeln!(s, "        emitf({}, li, {:?}, &format!(\"{{}}\", l.get_keys_const(){chain}.inner()));", k.idx, tag("const"));
        }
        for p in 1..sg.len() {
            let prefix = sg[..p].join(".");
            let rest = sg[p..].join(".");
            let _ = writeln!(s, "        {{ let scoped_c9 = scope_i18n!(i18n, {prefix});");
            let _ = writeln!(s, "          emitf({}, li, {:?}, &html(t!(scoped_c9, {rest}{va})));", k.idx, tag(&format!("scope_i18n{p}:t")));
            let _ = writeln!(s, "          emitf({}, li, {:?}, &t_string!(scoped_c9, {rest}{sa}).to_string()); }}", k.idx, tag(&format!("scope_i18n{p}:t_string")));
            // chained one segment at a time
            let _ = writeln!(s, "        {{ let scoped_c9 = i18n;");
            for seg in &sg[..p] {
                let _ = writeln!(s, "          let scoped_c9 = scope_i18n!(scoped_c9, {seg});");
            }
            let _ = writeln!(s, "          emitf({}, li, {:?}, &format!(\"{{}}\", tu_display!(scoped_c9, {rest}{sa}))); }}", k.idx, tag(&format!("scope_i18n_chain{p}:tu_display")));
            let _ = writeln!(s, "        {{ let scoped_c9 = use_i18n_scoped!({prefix});");
            let _ = writeln!(s, "          emitf({}, li, {:?}, &tu_string!(scoped_c9, {rest}{sa}).to_string()); }}", k.idx, tag(&format!("use_i18n_scoped{p}:tu_string")));
            let _ = writeln!(s, "        {{ let scoped_l9 = scope_locale!(l, {prefix});");
            let _ = writeln!(s, "          emitf({}, li, {:?}, &td_string!(scoped_l9, {rest}{sa}).to_string()); }}", k.idx, tag(&format!("scope_locale{p}:td_string")));
            let _ = writeln!(s, "        {{ let scoped_l9 = l;");
            for seg in &sg[..p] {
                let _ = writeln!(s, "          let scoped_l9 = scope_locale!(scoped_l9, {seg});");
            }
            let _ = writeln!(s, "          emitf({}, li, {:?}, &html(td!(scoped_l9, {rest}{va}))); }}", k.idx, tag(&format!("scope_locale_chain{p}:td")));
        }
    }
    let _ = writeln!(s, "    }}");
    let _ = writeln!(s, "}}");
    s
}

/// `refs`: Some(descriptors) = formatter keys are observed too and the binary prints their reference strings
pub fn main_rs(plan: &Plan, nlocales: usize, refs: Option<&[String]>) -> String {
    let mut s = String::from(PRELUDE);
    s.push_str(PRELUDE_CTX);
    s.push_str("fn fd(s: &str) -> &'static leptos_i18n::reexports::fixed_decimal::FixedDecimal {\n    Box::leak(Box::new(s.parse().unwrap()))\n}\n\n");
    if let Some(refs) = refs {
        s.push_str(crate::emit::FMT_HELPERS);
        s.push_str("fn refs() {\n    let ds: &[&str] = &[\n");
        for d in refs {
            let _ = writeln!(s, "        {},", rust_str(d));
        }
        s.push_str("    ];\n    for d in ds {\n        match vref::reference(d) {\n            Ok(r) => println!(\"R|{}\\tOK:{}\", d, esc(&r)),\n            Err(e) => println!(\"R|{}\\tERR:{}\", d, esc(&e)),\n        }\n    }\n}\n\n");
    }
    let skip = |k: &KeyPlan| k.has_formatter && refs.is_none();
    for k in &plan.keys {
        if skip(k) {
            continue;
        }
        s.push_str(&key_fn(k, nlocales));
        s.push('\n');
    }
    s.push_str("fn main() {\n    let _ = any_spawner::Executor::init_custom_executor(NoopExecutor);\n");
    if refs.is_some() {
        s.push_str("    refs();\n");
    }
    s.push_str("    let owner = Owner::new();\n    owner.with(|| {\n        let i18n = make_ctx();\n");
    for k in &plan.keys {
        if skip(k) {
            continue;
        }
        let _ = writeln!(s, "        key_{}(i18n);", k.idx);
    }
    s.push_str("    });\n    println!(\"DONE\");\n    use std::io::Write;\n    let _ = std::io::stdout().flush();\n    QUEUE.with(|q| q.borrow_mut().clear());\n    std::process::exit(0);\n}\n");
    s
}
