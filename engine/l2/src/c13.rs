//! C13 — locale identifiers round-trip through every representation (generated crates).

use std::collections::{BTreeMap, BTreeSet};
use std::fmt::Write as _;
use std::path::Path;

use serde_json::json;
use vcommon::ctx::{hash_str, CaseInfo, Ctx, Failure, Tier};
use vcommon::tape::Tape;

use crate::emit::{rust_str, workspace_toml, FEATURES_STD};
use crate::run;

const POOL: &[&str] = &[
    "en", "en-US", "en-GB", "fr", "fr-FR", "fr-CA", "de", "de-CH", "zh", "zh-Hant", "zh-Hant-TW", "zh-Hans-CN", "ar", "ar-EG", "he", "fa", "ur", "pt",
    "pt-BR", "sr-Latn", "sr-Cyrl", "ca-ES-valencia", "es-419", "ja", "ko", "en-AU", "de-AT", "it", "it-CH", "nl", "nl-BE",
    // same language, different direction depending on the script
    "pa", "pa-Arab", "az", "az-Arab", "ar-Latn", "sd", "sd-Deva", "uz", "uz-Arab", "ug", "ku", "ku-Arab", "he-Latn", "ks", "ps",
    // same language and no explicit script: the region implies the script (CLDR likely subtags)
    "pa-PK", "az-IR", "uz-AF", "sd-IN", "ms", "ms-Arab",
];
/// locales whose text runs right to left (CLDR): explicit Arab / Hebr script, or a language whose
/// likely script is one of them
const RTL: &[&str] = &["ar", "ar-EG", "he", "fa", "ur", "pa-Arab", "az-Arab", "sd", "uz-Arab", "ug", "ku-Arab", "ks", "ps", "pa-PK", "az-IR", "uz-AF", "ms-Arab", "ckb", "yi", "dv", "arz"];

struct Case {
    default: String,
    /// as written in `locales = [...]`
    listed: Vec<String>,
    probes: Vec<String>,
}

fn gen_case(t: &mut Tape) -> Case {
    let n = t.range(2, 8);
    // prefer related names: pick a few languages then their variants
    let perm = t.permutation(POOL.len());
    let mut set: Vec<String> = vec![];
    if t.chance(2, 3) {
        set.push(RTL[t.pick(RTL.len())].to_string());
    }
    for i in perm {
        if set.len() >= n {
            break;
        }
        let cand = POOL[i];
        // half of the time, only accept names related to one already chosen (prefix pairs)
        let related = set.iter().any(|s| s.starts_with(cand) || cand.starts_with(s.as_str()) || s.split('-').next() == cand.split('-').next());
        if (set.is_empty() || related || t.chance(1, 2)) && !set.iter().any(|x| x == cand) {
            set.push(cand.to_string());
        }
    }
    if set.len() < 2 {
        set.push(if set[0] == "en" { "fr".into() } else { "en".to_string() });
    }
    let di = t.pick(set.len());
    let default = set[di].clone();
    let mut listed = set.clone();
    if t.chance(1, 3) {
        listed.remove(di); // default left out of the list
    } else {
        // default at a random position
        let d = listed.remove(di);
        let pos = t.pick(listed.len() + 1);
        listed.insert(pos, d);
    }
    // probes: every name and strings near names
    let mut probes: Vec<String> = vec![];
    let mut all: Vec<String> = listed.clone();
    if !all.contains(&default) {
        all.push(default.clone());
    }
    for name in &all {
        probes.push(name.clone());
        probes.push(name.to_uppercase());
        probes.push(name.to_lowercase());
        probes.push(name.replace('-', "_"));
        probes.push(format!(" {name}"));
        probes.push(format!("{name}\t"));
        probes.push(format!("{name}x"));
        probes.push(format!("x{name}"));
        probes.push(format!("{name}-"));
        probes.push(format!("{name}-US"));
        if name.len() > 1 {
            probes.push(name[..name.len() - 1].to_string());
            probes.push(name[1..].to_string());
        }
        if let Some((lang, _)) = name.split_once('-') {
            probes.push(lang.to_string());
        }
    }
    for extra in ["", " ", "\u{a0}en", "en\u{0}", "xx", "english", "fr_FR", "*", "en;q=0.8", "\"en\"", "ｅｎ", "EN-us"] {
        probes.push(extra.to_string());
    }
    for _ in 0..6 {
        let o = POOL[t.pick(POOL.len())];
        probes.push(o.to_string());
    }
    probes.sort();
    probes.dedup();
    Case { default, listed, probes }
}

fn package_toml(name: &str, c: &Case) -> String {
    let listed: Vec<String> = c.listed.iter().map(|l| format!("\"{l}\"")).collect();
    format!(
        "[package]\nname = \"{name}\"\nversion = \"0.0.0\"\nedition = \"2021\"\n\n[dependencies]\nleptos = {{ version = \"0.7.7\", default-features = false, features = [\"ssr\"] }}\nleptos_i18n = {{ path = \"/repo/leptos_i18n\", default-features = false, features = [{FEATURES_STD}] }}\nserde_json = \"1\"\ncodee = \"0.3\"\n\n[package.metadata.leptos-i18n]\ndefault = \"{}\"\nlocales = [{}]\n",
        c.default,
        listed.join(", ")
    )
}

fn main_rs(c: &Case) -> String {
    let mut s = String::from(
        r#"#![allow(unused, non_snake_case, non_camel_case_types, clippy::all)]
use leptos::prelude::*;
leptos_i18n::load_locales!();
use i18n::*;
use leptos_i18n::Locale as _;
use std::str::FromStr;
fn esc(s: &str) -> String {
    let mut o = String::new();
    for c in s.chars() { match c { '\\' => o.push_str("\\\\"), '\n' => o.push_str("\\n"), '\r' => o.push_str("\\r"), '\t' => o.push_str("\\t"), c => o.push(c) } }
    o
}
fn idx(l: Locale) -> String { Locale::get_all().iter().position(|x| *x == l).map(|i| i.to_string()).unwrap_or("?".into()) }
// a second locale enum living in the same process (an embedded component with its own translations): the same
// names in another order plus one name of its own; it is used FIRST, so that anything the library shares
// between locale enums is filled by it
mod other_set {
    leptos_i18n::declare_locales! {
        path: leptos_i18n,
        default: OTHER_DEFAULT,
        locales: [OTHER_LOCALES],
        OTHER_BODIES
    }
}
fn main() {
    {
        use other_set::i18n::Locale as Other;
        let probes: &[&str] = &[PROBES];
        for p in probes.iter() {
            let _ = Other::from_str(p);
            let _ = serde_json::from_str::<Other>(&serde_json::to_string(p).unwrap());
            let _ = <codee::string::FromToStringCodec as codee::Decoder<Other>>::decode(p);
        }
        for (i, l) in <Other as leptos_i18n::Locale>::get_all().iter().copied().enumerate() {
            let name = leptos_i18n::Locale::as_str(l);
            let back = Other::from_str(name).map(|x| leptos_i18n::Locale::as_str(x).to_string()).unwrap_or("ERR".into());
            println!("o{i}|roundtrip\t{}\u{1f}{}\u{1f}{:?}", esc(name), esc(&back), leptos_i18n::Locale::direction(l));
        }
    }
    let all = Locale::get_all();
    println!("n\t{}", all.len());
    println!("default\t{}", idx(Locale::default()));
    for (i, l) in all.iter().copied().enumerate() {
        let name = leptos_i18n::Locale::as_str(l);
        println!("{i}|as_str\t{}", esc(name));
        println!("{i}|display\t{}", esc(&format!("{}", l)));
        println!("{i}|asref_str\t{}", esc(<Locale as AsRef<str>>::as_ref(&l)));
        println!("{i}|from_str\t{}", Locale::from_str(name).map(idx).unwrap_or("ERR".into()));
        let js = serde_json::to_string(&l).unwrap();
        println!("{i}|serde_ser\t{}", esc(&js));
        println!("{i}|serde_de\t{}", serde_json::from_str::<Locale>(&js).map(idx).unwrap_or("ERR".into()));
        let enc = <codee::string::FromToStringCodec as codee::Encoder<Locale>>::encode(&l).unwrap();
        println!("{i}|codec_enc\t{}", esc(&enc));
        println!("{i}|codec_dec\t{}", <codee::string::FromToStringCodec as codee::Decoder<Locale>>::decode(&enc).map(idx).unwrap_or("ERR".into()));
        println!("{i}|icu\t{}", esc(&leptos_i18n::Locale::as_icu_locale(l).to_string()));
        println!("{i}|icu_of_name\t{}", esc(&name.parse::<leptos_i18n::reexports::icu::locid::Locale>().map(|x| x.to_string()).unwrap_or("ERR".into())));
        println!("{i}|langid\t{}", esc(&leptos_i18n::Locale::as_langid(l).to_string()));
        println!("{i}|langid_of_name\t{}", esc(&name.parse::<leptos_i18n::reexports::icu::locid::LanguageIdentifier>().map(|x| x.to_string()).unwrap_or("ERR".into())));
        println!("{i}|asref_langid\t{}", esc(&<Locale as AsRef<leptos_i18n::reexports::icu::locid::LanguageIdentifier>>::as_ref(&l).to_string()));
        println!("{i}|direction\t{:?}", leptos_i18n::Locale::direction(l));
        let sl = scope_locale!(l, sub);
        println!("{i}|scoped_as_str\t{}", esc(leptos_i18n::Locale::as_str(sl)));
        println!("{i}|scoped_base\t{}", idx(leptos_i18n::Locale::to_base_locale(sl)));
        println!("{i}|scoped_text\t{}", esc(&td_string!(sl, a).to_string()));
        println!("{i}|text\t{}", esc(&td_string!(l, k).to_string()));
    }
    let probes: &[&str] = &[PROBES];
    for (pi, p) in probes.iter().enumerate() {
        println!("p{pi}|from_str\t{}", Locale::from_str(p).map(idx).unwrap_or("ERR".into()));
        let js = serde_json::to_string(p).unwrap();
        println!("p{pi}|serde_de\t{}", serde_json::from_str::<Locale>(&js).map(idx).unwrap_or("ERR".into()));
        println!("p{pi}|codec_dec\t{}", <codee::string::FromToStringCodec as codee::Decoder<Locale>>::decode(p).map(idx).unwrap_or("ERR".into()));
    }
    println!("DONE");
}
"#,
    );
    let probes: Vec<String> = c.probes.iter().map(|p| rust_str(p)).collect();
    s = s.replace("PROBES", &probes.join(", "));
    let others = other_set(c);
    s = s.replace("OTHER_DEFAULT", &rust_str(&others[0]));
    s = s.replace("OTHER_LOCALES", &others.iter().map(|l| rust_str(l)).collect::<Vec<_>>().join(", "));
    let bodies: Vec<String> = others.iter().map(|l| format!("{}: {{ k: \"v\" }},", l.replace('-', "_"))).collect();
    s = s.replace("OTHER_BODIES", &bodies.join("\n        "));
    s
}

/// locales of the second enum: the case's names in reverse order (default = the last one) plus `eo`
fn other_set(c: &Case) -> Vec<String> {
    let mut all: Vec<String> = c.listed.clone();
    if !all.contains(&c.default) {
        all.push(c.default.clone());
    }
    all.reverse();
    if !all.iter().any(|l| l == "eo") {
        all.insert(1.min(all.len()), "eo".to_string());
    }
    all
}

fn fail(sig: &str, detail: serde_json::Value) -> Failure {
    Failure {
        signature: sig.into(),
        detail,
    }
}

fn check_case(c: &Case, out: &run::RunOutput, pkg: &str) -> Result<CaseInfo, Failure> {
    let cfg = json!({"default": c.default, "locales": c.listed});
    let det = |what: &str, extra: serde_json::Value| json!({"package": pkg, "config": cfg, "what": what, "extra": extra});
    if !out.done {
        return Err(fail("generated-binary-crashed", det("no DONE line", json!({"status": out.status, "stderr": out.stderr_tail}))));
    }
    let get = |k: &str| out.obs.get(k).cloned().unwrap_or_else(|| "<missing>".into());
    let mut all: Vec<String> = c.listed.clone();
    if !all.contains(&c.default) {
        all.push(c.default.clone());
    }
    let n: usize = get("n").parse().unwrap_or(0);
    let mut observations = 2u64;
    // the second enum of the process keeps its own identity too
    for (i, name) in other_set(c).iter().enumerate() {
        let got = get(&format!("o{i}|roundtrip"));
        let parts: Vec<&str> = got.split('\u{1f}').collect();
        observations += 1;
        let dir_ok = parts.get(2).map(|d| (*d == "RightToLeft") == RTL.contains(&name.as_str())).unwrap_or(false);
        if parts.first() != Some(&name.as_str()) || parts.get(1) != Some(&name.as_str()) || !dir_ok {
            return Err(fail("identity:second-enum", det("the second locale enum of the process does not round-trip", json!({"position": i, "name": name, "observed (as_str, from_str(as_str), direction)": parts}))));
        }
    }
    if n != all.len() {
        return Err(fail("get_all-size", det("get_all length", json!({"got": n, "expected": all.len()}))));
    }
    if get("default") != "0" {
        return Err(fail("default-not-first", det("Locale::default() is not get_all()[0]", json!({"index": get("default")}))));
    }
    let names: Vec<String> = (0..n).map(|i| get(&format!("{i}|as_str"))).collect();
    if names[0] != c.default {
        return Err(fail("default-not-first", det("get_all()[0] is not the configured default", json!({"names": names}))));
    }
    let got_set: BTreeSet<&String> = names.iter().collect();
    let exp_set: BTreeSet<&String> = all.iter().collect();
    if got_set != exp_set || got_set.len() != n {
        return Err(fail("get_all-content", det("get_all is not the configured set, once each", json!({"names": names}))));
    }
    for (i, name) in names.iter().enumerate() {
        let is = i.to_string();
        let checks: Vec<(&str, String, String)> = vec![
            ("display", get(&format!("{i}|display")), name.clone()),
            ("asref_str", get(&format!("{i}|asref_str")), name.clone()),
            ("from_str", get(&format!("{i}|from_str")), is.clone()),
            ("serde_ser", get(&format!("{i}|serde_ser")), format!("\"{name}\"")),
            ("serde_de", get(&format!("{i}|serde_de")), is.clone()),
            ("codec_enc", get(&format!("{i}|codec_enc")), name.clone()),
            ("codec_dec", get(&format!("{i}|codec_dec")), is.clone()),
            ("icu", get(&format!("{i}|icu")), get(&format!("{i}|icu_of_name"))),
            ("langid", get(&format!("{i}|langid")), get(&format!("{i}|langid_of_name"))),
            ("asref_langid", get(&format!("{i}|asref_langid")), get(&format!("{i}|langid_of_name"))),
            ("direction", get(&format!("{i}|direction")), if RTL.contains(&name.as_str()) { "RightToLeft".into() } else { "LeftToRight".into() }),
            ("scoped_as_str", get(&format!("{i}|scoped_as_str")), name.clone()),
            ("scoped_base", get(&format!("{i}|scoped_base")), is.clone()),
            ("scoped_text", get(&format!("{i}|scoped_text")), format!("sub-a@{name}")),
            ("text", get(&format!("{i}|text")), format!("k@{name}")),
        ];
        for (what, got, exp) in checks {
            observations += 1;
            if got != exp || got == "ERR" && what.starts_with("icu") {
                return Err(fail(&format!("identity:{what}"), det(what, json!({"locale": name, "got": got, "expected": exp}))));
            }
        }
    }
    let index_of: BTreeMap<&str, usize> = names.iter().enumerate().map(|(i, n)| (n.as_str(), i)).collect();
    for (pi, p) in c.probes.iter().enumerate() {
        let from = get(&format!("p{pi}|from_str"));
        let serde = get(&format!("p{pi}|serde_de"));
        let codec = get(&format!("p{pi}|codec_dec"));
        observations += 3;
        match index_of.get(p.as_str()) {
            Some(i) => {
                let is = i.to_string();
                if from != is || serde != is || codec != is {
                    return Err(fail("name-does-not-parse-to-its-locale", det("probe is a configured name", json!({"probe": p, "from_str": from, "serde": serde, "codec": codec, "expected_index": i}))));
                }
            }
            None => {
                // a name padded with whitespace may parse to that locale (from_str trims on purpose)
                let trimmed = p.trim();
                let allowed: Vec<String> = match index_of.get(trimmed) {
                    Some(i) if trimmed != p => vec![i.to_string(), "ERR".into()],
                    _ => vec!["ERR".into()],
                };
                if !allowed.contains(&from) || !allowed.contains(&codec) {
                    return Err(fail(
                        "non-name-parses-to-a-locale",
                        det("FromStr / cookie codec accepted a string that is not a configured name", json!({"probe": p, "from_str": from, "codec": codec, "names": names})),
                    ));
                }
                // serde never fails: unknown strings give the default locale
                let mut allowed_serde = vec!["0".to_string()];
                if let Some(i) = index_of.get(trimmed) {
                    if trimmed != p {
                        allowed_serde.push(i.to_string());
                    }
                }
                if !allowed_serde.contains(&serde) {
                    return Err(fail("non-name-deserializes-to-non-default", det("serde", json!({"probe": p, "serde": serde, "names": names}))));
                }
            }
        }
    }
    let prefix_pair = all.iter().any(|a| all.iter().any(|b| a != b && b.starts_with(a.as_str())));
    let rtl = all.iter().any(|a| RTL.contains(&a.as_str()));
    let mut classes = vec![];
    if prefix_pair {
        classes.push("strict-prefix-pair".to_string());
    }
    if rtl {
        classes.push("has-rtl".into());
    }
    if !c.listed.contains(&c.default) {
        classes.push("default-unlisted".into());
    } else if c.listed[0] != c.default {
        classes.push("default-not-listed-first".into());
    }
    if all.iter().any(|a| a.matches('-').count() >= 2) {
        classes.push("script-or-variant".into());
    }
    Ok(CaseInfo {
        hash: hash_str(&format!("{:?}{:?}", c.default, c.listed)),
        nontrivial: prefix_pair && rtl,
        classes,
        sample: Some(json!({"default": c.default, "locales": c.listed, "probes": c.probes.len()})),
        observations,
    })
}

fn write_pkg(ws: &Path, name: &str, c: &Case) -> std::io::Result<()> {
    let dir = ws.join(name);
    std::fs::create_dir_all(dir.join("src"))?;
    std::fs::create_dir_all(dir.join("locales"))?;
    std::fs::write(dir.join("Cargo.toml"), package_toml(name, c))?;
    std::fs::write(dir.join("src/main.rs"), main_rs(c))?;
    let mut all = c.listed.clone();
    if !all.contains(&c.default) {
        all.push(c.default.clone());
    }
    for l in all {
        let mut s = String::new();
        let _ = write!(s, "{{\"k\": \"k@{l}\", \"sub\": {{\"a\": \"sub-a@{l}\"}}}}");
        std::fs::write(dir.join("locales").join(format!("{l}.json")), s)?;
    }
    Ok(())
}

pub fn run(mut ctx: Ctx) -> ! {
    let ws = Path::new(run::WORK_ROOT).join("C13").join("ws");
    let replay_tape: Option<Vec<u32>> = ctx.replay.clone().and_then(|p| {
        let v: serde_json::Value = serde_json::from_str(&std::fs::read_to_string(p).ok()?).ok()?;
        Some(v["tape"].as_array()?.iter().map(|x| x.as_u64().unwrap_or(0) as u32).collect())
    });
    let n = match ctx.tier {
        Tier::Quick => 96,
        Tier::Thorough => 640,
    };
    let tapes = match replay_tape {
        Some(t) => vec![t],
        None => ctx.draw_tapes("l2", n, 400),
    };
    let cases: Vec<(String, Vec<u32>, Case)> = tapes
        .into_iter()
        .enumerate()
        .map(|(i, tape)| {
            let mut t = Tape::new(tape.clone());
            (format!("c13_p{i}"), tape, gen_case(&mut t))
        })
        .collect();
    'outer: for chunk in cases.chunks(32) {
        let members: Vec<String> = chunk.iter().map(|(n, _, _)| n.clone()).collect();
        if let Err(e) = run::prepare_workspace(&ws, &members) {
            ctx.harness_error(format!("prepare workspace: {e}"));
            break;
        }
        let _ = std::fs::write(ws.join("Cargo.toml"), workspace_toml(&members));
        for (name, _, c) in chunk {
            if let Err(e) = write_pkg(&ws, name, c) {
                ctx.harness_error(format!("write package: {e}"));
                break 'outer;
            }
        }
        let br = run::build_workspace(&ws, &members, false);
        ctx.add_extra_count("cargo_builds", 1);
        for (name, tape, c) in chunk {
            if !run::binary_path(name).exists() {
                let err = br.errors.get(name).cloned().or_else(|| br.errors.get("<cargo>").cloned()).unwrap_or_default();
                if !br.errors.contains_key(name) {
                    ctx.harness_error(format!("cargo failed without a compiler message for {name}: {err}"));
                    break 'outer;
                }
                if ctx.fail("l2", Some(tape), &fail("generated-code-does-not-compile", json!({"package": name, "config": {"default": c.default, "locales": c.listed}, "rustc_errors": err}))) {
                    break 'outer;
                }
                continue;
            }
            let out = run::run_binary(name, &[]);
            match check_case(c, &out, name) {
                Ok(i) => ctx.record(i),
                Err(f) => {
                    if ctx.fail("l2", Some(tape), &f) {
                        run::cleanup_members(&members);
                        break 'outer;
                    }
                }
            }
        }
        run::cleanup_members(&members);
    }
    let min = if ctx.replay.is_some() { 0 } else { 5 };
    ctx.finish(
        "generated locale sets (2-8 names from a pool with regions, scripts, variants, near-duplicates such as en / en-US / en-GB, \
         RTL languages; default at any listed position or left out of the list), each compiled as its own package with \
         load_locales!(); for every locale: as_str, Display, AsRef<str>, FromStr, serde_json round trip, FromToStringCodec \
         encode/decode (the cookie codec), as_icu_locale / as_langid against the ICU parse of the name, direction against a hand \
         list (ar he fa ur ps sd ug ks ckb yi dv arz and the Arab-script / region forms of pa az uz ku ms = rtl), the same through scope_locale!, and the text of a key; get_all = configured set once each with \
         the default first; for every probe string near a name (case variants, '-'/'_' swaps, padding, strict prefixes / suffixes, \
         extensions, names outside the set, junk): FromStr and the codec reject it, serde yields the default. one case = one \
         locale set; non-trivial = set with a strict-prefix pair and an RTL locale; distinct = hash of the configuration",
        &["a name padded with ASCII whitespace may parse to that locale (from_str trims on purpose): accepted either way"],
        min,
    )
}
