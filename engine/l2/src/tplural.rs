//! C05, third stage: the `t_plural!` family (`t_plural!`, `tu_plural!`, `td_plural!` and their `_ordinal`
//! forms). Generated call sites (arm subsets in generated order, optional `_` fallback, integer and decimal
//! counts) are compiled in packages with 3-5 locales and a natively created context; the closures returned
//! by `t_plural!` are created once and called again after every `set_locale`. Oracle: the hand-transcribed
//! CLDR rules of the model (cross-checked with ICU4X by stage 1).

use std::fmt::Write as _;
use std::path::Path;

use serde_json::json;
use vcommon::ctx::{hash_str, CaseInfo, Ctx, Failure, Tier};
use vcommon::model::*;
use vcommon::sem::{plural_category_f64, plural_category_int};
use vcommon::ser::{Format, Style};
use vcommon::tape::Tape;

use crate::emit;
use crate::emit_c02;
use crate::plan::{PLURAL_DECIMALS, PLURAL_INTS};
use crate::props::PLURAL_LOCALES;
use crate::run;

const FORMS: [(Form, &str); 6] = [(Form::Zero, "zero"), (Form::One, "one"), (Form::Two, "two"), (Form::Few, "few"), (Form::Many, "many"), (Form::Other, "other")];

#[derive(Clone, Debug)]
enum Count {
    U(u64),
    I(i64),
    Dec(f64),
}

#[derive(Clone, Debug)]
struct Site {
    /// 0 = t_plural (closure kept across locale switches), 1 = tu_plural, 2 = td_plural
    variant: u8,
    ordinal: bool,
    /// arms in written order
    arms: Vec<Form>,
    fallback: bool,
    /// 0 = u64, 1 = i64 (some negative), 2 = FixedDecimal
    count_kind: u8,
    counts: Vec<Count>,
}

struct Pkg {
    name: String,
    tape: Vec<u32>,
    locales: Vec<String>,
    sites: Vec<Site>,
}

fn gen_pkg(tape: &[u32], name: String) -> Pkg {
    let mut t = Tape::new(tape.to_vec());
    let n = t.range(3, 5);
    let perm = t.permutation(PLURAL_LOCALES.len());
    let locales: Vec<String> = perm.into_iter().take(n).map(|i| PLURAL_LOCALES[i].to_string()).collect();
    let nsites = t.range(10, 18);
    let mut sites = vec![];
    for s in 0..nsites {
        let variant = (s % 3) as u8;
        let ordinal = t.chance(1, 3);
        // arm subset: each form with probability 1/2, in a generated order
        let mut arms: Vec<Form> = FORMS.iter().filter(|_| t.coin()).map(|(f, _)| *f).collect();
        let order = t.permutation(arms.len());
        arms = order.into_iter().map(|i| arms[i]).collect();
        let fallback = arms.len() < 6 || t.coin();
        let count_kind = t.weighted(&[3, 2, 2]) as u8;
        let mut counts = vec![];
        let k = 10;
        match count_kind {
            0 => {
                let p = t.permutation(PLURAL_INTS.len());
                for i in p.into_iter().take(k) {
                    counts.push(Count::U(PLURAL_INTS[i] as u64));
                }
                counts.push(Count::U(9007199254741001));
            }
            1 => {
                let p = t.permutation(PLURAL_INTS.len());
                for (j, i) in p.into_iter().take(k).enumerate() {
                    let v = PLURAL_INTS[i] as i64;
                    counts.push(Count::I(if j % 2 == 1 { -v } else { v }));
                }
            }
            _ => {
                for f in PLURAL_DECIMALS {
                    counts.push(Count::Dec(*f));
                }
            }
        }
        sites.push(Site { variant, ordinal, arms, fallback, count_kind, counts });
    }
    Pkg { name, tape: tape.to_vec(), locales, sites }
}

fn form_name(f: Form) -> &'static str {
    FORMS.iter().find(|(g, _)| *g == f).map(|(_, n)| *n).unwrap_or("?")
}

fn macro_name(s: &Site) -> String {
    format!("{}_plural{}", ["t", "tu", "td"][s.variant as usize], if s.ordinal { "_ordinal" } else { "" })
}

fn arms_text(s: &Site) -> String {
    let mut v: Vec<String> = s.arms.iter().map(|f| format!("{} => {:?}", form_name(*f), form_name(*f))).collect();
    if s.fallback {
        v.push("_ => \"_\"".to_string());
    }
    v.join(", ")
}

fn main_rs(p: &Pkg) -> String {
    let mut s = String::from(emit::PRELUDE);
    s.push_str(emit_c02::PRELUDE_CTX);
    s.push_str("fn fd(s: &str) -> &'static leptos_i18n::reexports::fixed_decimal::FixedDecimal {\n    Box::leak(Box::new(s.parse().unwrap()))\n}\n");
    s.push_str("fn emitp(site: usize, li: usize, ci: usize, s: &str) {\n    println!(\"P|{}|{}|{}\\t{}\", site, li, ci, s);\n}\n\n");
    let n = p.locales.len();
    for (i, site) in p.sites.iter().enumerate() {
        let (ty, lits): (&str, Vec<String>) = match site.count_kind {
            0 => ("u64", site.counts.iter().map(|c| if let Count::U(v) = c { format!("{v}u64") } else { String::new() }).collect()),
            1 => ("i64", site.counts.iter().map(|c| if let Count::I(v) = c { format!("{v}i64") } else { String::new() }).collect()),
            _ => (
                "&'static leptos_i18n::reexports::fixed_decimal::FixedDecimal",
                site.counts.iter().map(|c| if let Count::Dec(v) = c { format!("fd({:?})", format!("{}", v)) } else { String::new() }).collect(),
            ),
        };
        let mac = macro_name(site);
        let arms = arms_text(site);
        let _ = writeln!(s, "fn site_{i}(i18n: I18nContext<Locale>) {{");
        let _ = writeln!(s, "    let counts: Vec<{ty}> = vec![{}];", lits.join(", "));
        match site.variant {
            0 => {
                // closures are made under whatever locale the previous site left, then called after every switch
                let _ = writeln!(s, "    let fs: Vec<_> = counts.iter().map(|&c| leptos_i18n::{mac}!{{ i18n, count = move || c, {arms} }}).collect();");
                let _ = writeln!(s, "    for li in 0..{n} {{ i18n.set_locale(loc(li)); for (ci, f) in fs.iter().enumerate() {{ emitp({i}, li, ci, f()); }} }}");
            }
            1 => {
                let _ = writeln!(s, "    for li in 0..{n} {{ i18n.set_locale(loc(li)); for (ci, c) in counts.iter().copied().enumerate() {{ emitp({i}, li, ci, leptos_i18n::{mac}!{{ i18n, count = move || c, {arms} }}); }} }}");
            }
            _ => {
                let _ = writeln!(s, "    for li in 0..{n} {{ let l = loc(li); for (ci, c) in counts.iter().copied().enumerate() {{ emitp({i}, li, ci, leptos_i18n::{mac}!{{ l, count = move || c, {arms} }}); }} }}");
            }
        }
        let _ = writeln!(s, "}}\n");
    }
    s.push_str("fn main() {\n    let _ = any_spawner::Executor::init_custom_executor(NoopExecutor);\n    let owner = Owner::new();\n    owner.with(|| {\n        let i18n = make_ctx();\n");
    for i in 0..p.sites.len() {
        let _ = writeln!(s, "        site_{i}(i18n);");
    }
    s.push_str("    });\n    println!(\"DONE\");\n    use std::io::Write;\n    let _ = std::io::stdout().flush();\n    QUEUE.with(|q| q.borrow_mut().clear());\n    std::process::exit(0);\n}\n");
    s
}

fn project(p: &Pkg) -> Project {
    let mut files = std::collections::BTreeMap::new();
    for l in &p.locales {
        files.insert((None, l.clone()), vec![("k".to_string(), Value::Str(vec![Piece::Text(format!("v@{l}"))]))]);
    }
    Project {
        locales: p.locales.clone(),
        inherits: Default::default(),
        namespaces: None,
        locales_dir: "locales".into(),
        files,
    }
}

fn expected(site: &Site, locale: &str, c: &Count) -> Option<&'static str> {
    let cat = match c {
        Count::U(v) => plural_category_int(locale, site.ordinal, *v as i128),
        Count::I(v) => plural_category_int(locale, site.ordinal, *v as i128),
        Count::Dec(f) => plural_category_f64(locale, site.ordinal, *f),
    }?;
    Some(if site.arms.contains(&cat) { form_name(cat) } else { "_" })
}

fn fail(sig: String, detail: serde_json::Value) -> Failure {
    Failure { signature: sig, detail }
}

pub fn run(mut ctx: Ctx) -> ! {
    let n = match ctx.tier {
        Tier::Quick => 6,
        Tier::Thorough => 64,
    };
    let replay_tape: Option<Vec<u32>> = ctx.replay.clone().and_then(|p| {
        let v: serde_json::Value = serde_json::from_str(&std::fs::read_to_string(p).ok()?).ok()?;
        Some(v["tape"].as_array()?.iter().map(|x| x.as_u64().unwrap_or(0) as u32).collect())
    });
    let tapes = match replay_tape {
        Some(t) => vec![t],
        None => ctx.draw_tapes("l2-tplural", n, 400),
    };
    let pkgs: Vec<Pkg> = tapes.iter().enumerate().map(|(i, t)| gen_pkg(t, format!("c05_tp{i}"))).collect();
    ctx.set_extra("t_plural_packages", json!(pkgs.len()));
    let ws = Path::new(run::WORK_ROOT).join("C05").join("tplural-ws");
    'outer: for chunk in pkgs.chunks(16) {
        let members: Vec<String> = chunk.iter().map(|p| p.name.clone()).collect();
        if let Err(e) = run::prepare_workspace(&ws, &members) {
            ctx.harness_error(format!("prepare workspace: {e}"));
            break;
        }
        for p in chunk {
            let style = Style { format: Format::Json, seed: 0, escapes: 1 };
            if let Err(e) = emit::write_package(&ws.join(&p.name), &p.name, &project(p), &main_rs(p), &style, emit::FEATURES_STD, emit_c02::EXTRA_DEPS) {
                ctx.harness_error(format!("write package: {e}"));
                break 'outer;
            }
        }
        let br = run::build_workspace(&ws, &members, false);
        ctx.add_extra_count("cargo_builds", 1);
        for p in chunk {
            if !run::binary_path(&p.name).exists() {
                let err = br.errors.get(&p.name).cloned().or_else(|| br.errors.get("<cargo>").cloned()).unwrap_or_default();
                let f = fail("t-plural-package-does-not-compile".into(), json!({"package": p.name, "rustc_errors": err, "sites": p.sites.iter().map(|s| format!("{}!{{ .., {} }}", macro_name(s), arms_text(s))).collect::<Vec<_>>()}));
                if ctx.fail("l2-tplural", Some(&p.tape), &f) {
                    break 'outer;
                }
                continue;
            }
            let out = run::run_binary(&p.name, &[]);
            if !out.done {
                let f = fail("generated-binary-crashed".into(), json!({"package": p.name, "status": out.status, "stderr": out.stderr_tail}));
                if ctx.fail("l2-tplural", Some(&p.tape), &f) {
                    break 'outer;
                }
                continue;
            }
            'sites: for (si, site) in p.sites.iter().enumerate() {
                let mut obs = 0u64;
                let mut cats = std::collections::BTreeSet::new();
                for (li, l) in p.locales.iter().enumerate() {
                    for (ci, c) in site.counts.iter().enumerate() {
                        let Some(exp) = expected(site, l, c) else {
                            ctx.harness_error(format!("no plural rules for {l}"));
                            break 'outer;
                        };
                        cats.insert(exp);
                        let got = out.obs.get(&format!("P|{si}|{li}|{ci}"));
                        obs += 1;
                        if got.map(|s| s.as_str()) != Some(exp) {
                            let f = fail(
                                format!("t-plural-macro:{}:{}", ["t_plural-kept-closure", "tu_plural", "td_plural"][site.variant as usize], if site.ordinal { "ordinal" } else { "cardinal" }),
                                json!({"package": p.name, "locales": p.locales, "call": format!("{}!{{ <ctx or locale>, count = move || {:?}, {} }}", macro_name(site), c, arms_text(site)),
                                       "locale": l, "count": format!("{c:?}"), "expected_arm": exp, "actual": got,
                                       "note": if site.variant == 0 { "the closure was created before the context was switched to this locale" } else { "" }}),
                            );
                            if ctx.fail("l2-tplural", Some(&p.tape), &f) {
                                break 'outer;
                            }
                            continue 'sites;
                        }
                    }
                }
                ctx.record(CaseInfo {
                    hash: hash_str(&format!("{:?}{:?}", p.locales, site)),
                    nontrivial: cats.len() >= 2,
                    classes: vec![
                        format!("t-plural-macro:{}", macro_name(site)),
                        format!("t-plural-arms:{}", site.arms.len()),
                        format!("t-plural-count-type:{}", ["u64", "i64", "FixedDecimal"][site.count_kind as usize]),
                    ],
                    sample: if cats.len() >= 3 { Some(json!({"call": format!("{}!{{ .., {} }}", macro_name(site), arms_text(site)), "locales": p.locales, "counts": site.counts.len()})) } else { None },
                    observations: obs,
                });
            }
        }
    }
    run::cleanup_members(&pkgs.iter().map(|p| p.name.clone()).collect::<Vec<_>>());
    let min = if ctx.replay.is_some() { 0 } else { 5 };
    ctx.finish(
        "stage 3 (generated crates, the t_plural! family): packages of 3-5 locales out of the 16 with hand-transcribed rules and a natively created \
         context; 10-18 generated call sites each: t_plural! / tu_plural! / td_plural! (cardinal, one third ordinal), every subset of the six forms in \
         generated order with the `_` fallback, counts u64 / i64 (half negative) / FixedDecimal; the closures returned by t_plural! are created once and \
         called again after every set_locale. Every (site, locale, count) must return the arm of the CLDR category, or `_`. one case = one call site; \
         non-trivial = site whose observations fall into >=2 arms; distinct = hash of (locales, site)",
        &[],
        min,
    )
}
