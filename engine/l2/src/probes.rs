//! Negative compile probes (C07, C08 second stage): one macro call per line that must NOT compile,
//! next to positive calls that must. One `cargo check --message-format=json` per batch of packages;
//! every negative line must own at least one error and no positive line may own one.

use std::collections::{BTreeMap, BTreeSet};
use std::fmt::Write as _;
use std::path::Path;

use serde_json::json;
use vcommon::ctx::{CaseInfo, Ctx, Failure, Tier};
use vcommon::gen::{leaf_paths, GenCfg};
use vcommon::model::*;
use vcommon::sem::CountKind;
use vcommon::ser::{self, Format, Style};

use crate::emit::{self, num_literal, rust_str};
use crate::plan::{KeyPlan, PlanOpts};
use crate::props::{project_for, RenderProp};
use crate::run;

#[derive(Clone, Debug)]
struct Probe {
    line: usize,
    key_idx: usize,
    /// "positive" or the kind of negative probe
    kind: String,
    code: String,
}

fn fail(sig: &str, detail: serde_json::Value) -> Failure {
    Failure {
        signature: sig.into(),
        detail,
    }
}

/// argument list fragments of the first assignment: (name, string-backend text, view-backend text)
fn members(k: &KeyPlan) -> Vec<(String, String, String)> {
    let a = &k.assigns[0];
    let mut v = vec![];
    for (name, val) in &a.vars {
        v.push((name.clone(), format!("{} = {}", name, rust_str(val)), format!("{} = {}", name, rust_str(val))));
    }
    for (name, val) in &a.fvars {
        v.push((name.clone(), format!("{} = {}", name, val.rust()), format!("{} = move || {}", name, val.rust())));
    }
    if let Some((name, kind, probes)) = &a.loop_var {
        let n = probes.iter().find(|n| !matches!(n, Num::Float(_)) || !matches!(kind, CountKind::Plural)).copied().unwrap_or(probes[0]);
        let lit = num_literal(n, kind);
        v.push((name.clone(), format!("{} = {}", name, lit), format!("{} = move || {}", name, lit)));
    }
    for (name, (kind, n)) in &a.fixed {
        let lit = num_literal(*n, kind);
        v.push((name.clone(), format!("{} = {}", name, lit), format!("{} = move || {}", name, lit)));
    }
    for c in &k.sig.comps {
        v.push((format!("<{c}>"), format!("<{}> = sc({})", c, rust_str(c)), format!("<{}> = vc({})", c, rust_str(c))));
    }
    v
}

fn call(mac: &str, path: &str, args: &[String]) -> String {
    let mut s = format!("{mac}!(l, {path}");
    for a in args {
        s.push_str(", ");
        s.push_str(a);
    }
    s.push(')');
    s
}

/// probes of C08 for one key
fn c08_probes(k: &KeyPlan) -> Vec<(String, String)> {
    let path = emit::key_tokens(k);
    let ms = members(k);
    let sargs: Vec<String> = ms.iter().map(|m| m.1.clone()).collect();
    let vargs: Vec<String> = ms.iter().map(|m| m.2.clone()).collect();
    let mut out = vec![];
    out.push(("positive".to_string(), format!("let _ = {}.to_string();", call("td_string", &path, &sargs))));
    out.push(("positive".to_string(), format!("let _ = html({});", call("td", &path, &vargs))));
    for i in 0..ms.len() {
        let mut a = sargs.clone();
        a.remove(i);
        out.push((format!("omit:{}", if ms[i].0.starts_with('<') { "component" } else if k.sig.counts.contains_key(&ms[i].0) { "count" } else { "variable" }), format!("let _ = {}.to_string();", call("td_string", &path, &a))));
        let mut a = vargs.clone();
        a.remove(i);
        out.push((format!("omit-view:{}", if ms[i].0.starts_with('<') { "component" } else if k.sig.counts.contains_key(&ms[i].0) { "count" } else { "variable" }), format!("let _ = html({});", call("td", &path, &a))));
    }
    let mut a = sargs.clone();
    a.push("zz_unknown = 1".to_string());
    out.push(("unknown-variable".to_string(), format!("let _ = {}.to_string();", call("td_string", &path, &a))));
    let mut a = vargs.clone();
    a.push("<zz_unknown> = vc(\"z\")".to_string());
    out.push(("unknown-component".to_string(), format!("let _ = html({});", call("td", &path, &a))));
    // unknown key next to this one
    let mut segs: Vec<&str> = path.split('.').collect();
    segs.pop();
    segs.push("zz_no_such_key");
    out.push(("unknown-key".to_string(), format!("let _ = {}.to_string();", call("td_string", &segs.join("."), &[]))));
    // wrongly typed count
    if let Some((name, kind, _)) = &k.assigns[0].loop_var {
        let i = ms.iter().position(|m| &m.0 == name);
        if let Some(i) = i {
            let mut a = sargs.clone();
            a[i] = format!("{} = \"not a number\"", name);
            out.push((format!("count-wrong-type:{}", if matches!(kind, CountKind::Plural) { "plural" } else { "range" }), format!("let _ = {}.to_string();", call("td_string", &path, &a))));
        }
    }
    out
}

/// probes of C07 for a package: paths that must not be accessible
fn c07_probes(p: &Project, keys: &[KeyPlan]) -> Vec<(usize, String, String)> {
    let mut out = vec![];
    // positive: every default key for every locale is rendered by stage C01/C03; here one call each
    for k in keys {
        let ms = members(k);
        let sargs: Vec<String> = ms.iter().map(|m| m.1.clone()).collect();
        out.push((k.idx, "positive".to_string(), format!("let _ = {}.to_string();", call("td_string", &emit::key_tokens(k), &sargs))));
    }
    for ns in p.ns_list() {
        let nsr = ns.as_deref();
        let Some(def) = p.file(nsr, p.default_locale()) else { continue };
        let mut def_paths = vec![];
        leaf_paths(def, &mut vec![], &mut def_paths);
        let def_set: BTreeSet<Vec<String>> = def_paths.iter().cloned().collect();
        // groups of the default locale (a group path is not a key)
        fn groups(o: &Obj, prefix: &mut Vec<String>, out: &mut Vec<Vec<String>>) {
            for (k, v) in o {
                if let Value::Sub(inner) = v {
                    prefix.push(k.clone());
                    out.push(prefix.clone());
                    groups(inner, prefix, out);
                    prefix.pop();
                }
            }
        }
        let mut def_groups = vec![];
        groups(def, &mut vec![], &mut def_groups);
        let def_group_set: BTreeSet<Vec<String>> = def_groups.iter().cloned().collect();
        let with_ns = |path: &[String]| -> String {
            let mut v: Vec<String> = vec![];
            if let Some(n) = &ns {
                v.push(n.clone());
            }
            v.extend(path.iter().cloned());
            v.join(".")
        };
        // surplus keys: present in another locale only
        for loc in p.locales.iter().skip(1) {
            let Some(o) = p.file(nsr, loc) else { continue };
            let mut paths = vec![];
            leaf_paths(o, &mut vec![], &mut paths);
            for path in paths {
                // a leaf of another locale that is neither a key nor inside/equal to a group of the default
                let is_key = def_set.contains(&path);
                let prefix_is_key = (1..path.len()).any(|i| def_set.contains(&path[..i].to_vec()));
                let is_group = def_group_set.contains(&path);
                if !is_key && !prefix_is_key && !is_group {
                    out.push((usize::MAX, "surplus-key".into(), format!("let _ = {}.to_string();", call("td_string", &with_ns(&path), &[]))));
                }
            }
        }
        // a key of a sibling group: move the last segment under another group
        for g in &def_groups {
            for path in &def_paths {
                if path.len() >= 2 && path[..path.len() - 1] != g[..] {
                    let mut np = g.clone();
                    np.push(path.last().unwrap().clone());
                    if !def_set.contains(&np) && !def_group_set.contains(&np) {
                        out.push((usize::MAX, "key-of-sibling-group".into(), format!("let _ = {}.to_string();", call("td_string", &with_ns(&np), &[]))));
                        break;
                    }
                }
            }
        }
        // a group path used as a key
        for g in def_groups.iter().take(2) {
            out.push((usize::MAX, "group-used-as-key".into(), format!("let _ = {}.to_string();", call("td_string", &with_ns(g), &[]))));
        }
        // namespace-less path / wrong namespace
        if ns.is_some() {
            if let Some(path) = def_paths.first() {
                let other_top: BTreeSet<String> = p.ns_list().into_iter().flatten().collect();
                if !other_top.contains(&path[0]) {
                    out.push((usize::MAX, "namespace-omitted".into(), format!("let _ = {}.to_string();", call("td_string", &path.join("."), &[]))));
                }
                for other in p.ns_list().into_iter().flatten() {
                    if Some(&other) != ns.as_ref() {
                        let exists = p.file(Some(&other), p.default_locale()).map(|o| matches!(vcommon::sem::lookup(o, path), vcommon::sem::Lookup::Val(_))).unwrap_or(false);
                        if !exists {
                            out.push((usize::MAX, "key-of-other-namespace".into(), format!("let _ = td_string!(l, {}.{}).to_string();", other, path.join("."))));
                            break;
                        }
                    }
                }
            }
        }
    }
    out
}

struct Pkg {
    name: String,
    tape: Vec<u32>,
    project: Project,
    keys: Vec<KeyPlan>,
    probes: Vec<Probe>,
    main: String,
    style_seed: u64,
}

fn build_main(probes_src: Vec<(usize, String, String)>) -> (String, Vec<Probe>) {
    let mut s = String::from(emit::PRELUDE);
    s.push_str("fn fd(s: &str) -> &'static leptos_i18n::reexports::fixed_decimal::FixedDecimal {\n    Box::leak(Box::new(s.parse().unwrap()))\n}\n");
    s.push_str(emit::FMT_HELPERS);
    let mut probes = vec![];
    for (i, (key_idx, kind, code)) in probes_src.into_iter().enumerate() {
        let line = s.lines().count() + 1;
        let _ = writeln!(s, "fn probe_{i}(l: Locale) {{ {code} }}");
        probes.push(Probe { line, key_idx, kind, code });
    }
    s.push_str("fn main() {}\n");
    (s, probes)
}

pub fn run(mut ctx: Ctx, which: &str) -> ! {
    let rp: RenderProp = if which == "C08" { cfg_c08() } else { cfg_c07() };
    let n = match ctx.tier {
        Tier::Quick => 40,
        Tier::Thorough => 320,
    };
    let replay_tape: Option<Vec<u32>> = ctx.replay.clone().and_then(|p| {
        let v: serde_json::Value = serde_json::from_str(&std::fs::read_to_string(p).ok()?).ok()?;
        Some(v["tape"].as_array()?.iter().map(|x| x.as_u64().unwrap_or(0) as u32).collect())
    });
    let tapes = match replay_tape {
        Some(t) => vec![t],
        None => ctx.draw_tapes("l2-probes", n * 3, rp.tape_len),
    };
    let mut pkgs: Vec<Pkg> = vec![];
    for tape in tapes {
        if pkgs.len() >= n {
            break;
        }
        let Some((project, plan, style_seed)) = project_for(&tape, &rp) else { continue };
        let keys: Vec<KeyPlan> = plan.keys.into_iter().filter(|k| !k.has_formatter || rp.opts.formatters).collect();
        let src: Vec<(usize, String, String)> = if which == "C08" {
            keys.iter().flat_map(|k| c08_probes(k).into_iter().map(move |(kind, code)| (k.idx, kind, code))).collect()
        } else {
            c07_probes(&project, &keys)
        };
        if !src.iter().any(|(_, k, _)| k != "positive") {
            continue;
        }
        let (main, probes) = build_main(src);
        pkgs.push(Pkg {
            name: format!("{}_n{}", which.to_lowercase(), pkgs.len()),
            tape,
            project,
            keys,
            probes,
            main,
            style_seed,
        });
    }
    if std::env::var("VERIF_GEN_ONLY").is_ok() {
        // generator statistics only (no compilation): class counts of what would be compiled
        let mut tally: BTreeMap<String, u64> = BTreeMap::new();
        for pkg in &pkgs {
            for k in &pkg.keys {
                for c in crate::plan::count_reuse_classes(k) {
                    *tally.entry(c).or_default() += 1;
                }
                *tally.entry("keys".into()).or_default() += 1;
            }
        }
        println!("{}", serde_json::to_string_pretty(&tally).unwrap());
        std::process::exit(0);
    }
    ctx.set_extra("packages", json!(pkgs.len()));
    let ws = Path::new(run::WORK_ROOT).join(which).join("probes-ws");
    'outer: for chunk in pkgs.chunks(16) {
        let members: Vec<String> = chunk.iter().map(|p| p.name.clone()).collect();
        if let Err(e) = run::prepare_workspace(&ws, &members) {
            ctx.harness_error(format!("prepare workspace: {e}"));
            break;
        }
        for pkg in chunk {
            let style = Style {
                format: Format::Json,
                seed: pkg.style_seed,
                escapes: 1,
            };
            if let Err(e) = emit::write_package(&ws.join(&pkg.name), &pkg.name, &pkg.project, &pkg.main, &style, emit::FEATURES_STD, "") {
                ctx.harness_error(format!("write package: {e}"));
                break 'outer;
            }
        }
        // pass 1: the valid calls alone. Type errors of the negative probes would stop rustc before borrow
        // checking, so the generated module and the valid calls are first compiled without them: no error at all.
        let mut broken: BTreeSet<String> = BTreeSet::new();
        {
            for pkg in chunk {
                let positives: Vec<(usize, String, String)> = pkg.probes.iter().filter(|p| p.kind == "positive").map(|p| (p.key_idx, p.kind.clone(), p.code.clone())).collect();
                let (main, _) = build_main(positives);
                if let Err(e) = std::fs::write(ws.join(&pkg.name).join("src/main.rs"), main) {
                    ctx.harness_error(format!("write positive main: {e}"));
                    break 'outer;
                }
            }
            let (_ok, diags, stderr) = run::check_workspace_diags(&ws);
            ctx.add_extra_count("cargo_checks", 1);
            for pkg in chunk {
                let errs: Vec<String> = diags.iter().filter(|d| d.pkg == pkg.name).map(|d| d.message.clone()).collect();
                if !errs.is_empty() {
                    broken.insert(pkg.name.clone());
                    let f = fail("valid-calls-do-not-compile", json!({"package": pkg.name, "errors": errs, "stderr": stderr, "project": ser::project_to_json(&pkg.project)}));
                    if ctx.fail("l2-probes", Some(&pkg.tape), &f) {
                        break 'outer;
                    }
                }
            }
            for pkg in chunk {
                if let Err(e) = std::fs::write(ws.join(&pkg.name).join("src/main.rs"), &pkg.main) {
                    ctx.harness_error(format!("write main: {e}"));
                    break 'outer;
                }
            }
        }
        let (_ok, diags, stderr) = run::check_workspace_diags(&ws);
        ctx.add_extra_count("cargo_checks", 1);
        let mut by_pkg: BTreeMap<String, Vec<&run::CheckDiag>> = BTreeMap::new();
        for d in &diags {
            by_pkg.entry(d.pkg.clone()).or_default().push(d);
        }
        for pkg in chunk {
            if broken.contains(&pkg.name) {
                continue;
            }
            let ds = by_pkg.get(&pkg.name).cloned().unwrap_or_default();
            let mut error_lines: BTreeMap<usize, Vec<String>> = BTreeMap::new();
            let mut unattributed = vec![];
            for d in &ds {
                if d.lines.is_empty() {
                    unattributed.push(d.message.clone());
                }
                for l in &d.lines {
                    error_lines.entry(*l as usize).or_default().push(d.message.clone());
                }
            }
            let pj = || ser::project_to_json(&pkg.project);
            if !unattributed.is_empty() && ds.iter().all(|d| d.lines.is_empty()) {
                // e.g. the macro itself failed: nothing was type-checked
                let f = fail("probe-package-did-not-type-check", json!({"package": pkg.name, "errors": unattributed, "stderr": stderr, "project": pj()}));
                if ctx.fail("l2-probes", Some(&pkg.tape), &f) {
                    break 'outer;
                }
                continue;
            }
            // an error whose primary span expands from a line that is no probe (the `load_locales!()` call): the
            // generated module itself does not compile
            let probe_lines: BTreeSet<usize> = pkg.probes.iter().map(|p| p.line).collect();
            let outside: Vec<String> = ds
                .iter()
                .filter(|d| !d.primary_lines.is_empty() && d.primary_lines.iter().all(|l| !probe_lines.contains(&(*l as usize))))
                .map(|d| d.message.clone())
                .collect();
            if !outside.is_empty() {
                let f = fail("generated-module-does-not-compile", json!({"package": pkg.name, "errors": outside, "project": pj()}));
                if ctx.fail("l2-probes", Some(&pkg.tape), &f) {
                    break 'outer;
                }
                continue;
            }
            let mut per_key: BTreeMap<usize, (u64, Vec<String>)> = BTreeMap::new();
            let mut failure = None;
            for pr in &pkg.probes {
                let errs = error_lines.get(&pr.line);
                let e = per_key.entry(pr.key_idx).or_default();
                e.0 += 1;
                e.1.push(pr.kind.clone());
                match (pr.kind.as_str(), errs) {
                    ("positive", Some(msgs)) => {
                        failure = Some(fail("valid-call-does-not-compile", json!({"package": pkg.name, "call": pr.code, "errors": msgs, "project": pj()})));
                        break;
                    }
                    ("positive", None) => {}
                    (kind, None) => {
                        failure = Some(fail(&format!("invalid-call-compiles:{kind}"), json!({"package": pkg.name, "probe": kind, "call": pr.code, "project": pj()})));
                        break;
                    }
                    (_, Some(_)) => {}
                }
            }
            if let Some(f) = failure {
                if ctx.fail("l2-probes", Some(&pkg.tape), &f) {
                    break 'outer;
                }
                continue;
            }
            for k in &pkg.keys {
                if let Some((n, kinds)) = per_key.get(&k.idx) {
                    let mut classes: Vec<String> = kinds.iter().filter(|k| *k != "positive").map(|k| format!("probe:{k}")).collect();
                    classes.extend(crate::plan::count_reuse_classes(k));
                    if k.has_formatter {
                        classes.push("key-with-formatted-variable".to_string());
                    }
                    classes.sort();
                    classes.dedup();
                    ctx.record(CaseInfo {
                        hash: k.hash,
                        nontrivial: (rp.nontrivial)(k),
                        classes,
                        sample: if (rp.nontrivial)(k) { Some(json!({"key": emit::key_tokens(k), "probes": pkg.probes.iter().filter(|p| p.key_idx == k.idx).map(|p| json!({"kind": p.kind, "call": p.code})).collect::<Vec<_>>()})) } else { None },
                        observations: *n,
                    });
                }
            }
            if let Some((n, kinds)) = per_key.get(&usize::MAX) {
                let mut classes: Vec<String> = kinds.iter().map(|k| format!("probe:{k}")).collect();
                classes.sort();
                classes.dedup();
                ctx.record(CaseInfo {
                    hash: vcommon::ctx::hash_str(&pkg.main),
                    nontrivial: true,
                    classes,
                    sample: Some(json!({"package_level_probes": pkg.probes.iter().filter(|p| p.key_idx == usize::MAX).map(|p| json!({"kind": p.kind, "call": p.code})).collect::<Vec<_>>()})),
                    observations: *n,
                });
            }
        }
    }
    run::cleanup_members(&pkgs.iter().map(|p| p.name.clone()).collect::<Vec<_>>());
    let min = if ctx.replay.is_some() { 0 } else { 5 };
    ctx.finish(rp.rule, rp.assumptions, min)
}

fn cfg_c08() -> RenderProp {
    RenderProp {
        id: "C08",
        cfg: |_| GenCfg {
            locales: (2, 4),
            p_namespaces: 20,
            keys: (4, 7),
            sub_depth: 2,
            w_kinds: [2, 6, 2, 3, 3, 2, 6],
            p_fk_counted: 70,
            p_count_reuse: 80,
            p_hide_count: 60,
            p_null: 6,
            p_absent: 6,
            p_kind_varies: 45,
            p_inherits: 25,
            max_pieces: 4,
            max_comp_depth: 2,
            fk_to_null: true,
            formatters: true,
            p_formatter: 25,
            fmt_no_zoned_time: true,
            ..GenCfg::default()
        },
        opts: PlanOpts {
            assignments: 1,
            max_counts: 4,
            formatters: true,
            ..PlanOpts::default()
        },
        packages: (40, 320),
        tape_len: 2000,
        nontrivial: |k| k.multi_locale_sig,
        classes: |_| vec![],
        rule: "generated packages whose keys differ per locale in kind and member sets (a quarter of the variables carry a formatter and \
               are supplied as typed values); per key one positive call of td_string! and td! \
               with exactly the union set (must type-check for every locale: the locale is a run-time value) and negative probes: each \
               member omitted in turn (both back-ends), an unknown variable, an unknown component, an unknown sibling key, a wrongly \
               typed count; per 16 packages `cargo check --message-format=json` runs twice: first on the valid calls alone (no \
               error of any kind allowed: type errors would hide borrow-check errors of the generated code), then with the \
               negative probes, where every error is attributed to the probe line it expands from; every negative probe must own >=1 error and no positive call may own one. one case = one key; \
               non-trivial = key to which >=2 locales contribute different member sets; distinct = hash of the resolved values",
        assumptions: &["rustc reports all type errors of a crate in one pass (holds when macro expansion itself succeeds, which the positive calls witness)"],
        min_nontrivial: 5,
        shape: None,
        flavours: false,
        dynamic_load: false,
        fixed_projects: None,
    }
}

fn cfg_c07() -> RenderProp {
    RenderProp {
        id: "C07",
        cfg: |_| GenCfg {
            locales: (2, 4),
            p_namespaces: 40,
            keys: (3, 6),
            sub_depth: 3,
            w_kinds: [4, 3, 1, 1, 1, 6, 1],
            p_null: 10,
            p_absent: 15,
            p_kind_varies: 8,
            p_inherits: 30,
            max_pieces: 3,
            max_comp_depth: 2,
            p_surplus: 60,
            ..GenCfg::default()
        },
        opts: PlanOpts {
            assignments: 1,
            max_counts: 2,
            ..PlanOpts::default()
        },
        packages: (40, 320),
        tape_len: 2000,
        nontrivial: |k| k.defaulted_any || k.path.len() >= 2,
        classes: |_| vec![],
        rule: "generated packages with surplus keys / groups, absent and null keys, nested groups and namespaces; positive probes: every \
               default-locale key is callable (td_string! with its members); negative probes that must not compile: a surplus key of \
               another locale, a key moved under a sibling group, a group path used as a key, a namespaced key without its namespace or \
               under another namespace. one case = one key (positive) or one package (its negative probes); non-trivial = key defaulted \
               somewhere or nested, and every package-level probe set; distinct = hash",
        assumptions: &["rustc reports all type errors of a crate in one pass"],
        min_nontrivial: 5,
        shape: None,
        flavours: false,
        dynamic_load: false,
        fixed_projects: None,
    }
}
