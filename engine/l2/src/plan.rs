//! What a generated package observes and what the model expects for each observation.

use std::collections::BTreeMap;

use vcommon::gen::leaf_paths;
use vcommon::model::*;
use vcommon::sem::*;
use vcommon::tape::{fnv1a, Tape};

#[derive(Clone, Debug)]
pub struct PlanOpts {
    pub string_backend: bool,
    pub display_backend: bool,
    pub view_backend: bool,
    /// argument assignments per key
    pub assignments: usize,
    /// cap on the number of probe counts per key (i8 / u8 ranges are exhaustive when `exhaustive_small`)
    pub max_counts: usize,
    pub exhaustive_small: bool,
    /// decimal operands for plural counts (FixedDecimal), string/display back-ends only
    pub plural_decimals: bool,
    /// `dynamic_load` builds: the string / display accessors return futures
    pub async_strings: bool,
    /// keys with formatters are observed too (typed values, reference strings computed by `vref`)
    pub formatters: bool,
}

impl Default for PlanOpts {
    fn default() -> Self {
        PlanOpts {
            string_backend: true,
            display_backend: true,
            view_backend: true,
            assignments: 2,
            max_counts: 24,
            exhaustive_small: false,
            plural_decimals: false,
            async_strings: false,
            formatters: false,
        }
    }
}

#[derive(Clone, Debug)]
pub struct Assign {
    /// plain variables -> text
    pub vars: BTreeMap<String, String>,
    /// the count variable that is looped over at run time
    pub loop_var: Option<(String, CountKind, Vec<Num>)>,
    /// other count variables, fixed
    pub fixed: BTreeMap<String, (CountKind, Num)>,
    /// variables that carry a formatter somewhere: typed value
    pub fvars: BTreeMap<String, FVal>,
}

/// typed value of a formatted variable (indices into the pools below)
#[derive(Clone, Debug, PartialEq)]
pub enum FVal {
    Num(usize),
    Date(usize),
    Time(usize),
    DateTime(usize, usize),
    List(usize),
}

/// (descriptor for the reference, Rust expression producing the value)
pub const F_NUMS: &[(&str, &str)] = &[
    ("i:0", "0i64"),
    ("i:7", "7u8"),
    ("i:1234", "1234i32"),
    ("i:-1234567", "-1234567i64"),
    ("i:18446744073709551615", "u64::MAX"),
    ("f64:2000.5", "2000.5f64"),
    ("f64:0.001", "0.001f64"),
    ("f32:-12.25", "-12.25f32"),
    ("d:2000.50", "fd(\"2000.50\").clone()"),
    ("i:1000000", "1000000usize"),
    ("i:-170141183460469231731687303715884105728", "i128::MIN"),
    ("i:999", "999u16"),
    ("f64:36028797018963968", "36028797018963968f64"),
    ("f64:9223372036854775808", "9223372036854775808f64"),
    ("f64:-72057594037927952", "-72057594037927952f64"),
];
pub const F_DATES: &[(i32, u8, u8)] = &[(2024, 2, 29), (1999, 12, 31), (1970, 1, 2), (1, 1, 1), (2023, 7, 4)];
pub const F_TIMES: &[(u8, u8, u8)] = &[(14, 34, 28), (0, 0, 0), (23, 59, 59), (9, 5, 0), (12, 0, 0)];
pub const F_LISTS: &[&[&str]] = &[&["A"], &["A", "B"], &["A", "B", "C"], &["x", "y & z", "w", "v"], &["один", "два", "три"]];

impl FVal {
    /// the value is chosen by the tape, the assignment round and a salt (the variable and the key), so that an
    /// exhausted tape still spreads the values over the pools
    pub fn draw(family: &str, round: usize, salt: u64, t: &mut Tape) -> FVal {
        let round = round * 5 + (salt % 9973) as usize;
        match family {
            "number" | "currency" => FVal::Num((round + t.pick(F_NUMS.len())) % F_NUMS.len()),
            "date" => FVal::Date((round + t.pick(F_DATES.len())) % F_DATES.len()),
            "time" => FVal::Time((round + t.pick(F_TIMES.len())) % F_TIMES.len()),
            "datetime" => FVal::DateTime((round + t.pick(F_DATES.len())) % F_DATES.len(), (round + t.pick(F_TIMES.len())) % F_TIMES.len()),
            _ => FVal::List((round + t.pick(F_LISTS.len())) % F_LISTS.len()),
        }
    }
    /// the value part of a reference descriptor
    pub fn desc(&self) -> String {
        match self {
            FVal::Num(i) => F_NUMS[*i].0.to_string(),
            FVal::Date(i) => format!("{}-{}-{}", F_DATES[*i].0, F_DATES[*i].1, F_DATES[*i].2),
            FVal::Time(i) => format!("{}:{}:{}", F_TIMES[*i].0, F_TIMES[*i].1, F_TIMES[*i].2),
            FVal::DateTime(d, t) => format!("{}-{}-{} {}:{}:{}", F_DATES[*d].0, F_DATES[*d].1, F_DATES[*d].2, F_TIMES[*t].0, F_TIMES[*t].1, F_TIMES[*t].2),
            FVal::List(i) => F_LISTS[*i].join("\u{1f}"),
        }
    }
    /// Rust expression of the value (helpers of the generated prelude)
    pub fn rust(&self) -> String {
        match self {
            FVal::Num(i) => F_NUMS[*i].1.to_string(),
            FVal::Date(i) => format!("mkdate({}, {}, {})", F_DATES[*i].0, F_DATES[*i].1, F_DATES[*i].2),
            FVal::Time(i) => format!("mktime({}, {}, {})", F_TIMES[*i].0, F_TIMES[*i].1, F_TIMES[*i].2),
            FVal::DateTime(d, t) => format!("mkdt({}, {}, {}, {}, {}, {})", F_DATES[*d].0, F_DATES[*d].1, F_DATES[*d].2, F_TIMES[*t].0, F_TIMES[*t].1, F_TIMES[*t].2),
            FVal::List(i) => format!("vec![{}]", F_LISTS[*i].iter().map(|x| format!("{:?}", x)).collect::<Vec<_>>().join(", ")),
        }
    }
    pub fn fits(&self, family: &str) -> bool {
        matches!(
            (self, family),
            (FVal::Num(_), "number" | "currency") | (FVal::Date(_), "date") | (FVal::Time(_), "time") | (FVal::DateTime(..), "datetime") | (FVal::List(_), "list")
        )
    }
}

pub const REF_OPEN: char = '\u{E010}';
pub const REF_CLOSE: char = '\u{E011}';

/// canonical options of a formatter as written (documented defaults for what is omitted)
pub fn canonical_options(f: &FmtSpec) -> Vec<String> {
    let get = |name: &str, default: &str| f.args.iter().find(|(k, _)| k == name).map(|(_, v)| v.clone()).unwrap_or_else(|| default.to_string());
    match f.name.as_str() {
        "number" => vec![get("grouping_strategy", "auto")],
        "currency" => vec![get("width", "short"), get("currency_code", "USD")],
        "date" => vec![get("date_length", "medium")],
        "time" => vec![get("time_length", "short")],
        "datetime" => vec![get("date_length", "medium"), get("time_length", "short")],
        "list" => vec![get("list_type", "unit"), get("list_style", "wide")],
        _ => vec![],
    }
}

fn num_desc(n: Num, kind: &CountKind) -> String {
    match (n, kind) {
        (Num::Int(i), _) => format!("i:{i}"),
        (Num::Float(f), CountKind::Range(RangeTy::F32)) => format!("f32:{:?}", f as f32),
        (Num::Float(f), CountKind::Range(_)) => format!("f64:{:?}", f),
        (Num::Float(f), CountKind::Plural) => format!("d:{}", f),
    }
}

/// replace every formatted variable by a reference placeholder naming (formatter, options, rendered locale, value)
pub fn fmt_placeholders(pieces: &[RPiece], a: &Assign, counts: &BTreeMap<String, (Num, CountKind)>, locale: &str) -> Vec<RPiece> {
    pieces
        .iter()
        .map(|x| match x {
            RPiece::Var { name, fmt: Some(f) } => {
                let value = match counts.get(name) {
                    Some((n, kind)) if f.name == "number" || f.name == "currency" => Some(num_desc(*n, kind)),
                    Some(_) => None,
                    None => a.fvars.get(name).filter(|v| v.fits(&f.name)).map(|v| v.desc()),
                };
                match value {
                    Some(v) => {
                        let mut d = vec![f.name.clone()];
                        d.extend(canonical_options(f));
                        d.push(locale.to_string());
                        d.push(v);
                        RPiece::Text(format!("{}{}{}", REF_OPEN, d.join("|"), REF_CLOSE))
                    }
                    None => x.clone(),
                }
            }
            RPiece::Comp { name, children } => RPiece::Comp { name: name.clone(), children: fmt_placeholders(children, a, counts, locale) },
            RPiece::Range(r) => RPiece::Range(RRange {
                count_var: r.count_var.clone(),
                ty: r.ty,
                branches: r.branches.iter().map(|(s, b)| (s.clone(), fmt_placeholders(b, a, counts, locale))).collect(),
            }),
            RPiece::Plural(pl) => RPiece::Plural(RPlural {
                count_var: pl.count_var.clone(),
                ordinal: pl.ordinal,
                forms: pl.forms.iter().map(|(f, b)| (*f, fmt_placeholders(b, a, counts, locale))).collect(),
            }),
            other => other.clone(),
        })
        .collect()
}

/// descriptors named by the placeholders of an expected string
pub fn placeholders_of(s: &str, out: &mut std::collections::BTreeSet<String>) {
    let mut rest = s;
    while let Some(i) = rest.find(REF_OPEN) {
        let after = &rest[i + REF_OPEN.len_utf8()..];
        match after.find(REF_CLOSE) {
            Some(j) => {
                out.insert(after[..j].to_string());
                rest = &after[j + REF_CLOSE.len_utf8()..];
            }
            None => break,
        }
    }
}

/// substitute reference strings for the placeholders
pub fn substitute_refs(s: &str, refs: &BTreeMap<String, String>) -> Result<String, String> {
    let mut out = String::with_capacity(s.len());
    let mut rest = s;
    while let Some(i) = rest.find(REF_OPEN) {
        out.push_str(&rest[..i]);
        let after = &rest[i + REF_OPEN.len_utf8()..];
        let j = after.find(REF_CLOSE).ok_or("unterminated placeholder")?;
        let d = &after[..j];
        match refs.get(d) {
            Some(r) => out.push_str(r),
            None => return Err(format!("no reference for {d:?}")),
        }
        rest = &after[j + REF_CLOSE.len_utf8()..];
    }
    out.push_str(rest);
    Ok(out)
}

/// formatter family of every variable that is formatted somewhere in the key
pub fn formatted_vars(k: &KeyPlan) -> BTreeMap<String, String> {
    fn walk(p: &[RPiece], out: &mut BTreeMap<String, String>) {
        for x in p {
            match x {
                RPiece::Var { name, fmt: Some(f) } => {
                    out.entry(name.clone()).or_insert_with(|| f.name.clone());
                }
                RPiece::Comp { children, .. } => walk(children, out),
                RPiece::Range(r) => r.branches.iter().for_each(|(_, b)| walk(b, out)),
                RPiece::Plural(pl) => pl.forms.values().for_each(|b| walk(b, out)),
                _ => {}
            }
        }
    }
    let mut out = BTreeMap::new();
    for (_, r) in &k.per_locale {
        walk(r, &mut out);
    }
    out
}


#[derive(Clone, Debug)]
pub struct KeyPlan {
    pub idx: usize,
    pub ns: Option<String>,
    pub path: Vec<String>,
    pub sig: Signature,
    /// per locale (project order): (effective locale, resolved value)
    pub per_locale: Vec<(String, Vec<RPiece>)>,
    pub has_formatter: bool,
    pub assigns: Vec<Assign>,
    pub hash: u64,
    pub pieces_max: usize,
    pub comp_depth: usize,
    pub defaulted_hops2: bool,
    pub defaulted_any: bool,
    pub fk_depth: usize,
    pub has_range: bool,
    pub has_plural: bool,
    pub multi_locale_sig: bool,
}

pub struct Plan {
    pub keys: Vec<KeyPlan>,
}

/// traversal-order uses of count variables: (name, is_count_use)
fn count_uses(p: &[RPiece], out: &mut Vec<(String, &'static str, bool)>) {
    for x in p {
        match x {
            RPiece::Var { name, .. } => out.push((name.clone(), "", false)),
            RPiece::Comp { name, children } => {
                out.push((format!("<{name}>"), "", false));
                count_uses(children, out)
            }
            RPiece::Range(r) => {
                // does an arm show the count / capture anything else
                let mut inner = vec![];
                for (_, b) in &r.branches {
                    count_uses(b, &mut inner);
                }
                let shows_count = inner.iter().any(|(n, _, _)| n == &r.count_var);
                out.push((r.count_var.clone(), if r.ty.is_float() { "float-range" } else { "integer-range" }, !shows_count && !inner.is_empty()));
            }
            RPiece::Plural(pl) => {
                let mut inner = vec![];
                for b in pl.forms.values() {
                    count_uses(b, &mut inner);
                }
                let shows_count = inner.iter().any(|(n, _, _)| n == &pl.count_var);
                out.push((pl.count_var.clone(), "plural", !shows_count && !inner.is_empty()));
            }
            _ => {}
        }
    }
}

/// classes shared by every generated-crate property: how count variables are reused inside one value
pub fn count_reuse_classes(k: &KeyPlan) -> Vec<String> {
    let mut c = vec![];
    for (_, r) in &k.per_locale {
        let mut uses = vec![];
        count_uses(r, &mut uses);
        for (i, (name, kind, hidden)) in uses.iter().enumerate() {
            if !kind.is_empty() && uses[i + 1..].iter().any(|(n, _, _)| n == name) {
                c.push(format!("count-variable-used-again-after-its-{kind}"));
                if *hidden {
                    c.push(format!("count-reused-after-{kind}-whose-arms-capture-others-but-not-the-count"));
                }
            }
        }
    }
    c.sort();
    c.dedup();
    c
}

fn has_formatter(p: &[RPiece]) -> bool {
    p.iter().any(|x| match x {
        RPiece::Var { fmt, .. } => fmt.is_some(),
        RPiece::Comp { children, .. } => has_formatter(children),
        RPiece::Range(r) => r.branches.iter().any(|(_, b)| has_formatter(b)),
        RPiece::Plural(pl) => pl.forms.values().any(|b| has_formatter(b)),
        _ => false,
    })
}

fn comp_depth(p: &[RPiece]) -> usize {
    p.iter()
        .map(|x| match x {
            RPiece::Comp { children, .. } => 1 + comp_depth(children),
            RPiece::Range(r) => r.branches.iter().map(|(_, b)| comp_depth(b)).max().unwrap_or(0),
            RPiece::Plural(pl) => pl.forms.values().map(|b| comp_depth(b)).max().unwrap_or(0),
            _ => 0,
        })
        .max()
        .unwrap_or(0)
}

fn count_pieces(p: &[RPiece]) -> usize {
    p.iter()
        .map(|x| match x {
            RPiece::Comp { children, .. } => 1 + count_pieces(children),
            RPiece::Range(r) => 1 + r.branches.iter().map(|(_, b)| count_pieces(b)).max().unwrap_or(0),
            RPiece::Plural(pl) => 1 + pl.forms.values().map(|b| count_pieces(b)).max().unwrap_or(0),
            _ => 1,
        })
        .sum()
}

fn value_fk_depth(p: &Project, v: &Value, ns: Option<&str>, loc: &str, fuel: usize) -> usize {
    fn pd(p: &Project, pieces: &[Piece], ns: Option<&str>, loc: &str, fuel: usize) -> usize {
        if fuel == 0 {
            return 0;
        }
        let mut d = 0;
        for x in pieces {
            match x {
                Piece::Fk(fk) => {
                    let tns = fk.ns.as_deref().or(ns);
                    let inner = match p.file(tns, loc).map(|o| lookup(o, &fk.path)) {
                        Some(Lookup::Val(v)) => value_fk_depth(p, v, tns, loc, fuel - 1),
                        _ => 0,
                    };
                    d = d.max(1 + inner);
                }
                Piece::Comp { children, .. } => d = d.max(pd(p, children, ns, loc, fuel)),
                _ => {}
            }
        }
        d
    }
    match v {
        Value::Str(pc) => pd(p, pc, ns, loc, fuel),
        Value::Range(r) => r.branches.iter().map(|b| pd(p, &b.body, ns, loc, fuel)).max().unwrap_or(0),
        Value::Plural(pl) => pl.forms.iter().map(|(_, b)| pd(p, b, ns, loc, fuel)).max().unwrap_or(0),
        _ => 0,
    }
}

pub const PLURAL_INTS: &[i128] = &[
    0, 1, 2, 3, 4, 5, 6, 7, 8, 9, 10, 11, 12, 13, 14, 19, 20, 21, 22, 23, 24, 25, 80, 100, 101, 102, 103, 111, 112, 113, 800, 1000, 1001,
    1000000, 2000000, 1000001,
];
pub const PLURAL_DECIMALS: &[f64] = &[0.5, 1.5, 1.1, 2.5, 0.1, 10.5, 1.25, 100.75];

/// build the plan for a project that the model accepts (no expected error)
pub fn plan_project(p: &Project, opts: &PlanOpts, t: &mut Tape) -> Plan {
    let sem = Sem::new(p);
    let mut keys = vec![];
    for ns in p.ns_list() {
        let nsr = ns.as_deref();
        let Some(def) = p.file(nsr, p.default_locale()) else { continue };
        let mut paths = vec![];
        leaf_paths(def, &mut vec![], &mut paths);
        for path in paths {
            let mut per_locale = vec![];
            let mut sig = Signature::default();
            let mut defaulted_hops2 = false;
            let mut defaulted_any = false;
            let mut fk_depth = 0;
            let mut has_range = false;
            let mut has_plural = false;
            let mut member_sets = std::collections::BTreeSet::new();
            let mut ok = true;
            for loc in &p.locales {
                let eff = sem.effective_locale(nsr, loc, &path);
                let Ok(r) = sem.resolve_at(nsr, &eff, &path) else {
                    ok = false;
                    break;
                };
                if eff == *loc {
                    let mut s = Signature::default();
                    signature(&r, &mut s);
                    member_sets.insert(format!("{:?}{:?}", s.vars, s.comps));
                    sig.merge(&s);
                    if let Lookup::Val(v) = sem.raw(nsr, loc, &path) {
                        fk_depth = fk_depth.max(value_fk_depth(p, v, nsr, loc, 6));
                        has_range |= matches!(v, Value::Range(_));
                        has_plural |= matches!(v, Value::Plural(_));
                    }
                } else {
                    defaulted_any = true;
                    let first = p.inherits.get(loc).cloned().unwrap_or_else(|| p.default_locale().to_string());
                    if first != eff || eff != p.default_locale() {
                        defaulted_hops2 = true;
                    }
                }
                per_locale.push((eff, r));
            }
            if !ok {
                continue;
            }
            let hf = per_locale.iter().any(|(_, r)| has_formatter(r));
            let idx = keys.len();
            let mut kp = KeyPlan {
                idx,
                ns: ns.clone(),
                path: path.clone(),
                hash: fnv1a(format!("{:?}", per_locale).as_bytes()),
                pieces_max: per_locale.iter().map(|(_, r)| count_pieces(r)).max().unwrap_or(0),
                comp_depth: per_locale.iter().map(|(_, r)| comp_depth(r)).max().unwrap_or(0),
                sig,
                per_locale,
                has_formatter: hf,
                assigns: vec![],
                defaulted_hops2,
                defaulted_any,
                fk_depth,
                has_range,
                has_plural,
                multi_locale_sig: member_sets.len() >= 2,
            };
            kp.assigns = make_assigns(&kp, opts, t);
            keys.push(kp);
        }
    }
    Plan { keys }
}

fn make_assigns(k: &KeyPlan, opts: &PlanOpts, t: &mut Tape) -> Vec<Assign> {
    let mut out = vec![];
    let count_vars: Vec<(String, CountKind)> = k.sig.counts.iter().filter_map(|(v, kinds)| kinds.iter().next().cloned().map(|c| (v.clone(), c))).collect();
    let n_assign = if k.sig.is_empty() { 1 } else { opts.assignments.max(1) };
    let fams = if opts.formatters { formatted_vars(k) } else { BTreeMap::new() };
    for round in 0..n_assign {
        let mut vars = BTreeMap::new();
        let mut fvars = BTreeMap::new();
        for v in &k.sig.vars {
            if k.sig.counts.contains_key(v) {
                continue;
            }
            if let Some(family) = fams.get(v) {
                fvars.insert(v.clone(), FVal::draw(family, round, fnv1a(v.as_bytes()) ^ k.hash, t));
                continue;
            }
            let val = match (round + t.pick(3)) % 3 {
                0 => format!("\u{ab}{}\u{bb}", v),
                1 => format!("{}=\u{3b1}\u{1f600} \"q\" & 'x' \\ <i>", v),
                _ => String::new(),
            };
            vars.insert(v.clone(), val);
        }
        let mut loop_var = None;
        let mut fixed = BTreeMap::new();
        for (i, (v, kind)) in count_vars.iter().enumerate() {
            let probes: Vec<Num> = match kind {
                CountKind::Range(ty) => {
                    let mut specs = vec![];
                    let mut pl = false;
                    for (_, r) in &k.per_locale {
                        collect_count_specs(r, v, &mut specs, &mut pl);
                    }
                    let sp: Vec<&CountSpec> = specs.iter().map(|(s, _)| *s).collect();
                    if opts.exhaustive_small && matches!(ty, RangeTy::I8 | RangeTy::U8) {
                        let (lo, hi) = ty.min_max();
                        (lo..=hi).map(Num::Int).collect()
                    } else {
                        let mut pr = range_probe_counts(&sp, *ty);
                        if pr.len() > opts.max_counts {
                            // keep a tape-chosen subset (always the first few: bounds of the first specs)
                            let mut keep = vec![];
                            let perm = t.permutation(pr.len());
                            for i in perm.into_iter().take(opts.max_counts) {
                                keep.push(pr[i]);
                            }
                            pr = keep;
                        }
                        pr
                    }
                }
                CountKind::Plural => {
                    let mut pr: Vec<Num> = PLURAL_INTS.iter().map(|i| Num::Int(*i)).collect();
                    if opts.plural_decimals && round % 2 == 1 {
                        pr = PLURAL_DECIMALS.iter().map(|f| Num::Float(*f)).collect();
                    }
                    if pr.len() > opts.max_counts.max(12) {
                        let perm = t.permutation(pr.len());
                        pr = perm.into_iter().take(opts.max_counts.max(12)).map(|i| pr[i]).collect();
                    }
                    pr
                }
            };
            if i == 0 {
                loop_var = Some((v.clone(), kind.clone(), probes));
            } else {
                let n = probes[t.pick(probes.len())];
                fixed.insert(v.clone(), (kind.clone(), n));
            }
        }
        out.push(Assign { vars, loop_var, fixed, fvars });
    }
    out
}

pub fn count_display(n: Num, kind: &CountKind) -> String {
    match kind {
        CountKind::Range(ty) => num_display(n, *ty),
        CountKind::Plural => match n {
            Num::Int(i) => i.to_string(),
            Num::Float(f) => format!("{}", f),
        },
    }
}

/// rendering as leptos SSR shows it: identical to the model's rendering except that an *empty text
/// node* (empty value, empty component body / branch / form, empty variable) is written as one space
/// (tachys does that so that the browser creates a text node to hydrate)
pub fn render_view_string(pieces: &[RPiece], args: &RtArgs, locale: &str, out: &mut String) -> Result<(), RenderErr> {
    if pieces.is_empty() {
        out.push(' ');
        return Ok(());
    }
    for p in pieces {
        match p {
            RPiece::Text(t) => out.push_str(t),
            RPiece::Lit(l) => out.push_str(&l.display()),
            RPiece::Var { name, fmt } => {
                if fmt.is_some() {
                    return Err(RenderErr::Formatter);
                }
                match args.vars.get(name) {
                    Some(v) if v.is_empty() => out.push(' '),
                    Some(v) => out.push_str(v),
                    None => return Err(RenderErr::MissingVar(name.clone())),
                }
            }
            RPiece::Comp { name, children } => {
                out.push('\u{E000}');
                out.push_str(name);
                out.push('\u{E001}');
                render_view_string(children, args, locale, out)?;
                out.push('\u{E002}');
            }
            RPiece::Range(r) => {
                let n = *args.counts.get(&r.count_var).ok_or_else(|| RenderErr::MissingCount(r.count_var.clone()))?;
                let i = select_branch(r, n).ok_or(RenderErr::NoBranch)?;
                render_view_string(&r.branches[i].1, args, locale, out)?;
            }
            RPiece::Plural(pl) => {
                let n = *args.counts.get(&pl.count_var).ok_or_else(|| RenderErr::MissingCount(pl.count_var.clone()))?;
                let cat = match n {
                    Num::Int(i) => plural_category_int(locale, pl.ordinal, i),
                    Num::Float(f) => plural_category_f64(locale, pl.ordinal, f),
                }
                .ok_or_else(|| RenderErr::NoPluralRules(locale.to_string()))?;
                let body = pl.forms.get(&cat).unwrap_or_else(|| &pl.forms[&Form::Other]);
                render_view_string(body, args, locale, out)?;
            }
        }
    }
    Ok(())
}

/// expected rendering (sentinel string) of (key, locale index, assignment, loop index)
pub fn expected(p: &Project, k: &KeyPlan, li: usize, a: &Assign, ci: usize, view: bool) -> Result<String, RenderErr> {
    let mut args = RtArgs::default();
    args.vars = a.vars.clone();
    if let Some((v, kind, probes)) = &a.loop_var {
        let n = probes[ci];
        args.counts.insert(v.clone(), n);
        args.vars.insert(v.clone(), count_display(n, kind));
    }
    for (v, (kind, n)) in &a.fixed {
        args.counts.insert(v.clone(), *n);
        args.vars.insert(v.clone(), count_display(*n, kind));
    }
    let loc = &p.locales[li];
    let mut counts: BTreeMap<String, (Num, CountKind)> = BTreeMap::new();
    if let Some((v, kind, probes)) = &a.loop_var {
        counts.insert(v.clone(), (probes[ci], kind.clone()));
    }
    for (v, (kind, n)) in &a.fixed {
        counts.insert(v.clone(), (*n, kind.clone()));
    }
    let pieces = if k.has_formatter { fmt_placeholders(&k.per_locale[li].1, a, &counts, loc) } else { k.per_locale[li].1.clone() };
    if view {
        let mut out = String::new();
        render_view_string(&pieces, &args, loc, &mut out)?;
        return Ok(out);
    }
    let tree = render(&pieces, &args, loc)?;
    Ok(tree_to_string(&tree))
}
