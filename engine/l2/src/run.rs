//! Building and running the generated workspace.

use std::collections::BTreeMap;
use std::path::{Path, PathBuf};
use std::process::Command;

pub const WORK_ROOT: &str = "/verif/work";
pub const TARGET_DIR: &str = "/verif/work/target-l2";

pub struct BuildResult {
    pub ok: bool,
    /// package name -> rustc error excerpt
    pub errors: BTreeMap<String, String>,
    pub wall_s: f64,
}

fn cargo() -> Command {
    let mut c = Command::new("cargo");
    c.env("CARGO_NET_OFFLINE", "true").env("CARGO_TERM_COLOR", "never").env("CARGO_TARGET_DIR", TARGET_DIR);
    c
}

/// prepare the workspace directory (Cargo.lock seeded from the repository so resolution works offline)
pub fn prepare_workspace(ws: &Path, members: &[String]) -> std::io::Result<()> {
    std::fs::create_dir_all(ws)?;
    // remove packages of a previous run
    if let Ok(rd) = std::fs::read_dir(ws) {
        for e in rd.flatten() {
            if e.path().is_dir() && e.file_name() != ".cargo" {
                let _ = std::fs::remove_dir_all(e.path());
            }
        }
    }
    std::fs::write(ws.join("Cargo.toml"), crate::emit::workspace_toml(members))?;
    let lock = ws.join("Cargo.lock");
    let cached = Path::new(WORK_ROOT).join("l2-Cargo.lock");
    if cached.exists() {
        std::fs::copy(&cached, &lock)?;
    } else {
        std::fs::copy("/repo/Cargo.lock", &lock)?;
    }
    Ok(())
}

/// `cargo build --keep-going` for the whole workspace; per-package success is judged by the binary
pub fn build_workspace(ws: &Path, members: &[String], check_only: bool) -> BuildResult {
    let start = std::time::Instant::now();
    for m in members {
        let _ = std::fs::remove_file(Path::new(TARGET_DIR).join("debug").join(m));
    }
    let mut cmd = cargo();
    cmd.current_dir(ws).arg(if check_only { "check" } else { "build" }).arg("--keep-going").arg("--message-format=json-diagnostic-rendered-ansi");
    let out = cmd.output();
    let mut errors: BTreeMap<String, String> = BTreeMap::new();
    let mut ok = false;
    match out {
        Ok(o) => {
            ok = o.status.success();
            let stdout = String::from_utf8_lossy(&o.stdout);
            for line in stdout.lines() {
                let Ok(v) = serde_json::from_str::<serde_json::Value>(line) else { continue };
                if v["reason"] == "compiler-message" && v["message"]["level"] == "error" {
                    let pkg = v["target"]["name"].as_str().unwrap_or("?").to_string();
                    let msg = v["message"]["message"].as_str().unwrap_or("").to_string();
                    let span = v["message"]["spans"].as_array().and_then(|a| a.iter().find(|s| s["is_primary"] == true).cloned());
                    let at = span.map(|s| format!("{}:{}", s["file_name"].as_str().unwrap_or(""), s["line_start"])).unwrap_or_default();
                    let e = errors.entry(pkg).or_default();
                    if e.len() < 3000 {
                        e.push_str(&format!("{msg} @ {at}\n"));
                    }
                }
            }
            if !ok && errors.is_empty() {
                errors.insert("<cargo>".into(), String::from_utf8_lossy(&o.stderr).chars().rev().take(3000).collect::<String>().chars().rev().collect());
            }
            if ok {
                let _ = std::fs::copy(ws.join("Cargo.lock"), Path::new(WORK_ROOT).join("l2-Cargo.lock"));
            }
        }
        Err(e) => {
            errors.insert("<cargo>".into(), format!("cannot run cargo: {e}"));
        }
    }
    BuildResult {
        ok,
        errors,
        wall_s: start.elapsed().as_secs_f64(),
    }
}

/// per-error records of `cargo check` for negative probes: (package, message, line of the root macro call)
pub struct CheckDiag {
    pub pkg: String,
    pub message: String,
    pub lines: Vec<u64>,
    /// lines of main.rs the primary spans expand from
    pub primary_lines: Vec<u64>,
}

pub fn check_workspace_diags(ws: &Path) -> (bool, Vec<CheckDiag>, String) {
    let mut cmd = cargo();
    cmd.current_dir(ws).arg("check").arg("--keep-going").arg("--message-format=json");
    let mut diags = vec![];
    match cmd.output() {
        Ok(o) => {
            let stdout = String::from_utf8_lossy(&o.stdout);
            for line in stdout.lines() {
                let Ok(v) = serde_json::from_str::<serde_json::Value>(line) else { continue };
                if v["reason"] == "compiler-message" && v["message"]["level"] == "error" {
                    let pkg = v["target"]["name"].as_str().unwrap_or("?").to_string();
                    let msg = v["message"]["message"].as_str().unwrap_or("").to_string();
                    // every span, following macro expansions back to the call site in main.rs
                    let mut lines = vec![];
                    fn collect(span: &serde_json::Value, lines: &mut Vec<u64>) {
                        if span["file_name"].as_str().map(|f| f.ends_with("main.rs")).unwrap_or(false) {
                            if let Some(l) = span["line_start"].as_u64() {
                                lines.push(l);
                            }
                        }
                        if !span["expansion"].is_null() {
                            collect(&span["expansion"]["span"], lines);
                        }
                    }
                    let mut primary_lines = vec![];
                    for s in v["message"]["spans"].as_array().cloned().unwrap_or_default() {
                        collect(&s, &mut lines);
                        if s["is_primary"].as_bool().unwrap_or(false) {
                            collect(&s, &mut primary_lines);
                        }
                    }
                    for c in v["message"]["children"].as_array().cloned().unwrap_or_default() {
                        for s in c["spans"].as_array().cloned().unwrap_or_default() {
                            collect(&s, &mut lines);
                        }
                    }
                    diags.push(CheckDiag { pkg, message: msg, lines, primary_lines });
                }
            }
            (o.status.success(), diags, String::from_utf8_lossy(&o.stderr).chars().rev().take(2000).collect::<String>().chars().rev().collect())
        }
        Err(e) => (false, diags, format!("cannot run cargo: {e}")),
    }
}

/// remove what cargo left in the shared target directory for these generated packages (binaries, dep-info,
/// fingerprints): thousands of packages are generated per run and nothing of them is needed afterwards
pub fn cleanup_members(members: &[String]) {
    let debug = Path::new(TARGET_DIR).join("debug");
    for m in members {
        let _ = std::fs::remove_file(debug.join(m));
        let _ = std::fs::remove_file(debug.join(format!("{m}.d")));
    }
    for sub in ["deps", ".fingerprint", "incremental"] {
        let Ok(rd) = std::fs::read_dir(debug.join(sub)) else { continue };
        for e in rd.flatten() {
            let name = e.file_name().to_string_lossy().to_string();
            let owned = members.iter().any(|m| name.strip_prefix(m.as_str()).map(|rest| rest.starts_with('-')).unwrap_or(false));
            if owned {
                let p = e.path();
                if p.is_dir() {
                    let _ = std::fs::remove_dir_all(&p);
                } else {
                    let _ = std::fs::remove_file(&p);
                }
            }
        }
    }
}

pub fn binary_path(member: &str) -> PathBuf {
    Path::new(TARGET_DIR).join("debug").join(member)
}

pub fn unesc(s: &str) -> String {
    let mut o = String::with_capacity(s.len());
    let mut it = s.chars();
    while let Some(c) = it.next() {
        if c == '\\' {
            match it.next() {
                Some('n') => o.push('\n'),
                Some('r') => o.push('\r'),
                Some('t') => o.push('\t'),
                Some('\\') => o.push('\\'),
                Some(x) => {
                    o.push('\\');
                    o.push(x)
                }
                None => o.push('\\'),
            }
        } else {
            o.push(c);
        }
    }
    o
}

pub struct RunOutput {
    /// observation id -> text
    pub obs: BTreeMap<String, String>,
    pub done: bool,
    pub status: String,
    pub stderr_tail: String,
}

pub fn run_binary(member: &str, env: &[(&str, &str)]) -> RunOutput {
    let mut cmd = Command::new(binary_path(member));
    for (k, v) in env {
        cmd.env(k, v);
    }
    let out = cmd.output();
    let mut obs = BTreeMap::new();
    let mut done = false;
    match out {
        Ok(o) => {
            let stdout = String::from_utf8_lossy(&o.stdout);
            for line in stdout.lines() {
                if line == "DONE" {
                    done = true;
                    continue;
                }
                if let Some((id, text)) = line.split_once('\t') {
                    obs.insert(id.to_string(), unesc(text));
                }
            }
            RunOutput {
                obs,
                done,
                status: format!("{:?}", o.status),
                stderr_tail: String::from_utf8_lossy(&o.stderr).chars().rev().take(1500).collect::<String>().chars().rev().collect(),
            }
        }
        Err(e) => RunOutput {
            obs,
            done,
            status: format!("spawn error: {e}"),
            stderr_tail: String::new(),
        },
    }
}

/// leptos `to_html()` output -> text with sentinels: strip `<!>` markers and comments, decode entities
pub fn decode_html(s: &str) -> String {
    let mut t = String::with_capacity(s.len());
    let mut rest = s;
    loop {
        if let Some(i) = rest.find("<!") {
            t.push_str(&rest[..i]);
            let after = &rest[i..];
            if after.starts_with("<!>") {
                rest = &after[3..];
            } else if after.starts_with("<!--") {
                match after.find("-->") {
                    Some(j) => rest = &after[j + 3..],
                    None => {
                        t.push_str(after);
                        break;
                    }
                }
            } else {
                t.push_str("<!");
                rest = &after[2..];
            }
        } else {
            t.push_str(rest);
            break;
        }
    }
    t.replace("&lt;", "<").replace("&gt;", ">").replace("&quot;", "\"").replace("&#x27;", "'").replace("&amp;", "&")
}
