#!/usr/bin/env bash
# mkseedjobs.sh <PROP...> : scratch worktrees + self-contained prompt files for independent breaker agents
for p in "$@"; do
  git -C /repo worktree add -q --detach /tmp/seed_$p HEAD
  jq -r "select(.id==\"$p\") | \"PROPERTY \" + .id + \": \" + .title + \"\n\nSTATEMENT: \" + .statement + \"\n\nQUANTIFIED OVER: \" + .quantifier.text + \"\n\nCODE ANCHORS (files): \" + (.anchors.files|join(\", \")) + \"\nMECHANISMS: \" + ([.anchors.mechanism[] | .name + \" @ \" + .where] | join(\"; \"))" /verif/properties.jsonl > /tmp/seed_$p.prop.txt
  python3 - "$p" <<'PY'
import sys
p=sys.argv[1]
t=open('/tmp/breaker_prompt.txt').read().replace('WORKTREE', f'/tmp/seed_{p}').replace('PROPTEXT', open(f'/tmp/seed_{p}.prop.txt').read())
open(f'/tmp/seed_{p}.prompt.txt','w').write(t)
PY
done
git -C /repo worktree list
