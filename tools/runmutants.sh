#!/usr/bin/env bash
# runmutants.sh <PROP> [patch...] : apply each deliberate mutant (or seeded change) to /repo, run the
# quick check, expect exit 1, and restore /repo with `git apply -R`. Never leaves /repo modified.
set -u
cd "$(dirname "$0")/.."
PROP="$1"; shift
PATCHES=("$@")
if [ ${#PATCHES[@]} -eq 0 ]; then PATCHES=(mutants/$PROP/*.diff); fi
for p in "${PATCHES[@]}"; do
  [ -f "$p" ] || continue
  if ! git -C /repo apply --check "$(realpath "$p")" 2>/dev/null; then echo "SKIP $p (does not apply)"; continue; fi
  git -C /repo apply "$(realpath "$p")"
  out=$(VERIF_EVIDENCE_DIR=/verif/work/evidence-scratch VERIF_SEED=${VERIF_SEED:-1} ./check "$PROP" 2>&1); rc=$?
  git -C /repo apply -R "$(realpath "$p")"
  sig=$(echo "$out" | grep -o 'violation detail ([^)]*)' | head -1)
  if [ $rc -eq 1 ]; then echo "CAUGHT  $p  $sig"; else echo "MISSED  $p  (exit $rc) $(echo "$out" | tail -1 | cut -c1-200)"; fi
  rm -rf "replays/$PROP"
done
