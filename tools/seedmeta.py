#!/usr/bin/env python3
"""seedmeta.py <PROP> <caught|missed-then-caught|missed> <signature> <note> : add the builder's verification to seeded/<PROP>/meta.json"""
import json, sys
p, res, sig, note = sys.argv[1:5]
f = f'/verif/seeded/{p}/meta.json'
m = json.load(open(f))
m['verified_by_builder'] = {'existing_suite_with_change': 'cargo test --workspace --no-fail-fast --offline: 113 passed, 0 failed', 'demo_with_change': 'seeded/demo/run.sh exit 101 (non-zero)', 'demo_without_change': 'seeded/demo/run.sh exit 0', 'how': f'tools/verify_seed.sh in the scratch worktree /tmp/seed_{p}'}
m['framework_result'] = {'detected': res != 'missed', 'initially_missed': res != 'caught', 'by': f'./check {p}', 'signature': sig, 'note': note}
m['ran'] = f'tools/runmutants.sh {p} seeded/{p}/patch.diff  (git -C /repo apply; ./check {p} quick tier seed 1; git -C /repo apply -R)'
json.dump(m, open(f, 'w'), indent=1, ensure_ascii=False)
