#!/usr/bin/env python3
"""Coverage-guided stage of C09 (thorough tier): libFuzzer targets fuzz_value / fuzz_file.
usage: fuzz_stage.py run <runs-per-target>   |   fuzz_stage.py replay <target> <artifact>
exit 0 = no crash, 1 = crash (VIOLATION line printed), 2 = inconclusive (build failure, timeout, oom)"""
import json, os, re, shutil, subprocess, sys, time

ROOT = '/verif'
ENGINE = f'{ROOT}/engine'
TARGETS = ['fuzz_value', 'fuzz_file']
BIN = f'{ENGINE}/target/x86_64-unknown-linux-gnu/release'
ENV = dict(os.environ, CARGO_NET_OFFLINE='true', CARGO_TERM_COLOR='never')

def build():
    r = subprocess.run(['cargo', '+nightly', 'fuzz', 'build', '-s', 'none'], cwd=ENGINE, env=ENV, capture_output=True, text=True)
    if r.returncode != 0:
        sys.stderr.write('harness error: cargo fuzz build failed\n' + r.stderr[-3000:])
        sys.exit(2)

def run(runs):
    build()
    seed = int(os.environ.get('VERIF_SEED', '0')) or 1   # libFuzzer: 0 means random
    os.makedirs(f'{ROOT}/replays/C09', exist_ok=True)
    stats = {}
    rc = 0
    for t in TARGETS:
        corpus = f'{ROOT}/work/fuzz-corpus/{t}'
        shutil.rmtree(corpus, ignore_errors=True)
        shutil.copytree(f'{ENGINE}/fuzz/seeds/{t}', corpus)
        start = time.time()
        cmd = [f'{BIN}/{t}', corpus, f'-runs={runs}', f'-seed={seed}', '-max_len=2048', '-len_control=0', f'-dict={ENGINE}/fuzz/dict.txt',
               f'-artifact_prefix={ROOT}/replays/C09/{t}-', '-print_final_stats=1', '-timeout=30', '-rss_limit_mb=4096']
        r = subprocess.run(cmd, cwd=ENGINE, env=ENV, capture_output=True, text=True, errors='replace')
        err = r.stderr
        ex = re.search(r'stat::number_of_executed_units:\s*(\d+)', err)
        cov = re.findall(r'cov: (\d+)', err)
        corp = re.findall(r'corp: (\d+)', err)
        st = dict(executed=int(ex.group(1)) if ex else 0, final_cov=int(cov[-1]) if cov else 0, corpus_entries=int(corp[-1]) if corp else 0,
                  seeds=len(os.listdir(f'{ENGINE}/fuzz/seeds/{t}')), wall_s=round(time.time() - start, 1), seed=seed, exit=r.returncode)
        stats[t] = st
        if r.returncode != 0:
            art = re.search(r'Test unit written to (\S+)', err)
            path = art.group(1) if art else ''
            name = os.path.basename(path)
            if 'timeout-' in name or 'oom-' in name or 'slow-unit' in name:
                sys.stderr.write(f'inconclusive: libFuzzer reported {name} for {t}\n')
                rc = max(rc, 2)
            elif path:
                panic = re.findall(r"panicked at ([^\n]*)\n([^\n]*)", err)
                print(f'VIOLATION property=C09 replay={path}')
                sys.stderr.write(f'violation detail (fuzz:{t}): {panic[-1] if panic else err[-600:]}\n')
                st['crash'] = name
                rc = 1
            else:
                sys.stderr.write(f'harness error: {t} exited {r.returncode} without an artifact\n{err[-1500:]}\n')
                rc = max(rc, 2)
        if rc == 1:
            break
    # fold into the evidence written by the first stage
    evdir = os.environ.get('VERIF_EVIDENCE_DIR', f'{ROOT}/evidence')
    p = f'{evdir}/C09.json'
    try:
        ev = json.load(open(p))
        cov = ev['coverage']
        total = sum(s['executed'] for s in stats.values())
        cov['evaluations'] = cov.get('evaluations', 0) + total
        cov['fuzz'] = stats
        cov['rule'] = cov.get('rule', '') + ' || FUZZ STAGE (libFuzzer, no sanitizer: safe Rust; panic = abort = crash): targets fuzz_value (bytes -> one translation string next to helper keys that `$t` can reach) and fuzz_file (bytes -> whole en.json / fr.json), seeded with the repository\'s own locale strings, token dictionary, -max_len=2048; every input runs parse_locales, the build-script API and the in-process code generator; executed units are added to `evaluations`, corpus growth is reported under coverage.fuzz (not counted as distinct non-trivial cases)'
        ev['wall_s'] = ev.get('wall_s', 0) + sum(s['wall_s'] for s in stats.values())
        if rc == 1:
            ev['violations'] = ev.get('violations', 0) + 1
        json.dump(ev, open(p, 'w'), indent=2, ensure_ascii=False)
    except Exception as e:
        sys.stderr.write(f'harness error: cannot update evidence: {e}\n')
        rc = max(rc, 2)
    sys.stderr.write('[C09 fuzz] ' + json.dumps(stats) + '\n')
    sys.exit(rc)

def replay(target, artifact):
    build()
    r = subprocess.run([f'{BIN}/{target}', artifact], cwd=ENGINE, env=ENV, capture_output=True, text=True, errors='replace')
    if r.returncode != 0:
        print(f'VIOLATION property=C09 replay={artifact}')
        sys.stderr.write(r.stderr[-1500:])
        sys.exit(1)
    sys.stderr.write(f'[C09 fuzz replay] {target} {artifact}: no crash\n')
    sys.exit(0)

if __name__ == '__main__':
    if sys.argv[1] == 'run':
        run(int(sys.argv[2]))
    else:
        replay(sys.argv[2], sys.argv[3])
