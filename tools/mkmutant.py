#!/usr/bin/env python3
"""mkmutant.py <prop> <name> <file-relative-to-/repo> <old> <new>  -> /verif/mutants/<prop>/<name>.diff
Creates a deliberate mutant of /repo as a patch file (the tree is restored afterwards)."""
import subprocess, sys, os
prop, name, rel, old, new = sys.argv[1:6]
path = os.path.join('/repo', rel)
src = open(path).read()
if src.count(old) != 1:
    sys.exit(f"pattern occurs {src.count(old)} times in {rel}")
open(path, 'w').write(src.replace(old, new))
diff = subprocess.run(['git', '-C', '/repo', 'diff', '--', rel], capture_output=True, text=True).stdout
open(path, 'w').write(src)
os.makedirs(f'/verif/mutants/{prop}', exist_ok=True)
open(f'/verif/mutants/{prop}/{name}.diff', 'w').write(diff)
print(f"wrote mutants/{prop}/{name}.diff ({len(diff.splitlines())} lines)")
