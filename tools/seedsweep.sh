#!/usr/bin/env bash
# seedsweep.sh <PROP> <seed...> : run the quick check with several seeds without touching the evidence
cd "$(dirname "$0")/.."
PROP="$1"; shift
for s in "$@"; do
  out=$(VERIF_EVIDENCE_DIR=/verif/work/evidence-scratch VERIF_SEED=$s ./check "$PROP" 2>&1); rc=$?
  echo "seed=$s exit=$rc $(echo "$out" | grep -v '^KNOWN' | tail -1 | cut -c1-160)"
  if [ $rc -ne 0 ]; then echo "$out" | grep -E "^VIOLATION|^violation detail" | cut -c1-400; fi
done
