#!/usr/bin/env bash
# takeseed.sh <PROP> : copy a breaker agent's deliverables into /verif/seeded/<PROP>, verify them in
# the scratch worktree and run the check against the patch
cd "$(dirname "$0")/.."
P="$1"
mkdir -p seeded/$P
cp /tmp/seed_$P/seeded/patch.diff seeded/$P/patch.diff
cp /tmp/seed_$P/seeded/meta.json seeded/$P/meta.json
rm -rf seeded/$P/demo; cp -r /tmp/seed_$P/seeded/demo seeded/$P/demo
find seeded/$P -name target -type d -prune -exec rm -rf {} + 2>/dev/null
find seeded/$P -name Cargo.lock -delete 2>/dev/null
tools/verify_seed.sh $P
tools/runmutants.sh $P seeded/$P/patch.diff
