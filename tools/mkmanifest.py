#!/usr/bin/env python3
"""Regenerates /verif/MANIFEST.json from the table below (one entry per claimed property)."""
import json

PBT = 'property-based testing (proptest-driven choice tapes, shrinking) against a reference model'
C = {}
def add(pid, engine, text, note, technique=PBT, design=None):
    C[pid] = dict(property_id=pid, quick_cmd=f'./check {pid} --tier quick', thorough_cmd=f'./check {pid} --tier thorough',
                  evidence_file=f'/verif/evidence/{pid}.json', replay_cmd_template=f'./check {pid} --replay {{path}}', engine=engine,
                  level_claimed=dict(category='exploration', text=text, design_ref=design or f'DESIGN.md §3 {pid}'),
                  level_note=note, technique=technique)

L1_NOTE = ('Trusted: the reference semantics (engine/vcommon/src/sem.rs), the file printer (ser.rs), serde_json. '
           'Generated literal text stays inside the documented grammar (no stray { } < > or `$t(`). Parser-level observation; ')

add('C01', 'l1', 'Generated well-formed projects are printed from an AST, loaded by the real parser, and every (locale, key, arguments) is evaluated through Locale.strings and compared with a reference rendering of the AST. Sampling of an infinite project space: finds counter-examples, proves nothing.',
    L1_NOTE + 'code generation is observed by the generated-crate tier.')
add('C02', 'l2', 'Generated packages compiled with load_locales!(); one natively created context per package, switched with set_locale; for every (locale, key, arguments, up to 3 counts) every accessor flavour (t!/tu!/td! views, *_string!, *_display!, the const chain for literal keys) and every scoping route (scope_i18n!, use_i18n_scoped!, scope_locale!, direct and chained) must equal the reference rendering, hence each other. A fifth of the variables carry a formatter: their expected text is fresh ICU4X output computed inside the generated binary by the independent vref crate. Stage 2: the same packages built with the `show_keys_only` feature, where every flavour must show the same text and it must name the key.',
    'Trusted: reference semantics, the decoder of leptos to_html() output (empty text nodes render as one space). Reactive re-rendering is C16.',
    technique='differential property-based testing across accessor flavours on generated crates, with a reference model')
add('C03', 'l1', 'Exhaustive enumeration of the 4-locale domain (125 inherits maps x 27 presence patterns x 6 value kinds) at parser level plus random projects with 2-6 locales; text per locale and the DefaultedLocales grouping used by the code generator are compared with the model walk along `inherits`.',
    L1_NOTE + '`exhaustive` in the evidence refers to the enumerated 4-locale sub-domain at parser level; the generated-crate stage compiles one package per inherits map (8 representative maps quick, all 125 thorough) holding every presence pattern x value kind, plus random packages.',
    technique='exhaustive enumeration of a finite sub-domain + property-based testing against a reference model')
add('C04', 'l1', 'Stage 1 (parser): generated range declarations over all numeric types are parsed and matched by an independent matcher, and `$t(range,{count:n})` must pick the same branch at parse time. Stage 2 (generated crates): the same kind of declarations compiled with load_locales!() and observed through td_string!/td_display!/td! in a run-time loop over every bound +-2, extremes (all 256 values for i8/u8; +-1 ulp for floats). Oracle: first containing branch under Rust range semantics.',
    L1_NOTE + 'every generated integer range has a fallback; empty ranges (5..5, ..MIN) are not generated.',
    technique='property-based testing against a reference model, at parser level and on generated crates (differential across three rendering back-ends)')
add('C05', 'l1', 'Stage 1 (parser): hand-transcribed CLDR rules cross-checked against ICU4X; generated plural projects evaluated and `$t` literal counts resolved at parse time; UnusedForm diagnostics; raw plural-shaped key sets (mixing, collisions, single forms, no `other`). Stage 2 (generated crates): plural groups in 2-4 locales out of 16 covering every category pattern, observed through td_string!/td_display! (integers and FixedDecimal) and td! for 36 integer and 8 decimal counts. Stage 3 (generated crates): the t_plural!/tu_plural!/td_plural! macro family and its _ordinal forms on a live context (closures kept across set_locale), every arm subset, integer and decimal counts.',
    L1_NOTE + 'no fallback between locales for plural keys (which rules apply to an inherited plural is unspecified).',
    technique='property-based testing against hand-transcribed CLDR rules (cross-checked with ICU4X), at parser level and on generated crates')
add('C06', 'l1', 'Exhaustive part: the enumerated 4-locale domain (125 inherits maps x 27 presence patterns of the target) with 8 reference shapes per pattern. Random part: generated acyclic `$t` reference graphs (all target and argument kinds, null/inherited targets, namespaces) and mutated negative classes (missing target, group target, cycles); resolved trees from the parser are evaluated and compared with structural substitution on the AST; negative classes must be rejected naming the key.',
    L1_NOTE + '`$t` inside a component body is outside the generated domain.',
    technique='exhaustive enumeration of a finite sub-domain + property-based testing against a reference model (structural substitution)')
add('C07', 'l1', 'Generated key-set variations (absent / null / surplus keys and groups at every depth, inherits maps, kind flips); the multiset of MissingKey/SurplusKey diagnostics and the accessible key set from parse_locales are compared with the model.',
    L1_NOTE + 'three stages: parser level, the same on a harness build with suppress_key_warnings, and negative compile probes on generated crates.')
add('C08', 'l1', 'Exhaustive part: the enumerated 4-locale domain (125 inherits maps x 27 presence patterns, 7 reference shapes) with locale-specific member names. Random part: generated keys whose per-locale values differ in kind and member sets (and deliberate count conflicts); the InterpolOrLit computed by the parser is compared with the union over locales of the AST members after substitution.',
    L1_NOTE + 'stage 2 = compile probes on generated crates: per key the valid call with exactly the union set (string and view back-ends; formatted variables as typed values) must compile with no error of any kind (compiled once without the negative probes so that borrow-check errors are not masked), and each omitted member / unknown member / unknown key / wrongly typed count must not compile.')
add('C09', 'l1', 'Grammar-aware adversarial mutations of generated projects (delimiters, multi-byte characters, hostile ranges / bounds / counts / references / key names, mutated manifests) run in-process under catch_unwind through parse_locales, the build-script API and the code generator; deep / long values run in child processes with an 8 MiB stack; regression inputs of all earlier panics. Oracle: Ok or a non-empty error, never a panic, abort or signal.',
    'A child still running after 120 s is inconclusive (exit 2). Stack overflows on 65-130 kB single values are recorded as known finding D9. Stage 2 (generated crates): packages that expand load_locales!() three times in one crate must compile and run (state surviving an expansion inside the compiler process). Stages 3 and 4 (YAML and JSON5 harness builds): scalar spellings JSON does not have (non-finite floats, hex / octal / underscored integers, signs, tags, anchors, single quotes) in 8 positions of a project. Coverage-guided byte-level fuzzing (libFuzzer) is the last stage of the thorough tier.',
    technique='property-based testing with grammar-aware mutation (+ libFuzzer in the thorough tier), crash oracle')
add('C10', 'l1', 'Metamorphic: repeated loads + in-process code generation (same process, fresh processes), sampled permutations of object-key order, and the same AST printed as JSON / YAML / JSON5 loaded by three feature builds must agree (byte-identical dumps within a format; key tree, diagnostics and evaluated text across formats). Stage 2 on a harness build without the plural / formatter features: the macro flavour and the build-script flavour of the loader called alternately on one thread must each return what the project alone determines.',
    'Trusted: the three printers in ser.rs. Integers above i64::MAX are excluded (json5 has no u64).',
    technique='metamorphic property-based testing (permutation / re-run / differential across file formats)')
add('C11', 'l1', 'Generated projects with escape-heavy literals; every Literal index is checked against its table, each table against the AST literal set, nested string counts against their top locale, and the files written by TranslationsInfos::write_to_dir are read back with serde_json.',
    L1_NOTE + 'stage 2 builds generated packages with dynamic_load + ssr: text is read at run time through the tables, and __i18n_request_translations__ is compared with the AST literal set; the wasm client side is not observed.')
add('C12', 'l0a', 'Exhaustive enumeration of supported sets (size 1-3 quick, 1-4 thorough) x request lists (length 0-3) over a 12-tag universe plus junk entries, a second exhaustive stage over sets holding a locale without a language (und, und-Latn, und-FR next to the locales they shadow, both declaration orders; judged by what both readings of such a locale imply), anchored by declare_locales! enums, plus random BCP-47 sets; Locale::find_locale / find_matchs are checked against a validity predicate (first request that has any match wins; exact before less specific; unparseable = absent).',
    'Trusted: the harness DynLocale implementation of the public Locale trait (cross-checked against three declare_locales! enums), icu_locid parsing.',
    technique='exhaustive enumeration of small finite domains + property-based testing with a validity-predicate oracle')
add('C13', 'l2', 'Generated locale sets (regions, scripts, variants, near-duplicates, RTL; default anywhere or unlisted), each compiled with load_locales!(); every identity method of every locale and ~15 probe strings per name near a locale name are observed and compared with the configuration.',
    'Trusted: the hand list of RTL languages; the ICU parse of a name is computed inside the generated binary with the same icu_locid crate.',
    technique='property-based testing on generated crates (round-trip and validity-predicate oracles)')
add('C14', 'l0b', 'Generated locale sets (prefix-related names), base path forms, route tables (static / param / optional / splat / localized segments) and paths; the hooks get_locale_from_path / get_new_path / localize_path and a natively built I18nRoute (generate_routes, match_nested) are compared with a segment model (locale read iff the first segment equals a name; switching rewrites prefix + localized segments only, keeps query and hash; A->B->A identity when every step matches one route; N+1 route families).',
    'Needs the verif_hooks feature of leptos_i18n_router. Browser navigation / history effects are not reachable natively. Upstream leptos_router panics on some non-ASCII partial matches are classed, not charged.',
    technique='property-based testing against a segment model, incl. round-trip (A->B->A) relation')
add('C15', 'l0a', 'Full factorial over cookie header x Accept-Language header x cookie options x parent context x initial_locale for main and sub-contexts created natively (ssr), plus random headers; get_locale_untracked() is compared with the documented precedence model.',
    'Only the server-side (ssr) branches are reachable natively; hydrate/csr sources (html lang, navigator.languages) need a DOM and are not covered.',
    technique='exhaustive factorial enumeration + property-based testing against a precedence model')
add('C16', 'l0a', 'Generated operation histories (set_locale, set_locale_untracked, scoping, sub-context creation in four ways, accessor creation, effect ticks) over a growing tree of contexts; after every step every view and every previously created accessor is compared with a model of one locale cell per context.',
    'Runs natively with feature ssr and a deterministic single-threaded executor; browser-only effects (cookie write-back, html attributes) are not observable.',
    technique='stateful (model-based) property-based testing over generated histories')
add('C17', 'l0dyn', 'Arbitrary Unicode string tables (quotes, backslashes, newlines, U+2028/9, </script>, <!--, NUL, astral) served by harness TranslationUnit types and a generated use history; the real registration path (RegisterCtx, provide_i18n_context_component, feature dynamic_load+ssr) is rendered with to_html(); the script must not break out, must parse as a JS literal, and must decode to exactly the used units with their strings in order.',
    'Trusted: the small JS-literal parser of the harness. The hydrate-side re-emission is wasm-only and not observed.',
    technique='property-based testing with a round-trip (embed -> parse -> decode) oracle')
add('C18', 'l0b', 'Exhaustive: every formatter name x option combination x omitted / unknown / duplicated arguments x whitespace through Formatter::from_name_and_args, ParsedValue::new and t_format!; the full option matrix through the __private helpers and td_string!/td_format_string! for 8 locales against freshly built ICU4X formatters. Sampled: call histories of <=60 calls, optionally with 2-8 threads racing on first uses, each in a fresh process (the cache is process-global): results must not depend on history or thread; histories on a live context (views made by t_format!/tu_format!/t!, set_locale, re-rendering): every kept view and every evaluate-now string macro must show the output for the current locale. Stage 2 (generated crates): generated projects whose variables and count variables carry formatters inside components, range branches, plural forms, referenced and defaulted keys, compiled with load_locales!() and observed through td_string!/td_display!/td!; expected = reference rendering with each formatted variable replaced by fresh ICU4X output for the rendered locale (computed in the generated binary by the independent vref crate).',
    'Interleavings are sampled, not controlled. `list_length` (book) vs `list_style` (code) is not asserted. Duplicated arguments: first recognised occurrence wins (as implemented). time_length full/long panic: known finding D23.',
    technique='exhaustive enumeration + differential property-based testing against fresh ICU4X formatters; stateful histories')
add('C19', 'l1', 'Generated Cargo.toml manifests (preamble / trailing sections, field orders, spellings, duplicates, bad inherits, missing fields) and directory layouts (decoys, missing files); ConfigFile fields, files read and errors from parse_locales_raw are compared with a three-valued model (must-accept / must-reject / unspecified). Extension part in the JSON, YAML and JSON5 harness builds: per (namespace, locale) a valid file under a non-empty subset of the format extensions plus decoy endings; exactly one candidate per unit is read, the content comes from the file reported as read, and a second layout differing in one unit leaves the choice for every other unit unchanged (metamorphic).',
    'Configuration part: JSON build. Which of x.yaml / x.yml wins when both exist is not asserted. Unspecified (not asserted): default locale left out of `locales` but used as an inherits target; undocumented sub-table spellings are not generated.')
add('C20', 'l1', 'Generated projects where plurals and each formatter family occur rarely and in varied places (other locales, nested subkeys, later namespaces, via `$t`, unreachable surplus keys); TranslationsInfos::get_icu_keys() as a set is compared with the union of Options::into_data_keys over the families the AST needs and with a hand table of the ICU4X 1.5 data markers of each constructor; locales and namespaces are compared with the configuration. Stage 2 (engine lb): the build helper linked on its own (no other crate enables parser features) on generated projects and on inputs whose names the macro does not accept as identifiers.',
    L1_NOTE + 'option values of formatters belong to C18.')

ENGINES = [
    dict(name='l1', path='engine/l1 (+ l1y, l1j5: same sources built for yaml / json5)', kind_free_text='in-process parser / code-generator / build-helper harness driven by proptest choice tapes; sources of the proc-macro crate compiled in via #[path]'),
    dict(name='l1nf', path='engine/l1nf', kind_free_text='the l1 sources built without the plural / formatter features (second stage of C10: call-history independence of the two loader flavours)'),
    dict(name='l2', path='engine/l2', kind_free_text='generated-crate tier: projects generated from choice tapes are emitted as cargo packages calling the real macros, compiled in one workspace, run, and their printed observations compared with the reference semantics (second stage of C01 C03 C04 C05 C06 C07 C08 C11 C18; sole engine of C02 C13); engine/vref is the independent ICU4X reference crate the C18 packages link'),
    dict(name='lb', path='engine/lb', kind_free_text='the build helper linked on its own (second stage of C20): get_icu_keys() against a hand table of ICU4X data-marker names'),
    dict(name='l0b', path='engine/l0b', kind_free_text='native run-time harness: router path helpers (hooks), I18nRoute, formatter parsing and run-time formatting'),
    dict(name='l0bp', path='engine/l0bp', kind_free_text='the C18 run-time harness built against leptos_i18n without icu_compiled_data (custom ICU data provider registered at start): second stage of C18'),
    dict(name='l0dyn', path='engine/l0dyn', kind_free_text='native run-time harness built with dynamic_load+ssr: server-embedded translations'),
    dict(name='l0a', path='engine/l0a', kind_free_text='native (ssr) run-time harness: locale negotiation, context initialisation, context histories'),
]

def main():
    props = [json.loads(l) for l in open('/verif/properties.jsonl')]
    for e in ENGINES:
        e['serves_properties'] = sorted(p for p, c in C.items() if c['engine'] == e['name'])
    m = dict(version=1, setup_cmd='./setup.sh',
             hooks=dict(guard='cargo feature `verif_hooks` on leptos_i18n_router (off by default): pub mod verif_hooks exposing get_locale_from_path, get_new_path, localize_path and last_route_tables',
                        enable='harness crates depend on leptos_i18n_router with features = ["ssr", "verif_hooks"]',
                        baseline_off_cmd='cd /repo && cargo test --workspace --no-fail-fast --offline',
                        source_commits=['45ca6aa', '4e891ee'], add_only=True),
             engines=ENGINES,
             checks=[C[k] for k in sorted(C)],
             notes='Every check: ./check <ID> [--tier quick|thorough] [--replay file]; exit 0 / 1 (+VIOLATION line) / 2 (harness error, inconclusive). Known findings: known_findings.json. Deliberate mutants used to validate sensitivity: mutants/<ID>/*.diff (tools/runmutants.sh).',
             not_applicable=[dict(property_id=p['id'], reason='check not built yet in this round (planned, see DESIGN.md §7)') for p in props if p['id'] not in C])
    json.dump(m, open('/verif/MANIFEST.json', 'w'), indent=1)
    print('claimed:', sorted(C))

main()
