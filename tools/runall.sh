#!/usr/bin/env bash
# runall.sh [tier] : run every registered check once (writes the real evidence files)
cd "$(dirname "$0")/.."
TIER="${1:-quick}"
for p in C01 C02 C03 C04 C05 C06 C07 C08 C09 C10 C11 C12 C13 C14 C15 C16 C17 C18 C19 C20; do
  s=$(date +%s)
  out=$(VERIF_SEED=${VERIF_SEED:-1} ./check $p --tier $TIER 2>&1); rc=$?
  e=$(( $(date +%s) - s ))
  echo "$p exit=$rc ${e}s $(echo "$out" | grep -c '^KNOWN-FINDING') known  $(echo "$out" | grep -v '^KNOWN' | tail -1 | cut -c1-150)"
  if [ $rc -ne 0 ]; then echo "$out" | grep -E "^VIOLATION|^violation|harness error" | cut -c1-300; fi
done
