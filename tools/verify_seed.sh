#!/usr/bin/env bash
# verify_seed.sh <PROP> : in the scratch worktree /tmp/seed_<PROP> confirm that
#  (1) the existing suite passes with the seeded change, (2) the demonstration fails with it, (3) passes without it
P="$1"; W=/tmp/seed_$P
cd $W || exit 2
export CARGO_TARGET_DIR=$W/target CARGO_NET_OFFLINE=true
git diff --quiet && git apply seeded/patch.diff
suite=$(cargo test --workspace --no-fail-fast --offline 2>&1 | grep -E "^test result" | awk '{p+=$4; f+=$6} END {print "passed="p" failed="f}')
bash seeded/demo/run.sh >/tmp/seed_$P.demo_with.log 2>&1; with=$?
git apply -R seeded/patch.diff
bash seeded/demo/run.sh >/tmp/seed_$P.demo_without.log 2>&1; without=$?
git apply seeded/patch.diff
echo "$P suite_with_change: $suite | demo_with_change exit=$with | demo_without_change exit=$without"
