#!/usr/bin/env bash
# sweepall.sh <seed...> : quick tier of every check for several seeds (scratch evidence); prints only problems + a summary
cd "$(dirname "$0")/.."
bad=0
for p in C01 C02 C03 C04 C05 C06 C07 C08 C09 C10 C11 C12 C13 C14 C15 C16 C17 C18 C19 C20; do
  for s in "$@"; do
    out=$(VERIF_EVIDENCE_DIR=/verif/work/evidence-scratch VERIF_SEED=$s ./check "$p" 2>&1); rc=$?
    if [ $rc -ne 0 ]; then bad=$((bad+1)); echo "PROBLEM $p seed=$s exit=$rc"; echo "$out" | grep -E "^VIOLATION|^violation detail|harness error" | cut -c1-600; fi
  done
  echo "$p done"
done
echo "sweep finished, problems=$bad"
