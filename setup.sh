#!/usr/bin/env bash
# Build the whole framework from files on disk (offline). Run once after a fresh restore.
set -eu
cd "$(dirname "$0")"
export CARGO_NET_OFFLINE=true
export CARGO_TERM_COLOR=never
mkdir -p evidence replays work
(cd engine && cargo build --workspace 2>&1 | tail -n 5)
echo "setup done"
