#!/usr/bin/env bash
# Build the whole framework from files on disk (offline). Run once after a fresh restore.
# Packages are built one by one: several of them enable different (incompatible) feature sets of
# the crates under /repo, which a single `--workspace` build would unify.
set -u
cd "$(dirname "$0")"
export CARGO_NET_OFFLINE=true
export CARGO_TERM_COLOR=never
mkdir -p evidence replays work
rc=0
for p in vcommon l1 l1y l1j5 l1s l1nf l2 l0a l0b l0bp l0dyn lb; do
  echo "building $p"
  (cd engine && cargo build -q -p "$p" 2>&1 | tail -n 20) || rc=1
done
# dependencies of the generated crates (shared target dir under work/)
./engine/target/debug/l2 warmup || rc=1
echo "setup done (rc=$rc)"
exit $rc
